#!/usr/bin/env python3
"""Assign a root cause to every C06 discrepancy and (re)generate corpus/C06/known.json.

    python3 tools/c06_triage.py [--tier thorough|quick] [--write]

Runs the same comparison as tools/props/c06.py, then explains each (file, object, kind) discrepancy from facts
about the object's header obtained with `verifharness c06ev` (message types the reader's header parser yields,
attribute-message parse errors, dense-storage addresses, filter ids, chunk filter masks) and from the values
themselves (e.g. "the reader's value is exactly the little-endian reading of big-endian bytes").  A discrepancy
no rule explains is printed as UNEXPLAINED and is not written to known.json (so the check reports it).
The check never calls this tool; known.json is a committed file.
"""
import argparse, collections, json, math, os, random, struct, subprocess, sys

HERE = os.path.dirname(os.path.abspath(__file__))
sys.path.insert(0, HERE)
sys.path.insert(0, os.path.join(HERE, "props"))
import vlib
import c06

ROOT_CAUSES = [
    # (id, call site at /repo HEAD e5d916a (function names are stable, line numbers are those of that commit), what)
    ("C06-dense-links-not-read", "group.go loadModernGroup (lines 222-300): only Link messages and the Symbol Table message are read",
     "a group whose links are in dense storage (Link Info message 0x02 with a fractal heap, no Link messages) is returned with no "
     "children and no error: the Link Info message is never read"),
    ("C06-v2-continuation-not-followed", "internal/core/objectheader.go parseV2Header (repaired by 57823d4)",
     "version 2 object headers: the continuation message (0x10) was stored like any other message and never followed, so every "
     "message in a continuation chunk (attributes, links, dataspace ...) was silently missing"),
    ("C06-attribute-info-type", "internal/core/objectheader.go MsgAttributeInfo, internal/core/attribute.go ParseAttributesFromMessages (repaired by dfd678f)",
     "dense attribute storage is announced by the Attribute Info message, type 0x15; the reader looked for type 0x0F, never found "
     "it and returned an object with many attributes as having none"),
    ("C06-attribute-parse-error-swallowed", "internal/core/attribute.go:445-449 ParseAttributesFromMessages (`continue`; pinned by TestReference_AllFiles on "
     "memleak_H5O_dtype_decode_helper_H5Odtype.h5)",
     "an attribute message that fails to parse (shared/committed datatype, dataspace version 0 ...) is dropped from the list; "
     "Attributes() reports no error"),
    ("C06-links-skipped", "group.go:264-270 loadModernGroup (soft: `continue`; external / user-defined: no branch), group.go:371-372 loadTraditionalGroup, "
     "group.go:434-435 and 452-453 loadChildren (symbol-table soft links)",
     "soft, external and user-defined links are members of the group in the reference report; the reader drops them without error"),
    ("C06-child-load-error-skipped", "group.go loadModernGroup (repaired by a539b60)",
     "a hard link whose target fails to load was skipped; the group was returned without that member and without error"),
    ("C06-group-reached-twice-is-empty", "group.go:399-403 loadChildren (File.visitedBTrees is never cleared)",
     "a group reachable through a second path (hard link to a group) is returned empty under that path"),
    ("C06-attr-byte-order-ignored", "internal/core/attribute.go ReadValue (repaired by 3d92c44)",
     "big-endian attribute values (integers and floats) were decoded as little-endian"),
    ("C06-attr-unsigned-as-signed", "internal/core/attribute.go:203,225 ReadValue (int32 / int64 whatever the sign bit says; pinned by "
     "TestAttributeReadValue_ScalarTypes / _ArrayTypes)",
     "unsigned 32/64-bit integer attributes are returned as int32/int64: values above the signed range come back negative"),
    ("C06-int64-through-float64", "internal/core/dataset_reader.go:161-176 convertToFloat64, group.go Dataset.Read() []float64",
     "Dataset.Read returns float64: 64-bit integers beyond 2^53 are returned rounded, without error"),
    ("C06-null-dataspace-as-scalar", "internal/core/dataspace.go ParseDataspaceMessage (repaired by 1739724)",
     "a version 2 dataspace of type NULL (no elements) has dimensionality 0 and was reported as a scalar with one element"),
    ("C06-shared-datatype-not-resolved", "internal/core/objectheader.go parseV1MessagesInBlock / parseV2Header (message flags dropped), "
     "internal/core/dataset_reader.go ReadDatasetInfo -> ParseDatatypeMessage",
     "a datatype message flagged shared (committed datatype) holds an object address, not a datatype; the reader parses those "
     "bytes as a datatype and reports a wrong element type (class 2, size 0)"),
    ("C06-lzf-long-backreference", "internal/core/filterpipeline.go lzfDecompress (repaired by 37cc16e)",
     "LZF long back-references store the extra length byte before the low offset byte; the reader read them in the opposite "
     "order and returned wrong values without error"),
    ("C06-filter-mask-ignored", "internal/core/dataset_reader.go readChunkedData (chunk.Key.FilterMask unused)",
     "a chunk whose filter mask excludes a filter is still run through it"),
    ("C06-optional-filter-failure-skipped", "internal/core/filterpipeline.go ApplyFilters (`if isOptional { continue }`)",
     "when an optional filter fails to decode, the still-encoded bytes are passed on as data"),
    ("C06-vax-float-as-ieee", "internal/core/datatype.go:255 GetByteOrder (bit 0 only), IsFloat64/IsFloat32 (class and size only)",
     "VAX-ordered floating point (byte-order bits 0 and 6 both set) is decoded as IEEE big-endian"),
    ("C06-compound-unsigned-as-signed", "internal/core/dataset_reader_compound.go parseMemberValue",
     "unsigned 32/64-bit compound members are returned as int32/int64"),
    ("C06-ddl-not-from-this-file", "testdata/hdf5_official/ddl (reference output out of sync with the bundled file)",
     "NOT a reader defect: the raw message bytes of the bundled file agree with the reader and contradict the DDL"),
]


COQ = {"C06-attr-byte-order-ignored": "C06_attr_byte_order_refuted / C06_attr_int_full_refuted",
       "C06-attr-unsigned-as-signed": "C06_attr_unsigned_refuted / C06_attr_int_full_after_fix_refuted"}
FIX = {"C06-attribute-info-type": "notes/fixes/c06-attribute-info-dense-errors.patch (turns the silent omission into an error; reading the "
                                  "reference library's dense attribute records stays unsupported)",
       "C06-attr-byte-order-ignored": "notes/fixes/c06-attribute-byte-order.patch",
       "C06-null-dataspace-as-scalar": "notes/fixes/c06-null-dataspace.patch",
       "C06-lzf-long-backreference": "notes/fixes/c06-lzf-long-backreference.patch",
       "C06-v2-continuation-not-followed": "notes/fixes/c06-v2-header-continuation.patch"}


def evidence(H, path):
    try:
        r = subprocess.run([H, "c06ev", path], capture_output=True, text=True, timeout=120)
        d = json.loads(r.stdout)
    except Exception:
        return {}
    return {c06.norm_path(o["path"]): o for o in d.get("objects") or []}


def parent(p):
    return p.rsplit("/", 1)[0] or "/"


def explain(d, ev, go):
    """d: discrepancy; ev: path -> evidence; go: path -> object dump.  Returns root cause id or None."""
    kind = d["kind"]
    path = d["path"]
    obj, _, attr = path.partition("@")
    e = ev.get(obj) or {}
    types = [m[0] for m in e.get("msgs") or []]
    if kind.startswith("missing-member"):
        pe = ev.get(parent(path)) or {}
        ptypes = [m[0] for m in pe.get("msgs") or []]
        if kind.split(":")[1] in ("softlink", "extlink", "udlink"):
            if pe.get("hdrversion") == 2 and 0x10 in ptypes and 6 not in ptypes and 0x11 not in ptypes:
                return "C06-v2-continuation-not-followed"
            if pe.get("denselinks") and 6 not in ptypes:
                return "C06-dense-links-not-read"
            return "C06-links-skipped"
        if pe.get("denselinks") and 6 not in ptypes and 0x11 not in ptypes:
            return "C06-dense-links-not-read"
        if pe.get("hdrversion") == 2 and 0x10 in ptypes:
            return "C06-v2-continuation-not-followed"
        # second path to a group
        pg = go.get(parent(path))
        if pg is not None and pg.get("addr"):
            same = [p for p, o in go.items() if o.get("kind") == "group" and o.get("addr") == pg["addr"] and p != parent(path)]
            if same and not (pg.get("children") or []):
                return "C06-group-reached-twice-is-empty"
        if 6 in ptypes:
            return "C06-child-load-error-skipped"
        return None
    if kind.startswith("dropped-link"):
        what = kind.split(":")[1]
        pg = go.get(parent(path))
        if what in ("softlink", "extlink"):
            return "C06-links-skipped"
        if pg is not None and pg.get("addr"):
            same = [p for p, o in go.items() if o.get("kind") == "group" and o.get("addr") == pg["addr"] and p != parent(path)]
            if same and not (pg.get("children") or []):
                return "C06-group-reached-twice-is-empty"
        if "child loader" in d["got"]:
            return "C06-child-load-error-skipped"
        return None
    if kind == "kind":
        return None
    if kind == "missing-attribute":
        if e.get("denseattrs"):
            return "C06-attribute-info-type"
        if e.get("hdrversion") == 2 and 0x10 in types:
            return "C06-v2-continuation-not-followed"
        if e.get("attrerrs"):
            return "C06-attribute-parse-error-swallowed"
        return None
    if kind == "shape":
        if "null" in d["expected"] and "scalar" in d["got"]:
            return "C06-null-dataspace-as-scalar"
        return None
    if kind == "type":
        for m in e.get("msgs") or []:
            if m[0] == 3 and m[1] & 2:
                return "C06-shared-datatype-not-resolved"
        return None
    if kind == "maxdims":
        return "C06-ddl-not-from-this-file" if d.get("verified_raw") else None
    if kind in ("value", "value-vs-raw", "count"):
        g = go.get(obj) or {}
        if attr:
            a = None
            for x in g.get("attrs") or []:
                if bytes.fromhex(x["name"]).decode("utf-8", "surrogateescape") == attr:
                    a = x
            if a is None:
                return None
            gv = c06.parse_go_value(a.get("value") or "")
            raw = bytes.fromhex(a.get("data") or "")
            sz = a["size"]
            n = min(len(gv[1]), len(raw) // sz) if sz and isinstance(gv[1], list) else 0
            if a["class"] in (0, 1) and a["bits"] & 1 and n:
                # verified: every returned element is the little-endian reading of the stored (big-endian) bytes
                ok = True
                for i in range(n):
                    b = raw[i * sz:(i + 1) * sz]
                    if a["class"] == 0:
                        ok = ok and gv[0] == "int" and gv[1][i] == c06.dec_int_py("LE", True, sz, b)
                    else:
                        w = struct.unpack("<f" if sz == 4 else "<d", b)[0]
                        ok = ok and (gv[1][i] == w or (math.isnan(w) and math.isnan(gv[1][i])))
                if ok:
                    return "C06-attr-byte-order-ignored"
            if a["class"] == 0 and not a["bits"] & 8 and sz in (4, 8) and n:
                if all(gv[1][i] == c06.dec_int_py("BE" if a["bits"] & 1 else "LE", True, sz, raw[i * sz:(i + 1) * sz]) for i in range(n)):
                    return "C06-attr-unsigned-as-signed"
            return None
        if 32000 in (e.get("filters") or []):
            return "C06-lzf-long-backreference"
        if e.get("chunkfail"):
            return "C06-optional-filter-failure-skipped"
        if g.get("class") == 1 and g.get("bits", 0) & 0x40:
            return "C06-vax-float-as-ieee"
        if g.get("class") == 0 and g.get("size") == 8 and g.get("raw") and g.get("read"):
            raw = bytes.fromhex(g["raw"])
            vals = [struct.unpack(">d", bytes.fromhex(x))[0] for x in g["read"]]
            n = min(len(vals), len(raw) // 8)
            order, signed = ("BE" if g["bits"] & 1 else "LE"), bool(g["bits"] & 8)
            # verified: every returned element is float64(stored integer)
            if all(vals[i] == float(c06.dec_int_py(order, signed, 8, raw[8 * i:8 * i + 8])) for i in range(n)):
                return "C06-int64-through-float64"
        if g.get("class") == 6:
            return "C06-compound-unsigned-as-signed"
        return None
    return None


def main():
    ap = argparse.ArgumentParser()
    ap.add_argument("--tier", default="thorough")
    ap.add_argument("--write", action="store_true")
    ap.add_argument("--harness")
    a = ap.parse_args()
    H = a.harness or vlib.build_harness()
    C, summ, dstats, hangs, panics, wall, outs = c06.collect(H, a.tier, random.Random(1))
    by_file = collections.defaultdict(list)
    for d in C.disc:
        by_file[d["file"]].append(d)
    rc_entries = collections.defaultdict(list)
    unexplained = []
    for f, ds in sorted(by_file.items()):
        full = os.path.join(vlib.REPO, "testdata", f)
        ev = evidence(H, full)
        go = {c06.norm_path(o["path"]): o for o in outs[full]["dump"]["objects"]}
        for d in ds:
            rc = explain(d, ev, go)
            if rc is None:
                unexplained.append(d)
            else:
                rc_entries[rc].append([d["file"], d["path"], d["kind"]])
    print("corpus:", summ)
    print("discrepancies:", len(C.disc), "explained:", sum(len(v) for v in rc_entries.values()), "unexplained:", len(unexplained))
    for rc, site, what in ROOT_CAUSES:
        if rc_entries.get(rc):
            print("%4d  %s  [%s]" % (len(rc_entries[rc]), rc, site))
    for d in unexplained:
        print("UNEXPLAINED", d["file"], d["path"], d["kind"], "| expected", d["expected"][:80], "| got", d["got"][:100], "|", d["ddl"])
    if a.write:
        head = subprocess.run(["git", "-C", vlib.REPO, "rev-parse", "--short", "HEAD"], capture_output=True, text=True).stdout.strip()
        out = {"comment": "C06 known findings: (file, object path[@attribute], kind of discrepancy) triples grouped by root cause. Generated by "
                          "tools/c06_triage.py --write from a thorough run, then reviewed; never written at run time.",
               "generated_for_repo_commit": head,
               "root_causes": [dict(id=rc, property="C06", status="open", site=site, what=what, entries=sorted(rc_entries[rc]))
                               for rc, site, what in ROOT_CAUSES if rc_entries.get(rc)]}
        os.makedirs(os.path.dirname(c06.KNOWN_PATH), exist_ok=True)
        with open(c06.KNOWN_PATH, "w") as fh:
            json.dump(out, fh, indent=1)
        print("wrote", c06.KNOWN_PATH)
        # the same root causes in the layout of /verif/KNOWN_FINDINGS.json "findings" (for the coordinator to copy)
        first = {}
        for d in C.disc:
            first.setdefault((d["file"], d["path"], d["kind"]), d)
        prop = []
        for rc, site, what in ROOT_CAUSES:
            es = sorted(rc_entries.get(rc) or [])
            if not es:
                continue
            w = first[tuple(es[0])]
            prop.append(dict(property="C06", id=rc, status="open", **{"class": "%d (file, object, kind) triples listed in corpus/C06/known.json; call site %s" % (len(es), site)},
                             what=what, witness=dict(file="testdata/" + w["file"], object=w["path"], kind=w["kind"], reference=w["expected"], reader=w["got"], ddl=w["ddl"]),
                             coq=COQ.get(rc), fix=FIX.get(rc), entries=len(es)))
        with open(os.path.join(os.path.dirname(c06.KNOWN_PATH), "known_findings_proposed.json"), "w") as fh:
            json.dump(dict(findings=prop), fh, indent=1)
    vlib.cleanup()


if __name__ == "__main__":
    main()
