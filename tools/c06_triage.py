#!/usr/bin/env python3
"""Assign a root cause to every C06 discrepancy and (re)generate corpus/C06/known.json.

    python3 tools/c06_triage.py [--tier thorough|quick] [--write]

Runs the same comparison as tools/props/c06.py, then explains each (file, object, kind) discrepancy from facts
about the object's header obtained with `verifharness c06ev` (message types the reader's header parser yields,
attribute-message parse errors, dense-storage addresses, filter ids, chunk filter masks) and from the values
themselves (e.g. "the reader's value is exactly the little-endian reading of big-endian bytes").  A discrepancy
no rule explains is printed as UNEXPLAINED and is not written to known.json (so the check reports it).
The check never calls this tool; known.json is a committed file.
"""
import argparse, collections, json, math, os, random, struct, subprocess, sys

HERE = os.path.dirname(os.path.abspath(__file__))
sys.path.insert(0, HERE)
sys.path.insert(0, os.path.join(HERE, "props"))
import vlib
import c06

ROOT_CAUSES = [
    ("C06-dense-links-not-read", "group.go:199-290 loadModernGroup",
     "a group whose links are in dense storage (Link Info message 0x02 with a fractal heap, no Link messages) is returned with no "
     "children and no error: the Link Info message is never read"),
    ("C06-v2-continuation-not-followed", "internal/core/objectheader.go:184-300 parseV2Header",
     "version 2 object headers: the continuation message (0x10) is stored like any other message and never followed, so every "
     "message in a continuation chunk (attributes, links, dataspace ...) is silently missing"),
    ("C06-attribute-info-type", "internal/core/objectheader.go:59 MsgAttributeInfo = 15; internal/core/attribute.go:413",
     "dense attribute storage is announced by the Attribute Info message, type 0x15; the reader looks for type 0x0F, never finds "
     "it and returns an object with many attributes as having none"),
    ("C06-attribute-parse-error-swallowed", "internal/core/attribute.go:430-434 (continue) and internal/core/objectheader.go:127-137",
     "an attribute message that fails to parse (shared/committed datatype, dataspace version 0 ...) is dropped from the list; "
     "Attributes() reports no error"),
    ("C06-links-skipped", "group.go:236-241, 325-329, 420-424 (soft links), link types other than hard: no representation",
     "soft, external and user-defined links are members of the group in the reference report; the reader drops them without error"),
    ("C06-child-load-error-skipped", "group.go:228-233 loadModernGroup (continue)",
     "a hard link whose target fails to load is skipped; the group is returned without that member and without error"),
    ("C06-group-reached-twice-is-empty", "group.go:393-399 loadChildren (File.visitedBTrees never cleared)",
     "a group reachable through a second path (hard link to a group) is returned empty under that path"),
    ("C06-attr-byte-order-ignored", "internal/core/attribute.go:196-275 ReadValue (binary.LittleEndian hard-coded)",
     "big-endian attribute values (integers and floats) are decoded as little-endian"),
    ("C06-attr-unsigned-as-signed", "internal/core/attribute.go:196-227 ReadValue (int32/int64 only)",
     "unsigned 32/64-bit integer attributes are returned as int32/int64: values above the signed range come back negative"),
    ("C06-int64-through-float64", "internal/core/dataset_reader.go:160-176 convertToFloat64 / group.go Read() []float64",
     "Dataset.Read returns float64: 64-bit integers beyond 2^53 are returned rounded, without error"),
    ("C06-null-dataspace-as-scalar", "internal/core/dataspace.go:53-58 ParseDataspaceMessage",
     "a version 2 dataspace of type NULL (no elements) has dimensionality 0 and is reported as a scalar with one element"),
    ("C06-shared-datatype-not-resolved", "internal/core/objectheader.go (message flags dropped), dataset_reader.go ParseDatatypeMessage",
     "a datatype message flagged shared (committed datatype) holds an object address, not a datatype; the reader parses those "
     "bytes as a datatype and reports a wrong element type"),
    ("C06-lzf-long-backreference", "internal/core/filterpipeline.go:456-472 lzfDecompress",
     "LZF long back-references store the extra length byte before the low offset byte; the reader reads them in the opposite "
     "order and returns wrong values without error"),
    ("C06-filter-mask-ignored", "internal/core/dataset_reader.go:300-312 readChunkedData (chunk.Key.FilterMask unused)",
     "a chunk whose filter mask excludes a filter is still run through it"),
    ("C06-optional-filter-failure-skipped", "internal/core/filterpipeline.go:189-196 ApplyFilters",
     "when an optional filter fails to decode, the still-encoded bytes are passed on as data"),
    ("C06-vax-float-as-ieee", "internal/core/datatype.go:247-255 GetByteOrder / IsFloat64",
     "VAX-ordered floating point (byte-order bits 0 and 6 both set) is decoded as IEEE big-endian"),
    ("C06-compound-unsigned-as-signed", "internal/core/dataset_reader_compound.go:171-185 parseMemberValue",
     "unsigned 32/64-bit compound members are returned as int32/int64"),
    ("C06-float-layout-ignored", "internal/core/datatype.go IsFloat32/IsFloat64 (class and size only)",
     "a floating-point type is identified by class and size only; non-IEEE field layouts of the same size are decoded as IEEE"),
    ("C06-int-precision-ignored", "internal/core/dataset_reader.go convertToFloat64",
     "integers whose precision is smaller than the storage size (bit offset / padding) are decoded over all bits"),
    ("C06-ddl-not-from-this-file", "testdata/hdf5_official/ddl (reference output out of sync with the bundled file)",
     "NOT a reader defect: the raw message bytes of the bundled file agree with the reader and contradict the DDL"),
]


def evidence(H, path):
    try:
        r = subprocess.run([H, "c06ev", path], capture_output=True, text=True, timeout=120)
        d = json.loads(r.stdout)
    except Exception:
        return {}
    return {c06.norm_path(o["path"]): o for o in d.get("objects") or []}


def parent(p):
    return p.rsplit("/", 1)[0] or "/"


def explain(d, ev, go):
    """d: discrepancy; ev: path -> evidence; go: path -> object dump.  Returns root cause id or None."""
    kind = d["kind"]
    path = d["path"]
    obj, _, attr = path.partition("@")
    e = ev.get(obj) or {}
    types = [m[0] for m in e.get("msgs") or []]
    if kind.startswith("missing-member"):
        pe = ev.get(parent(path)) or {}
        ptypes = [m[0] for m in pe.get("msgs") or []]
        if kind.split(":")[1] in ("softlink", "extlink", "udlink"):
            if pe.get("hdrversion") == 2 and 0x10 in ptypes and 6 not in ptypes and 0x11 not in ptypes:
                return "C06-v2-continuation-not-followed"
            if pe.get("denselinks") and 6 not in ptypes:
                return "C06-dense-links-not-read"
            return "C06-links-skipped"
        if pe.get("denselinks") and 6 not in ptypes and 0x11 not in ptypes:
            return "C06-dense-links-not-read"
        if pe.get("hdrversion") == 2 and 0x10 in ptypes:
            return "C06-v2-continuation-not-followed"
        # second path to a group
        pg = go.get(parent(path))
        if pg is not None and pg.get("addr"):
            same = [p for p, o in go.items() if o.get("kind") == "group" and o.get("addr") == pg["addr"] and p != parent(path)]
            if same and not (pg.get("children") or []):
                return "C06-group-reached-twice-is-empty"
        if 6 in ptypes:
            return "C06-child-load-error-skipped"
        return None
    if kind == "kind":
        return None
    if kind == "missing-attribute":
        if e.get("denseattrs"):
            return "C06-attribute-info-type"
        if e.get("hdrversion") == 2 and 0x10 in types:
            return "C06-v2-continuation-not-followed"
        if e.get("attrerrs"):
            return "C06-attribute-parse-error-swallowed"
        return None
    if kind == "shape":
        if "null" in d["expected"] and "scalar" in d["got"]:
            return "C06-null-dataspace-as-scalar"
        return None
    if kind == "type":
        for m in e.get("msgs") or []:
            if m[0] == 3 and m[1] & 2:
                return "C06-shared-datatype-not-resolved"
        return None
    if kind == "maxdims":
        return "C06-ddl-not-from-this-file" if d.get("verified_raw") else None
    if kind in ("value", "value-vs-raw", "count"):
        g = go.get(obj) or {}
        if attr:
            a = None
            for x in g.get("attrs") or []:
                if bytes.fromhex(x["name"]).decode("utf-8", "surrogateescape") == attr:
                    a = x
            if a is None:
                return None
            gv = c06.parse_go_value(a.get("value") or "")
            raw = bytes.fromhex(a.get("data") or "")
            sz = a["size"]
            n = min(len(gv[1]), len(raw) // sz) if sz and isinstance(gv[1], list) else 0
            if a["class"] in (0, 1) and a["bits"] & 1 and n:
                # verified: every returned element is the little-endian reading of the stored (big-endian) bytes
                ok = True
                for i in range(n):
                    b = raw[i * sz:(i + 1) * sz]
                    if a["class"] == 0:
                        ok = ok and gv[0] == "int" and gv[1][i] == c06.dec_int_py("LE", True, sz, b)
                    else:
                        w = struct.unpack("<f" if sz == 4 else "<d", b)[0]
                        ok = ok and (gv[1][i] == w or (math.isnan(w) and math.isnan(gv[1][i])))
                if ok:
                    return "C06-attr-byte-order-ignored"
            if a["class"] == 0 and not a["bits"] & 8 and sz in (4, 8) and n:
                if all(gv[1][i] == c06.dec_int_py("BE" if a["bits"] & 1 else "LE", True, sz, raw[i * sz:(i + 1) * sz]) for i in range(n)):
                    return "C06-attr-unsigned-as-signed"
            return None
        if 32000 in (e.get("filters") or []):
            return "C06-lzf-long-backreference"
        if e.get("chunkfail"):
            return "C06-optional-filter-failure-skipped"
        if g.get("class") == 1 and g.get("bits", 0) & 0x40:
            return "C06-vax-float-as-ieee"
        if g.get("class") == 0 and g.get("size") == 8 and g.get("raw") and g.get("read"):
            raw = bytes.fromhex(g["raw"])
            vals = [struct.unpack(">d", bytes.fromhex(x))[0] for x in g["read"]]
            n = min(len(vals), len(raw) // 8)
            order, signed = ("BE" if g["bits"] & 1 else "LE"), bool(g["bits"] & 8)
            # verified: every returned element is float64(stored integer)
            if all(vals[i] == float(c06.dec_int_py(order, signed, 8, raw[8 * i:8 * i + 8])) for i in range(n)):
                return "C06-int64-through-float64"
        if g.get("class") == 6:
            return "C06-compound-unsigned-as-signed"
        return None
    return None


def main():
    ap = argparse.ArgumentParser()
    ap.add_argument("--tier", default="thorough")
    ap.add_argument("--write", action="store_true")
    ap.add_argument("--harness")
    a = ap.parse_args()
    H = a.harness or vlib.build_harness()
    C, summ, dstats, hangs, panics, wall, outs = c06.collect(H, a.tier, random.Random(1))
    by_file = collections.defaultdict(list)
    for d in C.disc:
        by_file[d["file"]].append(d)
    rc_entries = collections.defaultdict(list)
    unexplained = []
    for f, ds in sorted(by_file.items()):
        full = os.path.join(vlib.REPO, "testdata", f)
        ev = evidence(H, full)
        go = {c06.norm_path(o["path"]): o for o in outs[full]["dump"]["objects"]}
        for d in ds:
            rc = explain(d, ev, go)
            if rc is None:
                unexplained.append(d)
            else:
                rc_entries[rc].append([d["file"], d["path"], d["kind"]])
    print("corpus:", summ)
    print("discrepancies:", len(C.disc), "explained:", sum(len(v) for v in rc_entries.values()), "unexplained:", len(unexplained))
    for rc, site, what in ROOT_CAUSES:
        if rc_entries.get(rc):
            print("%4d  %s  [%s]" % (len(rc_entries[rc]), rc, site))
    for d in unexplained:
        print("UNEXPLAINED", d["file"], d["path"], d["kind"], "| expected", d["expected"][:80], "| got", d["got"][:100], "|", d["ddl"])
    if a.write:
        out = {"comment": "C06 known findings: (file, object path[@attribute], kind of discrepancy) triples grouped by root cause. Generated by "
                          "tools/c06_triage.py --write from a thorough run on the pinned tree, then reviewed; never written at run time.",
               "root_causes": [dict(id=rc, property="C06", status="open", site=site, what=what, entries=sorted(rc_entries[rc]))
                               for rc, site, what in ROOT_CAUSES if rc_entries.get(rc)]}
        os.makedirs(os.path.dirname(c06.KNOWN_PATH), exist_ok=True)
        with open(c06.KNOWN_PATH, "w") as fh:
            json.dump(out, fh, indent=1)
        print("wrote", c06.KNOWN_PATH)
    vlib.cleanup()


if __name__ == "__main__":
    main()
