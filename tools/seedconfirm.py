#!/usr/bin/env python3
"""tools/seedconfirm.py <mutation dir> <ID> [checks...]: confirm a seeded change in a scratch worktree of /repo HEAD
(builds, unedited suite passes with it, demo fails with it and passes without it), run the given checks against it,
store it as /verif/seeded/<ID>/ and print a verdict."""
import json, os, shutil, subprocess, sys, tempfile
V = os.path.dirname(os.path.dirname(os.path.abspath(__file__)))
ENV = dict(os.environ, GOFLAGS="-mod=mod", GOPROXY="off")
def sh(cmd, cwd, timeout=1800):
    p = subprocess.run(cmd, cwd=cwd, env=ENV, shell=True, capture_output=True, text=True, errors="replace", timeout=timeout)
    return p.returncode, (p.stdout + p.stderr)
def main():
    src, sid = os.path.abspath(sys.argv[1]), sys.argv[2]
    checks = sys.argv[3:]
    wt = tempfile.mkdtemp(prefix="seedwt-", dir="/tmp"); os.rmdir(wt)
    subprocess.check_call(["git", "-C", "/repo", "worktree", "add", "-q", "--detach", wt, "HEAD"])
    ran = []
    try:
        demo = None
        meta0 = json.load(open(os.path.join(src, "meta.json"))) if os.path.exists(os.path.join(src, "meta.json")) else {}
        for cand in ("demo_test.go", "demo/main.go"):
            if os.path.exists(os.path.join(src, cand)): demo = cand
        rc, out = sh("git apply %s/patch.diff" % src, wt); ran.append(("git apply patch.diff", rc))
        assert rc == 0, out
        rc, out = sh("go build ./...", wt); ran.append(("go build ./... (with change)", rc)); assert rc == 0, out
        rc, out = sh("python3 %s/tools/baseline.py %s" % (V, wt), wt); ran.append(("unedited suite with change: " + out.strip().splitlines()[0], rc))
        suite_ok = rc == 0
        def run_demo():
            if demo == "demo_test.go":
                import re as _re
                dtxt = open(os.path.join(src, demo)).read()
                pkgdir = meta0.get("demo_pkg")
                if not pkgdir:      # find the directory whose package name matches the demo's package clause
                    pk = _re.search(r"^package (\w+)", dtxt, _re.M).group(1)
                    pkgdir = "."
                    if pk not in ("hdf5", "hdf5_test"):
                        for root, _, files in os.walk(wt):
                            if any(f.endswith(".go") and not f.endswith("_test.go") and _re.search(r"^package %s\b" % pk.replace("_test", ""), open(os.path.join(root, f)).read(), _re.M) for f in files):
                                pkgdir = os.path.relpath(root, wt); break
                shutil.copy(os.path.join(src, demo), os.path.join(wt, pkgdir, "zz_demo_test.go"))
                m = _re.search(r"go:build (\w+)", dtxt)
                tags = ("-tags %s " % m.group(1)) if m else ""
                race = "-race " if meta0.get("demo_race") else ""
                names = _re.findall(r"^func (Test\w+)\(", dtxt, _re.M)
                r = sh("go test -vet=off -count=1 %s%s-run '^(%s)$' ./%s" % (race, tags, "|".join(names) or "Demo", pkgdir), wt)
                os.remove(os.path.join(wt, pkgdir, "zz_demo_test.go")); return r
            else:
                os.makedirs(os.path.join(wt, "cmd", "zzdemo"), exist_ok=True)
                shutil.copy(os.path.join(src, demo), os.path.join(wt, "cmd", "zzdemo", "main.go"))
                r = sh("go run ./cmd/zzdemo", wt)
                shutil.rmtree(os.path.join(wt, "cmd", "zzdemo")); return r
        rc1, out1 = run_demo(); ran.append(("demo with change (expect failure)", rc1))
        results = {}
        for pid in checks:
            p = subprocess.run([sys.executable, os.path.join(V, "tools", "check.py"), pid], cwd=V, env=dict(os.environ, VERIF_REPO=wt), capture_output=True, text=True)
            line = next((l for l in p.stdout.splitlines() if l.startswith("VIOLATION")), "")
            detail = next((l.strip() for l in p.stdout.splitlines() if l.startswith("  ")), "")
            results[pid] = dict(caught=(p.returncode == 1 and bool(line)), line=line, detail=detail[:300])
        sh("git checkout -q .", wt)
        rc2, out2 = run_demo(); ran.append(("demo without change (expect pass)", rc2))
        ok = suite_ok and rc1 != 0 and rc2 == 0
        dst = os.path.join(V, "seeded", sid); os.makedirs(dst, exist_ok=True)
        shutil.copy(os.path.join(src, "patch.diff"), dst)
        if demo: shutil.copy(os.path.join(src, demo), os.path.join(dst, os.path.basename(demo) if demo == "demo_test.go" else "demo_main.go"))
        meta = json.load(open(os.path.join(src, "meta.json"))) if os.path.exists(os.path.join(src, "meta.json")) else {}
        meta.update(confirmed=ok, confirmed_by="tools/seedconfirm.py in a scratch worktree of /repo HEAD " + subprocess.check_output(["git", "-C", "/repo", "rev-parse", "--short", "HEAD"], text=True).strip(),
                    confirmation_runs=ran, checks=results)
        json.dump(meta, open(os.path.join(dst, "meta.json"), "w"), indent=1)
        print(sid, "confirmed" if ok else "NOT CONFIRMED", {k: v["caught"] for k, v in results.items()})
        if not ok: print(out1[-800:], out2[-800:])
    finally:
        subprocess.call(["git", "-C", "/repo", "worktree", "remove", "--force", wt]); shutil.rmtree(wt, ignore_errors=True)
if __name__ == "__main__":
    main()
