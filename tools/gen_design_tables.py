#!/usr/bin/env python3
"""Regenerates the generated sections of DESIGN.md (between the BEGIN/END markers): dispositions and seeded changes."""
import json, os, glob, re, subprocess
V = os.path.dirname(os.path.dirname(os.path.abspath(__file__)))
k = json.load(open(os.path.join(V, "KNOWN_FINDINGS.json")))
out = []
out.append("### 6.1 Final disposition of defects (generated from KNOWN_FINDINGS.json by tools/gen_design_tables.py)\n")
out.append("**Repaired by `fix:` commits in /repo (%d; each followed by the unedited suite, 2818/2818):**\n" % len(k["fixed"]))
for l in k["fixed"]:
    out.append("* " + l.replace("fixed: ", ""))
out.append("\n**Open findings (%d; each re-confirmed on every run of its check and printed as KNOWN-FINDING; none is suppressed by class wider than stated):**\n" % len(k["findings"]))
out.append("| id | property | class | Coq refutation |")
out.append("|---|---|---|---|")
for e in k["findings"]:
    coq = e.get("coq", "")
    if isinstance(coq, list): coq = ", ".join(coq)
    out.append("| %s | %s | %s | %s |" % (e["id"], e["property"], str(e.get("class", e.get("tag", ""))).replace("|", "/")[:220], coq))
out.append("\n### 6.2 Seeded property-breaking changes (independent sub-agents; /verif/seeded/<id>/)\n")
out.append("Each change was produced by a sub-agent that saw only the property text and a scratch worktree, compiles, passes the unedited suite, and comes with a demonstration that fails with it and passes without it; all of that was re-confirmed by `tools/seedconfirm.py` in a fresh scratch worktree of /repo HEAD before the checks were run against it.\n")
out.append("| seeded change | breaks | what it needs to manifest | caught by (quick tier, first run) | missed at first | caught after strengthening (what was added) |")
out.append("|---|---|---|---|---|---|")
for d in sorted(glob.glob(os.path.join(V, "seeded", "*"))):
    mp = os.path.join(d, "meta.json")
    if not os.path.exists(mp): continue
    m = json.load(open(mp))
    ch = m.get("checks", {})
    caught = [c for c, r in ch.items() if r.get("caught")]
    missed = [c for c, r in ch.items() if not r.get("caught")]
    rk = "; ".join("%s (%s)" % (c, r.get("strengthened_by", "")) for c, r in m.get("recheck", {}).items() if r.get("caught"))
    out.append("| %s%s | %s | %s | %s | %s | %s |" % (os.path.basename(d), ("" if m.get("confirmed") else " (not confirmed)") + (" (obsolete on HEAD)" if m.get("obsolete_on_head") else ""), m.get("property", ""),
               str(m.get("needs", m.get("summary", ""))).replace("|", "/").replace("\n", " ")[:260], ", ".join(caught), ", ".join(missed) or "-", rk or "-"))
text = "\n".join(out) + "\n"
p = os.path.join(V, "DESIGN.md")
s = open(p).read()
B, E = "<!-- BEGIN GENERATED TABLES -->", "<!-- END GENERATED TABLES -->"
if B in s:
    s = s[:s.index(B) + len(B)] + "\n" + text + s[s.index(E):]
else:
    marker = "---------------------------------------------------------------------------------------------\n\n## 7. Per-property design"
    assert marker in s
    s = s.replace(marker, B + "\n" + text + E + "\n\n" + marker)
open(p, "w").write(s)
print("DESIGN.md tables regenerated:", len(k["fixed"]), "fixed,", len(k["findings"]), "open")
