"""Logical specification (oracle) for write-API histories and comparison with the dumps
produced by the `hist` harness subcommand.  Shared by C01, C02, C03, C04, C10, C13, C16 (C05, C19-A).

The oracle is the API-visible semantics the properties state:
  * only successful calls change the logical content (C16);
  * names are unique per group, duplicate / missing-parent creations MUST fail (C03);
  * attributes of an object form a map name -> value, last successful write wins (C02);
  * dataset content = last successfully written bytes, resized per C13;
  * everything not targeted by an operation is unchanged (C04), across sessions (C10).
Where the API may legitimately refuse a valid call (capacity limits), the oracle follows the
implementation's ok/err answer and only checks that a refused call changed nothing.
"""
import struct, math, copy

ESZ = {"int8": 1, "uint8": 1, "int16": 2, "uint16": 2, "int32": 4, "uint32": 4, "int64": 8, "uint64": 8,
       "float32": 4, "float64": 8}
SIGNED = {"int8", "int16", "int32", "int64"}
KIND = {"i8": (0, 1, 8), "i16": (0, 2, 8), "i32": (0, 4, 8), "i64": (0, 8, 8), "u8": (0, 1, 0), "u16": (0, 2, 0),
        "u32": (0, 4, 0), "u64": (0, 8, 0), "f32": (1, 4, 0), "f64": (1, 8, 0),
        "[]i32": (0, 4, 8), "[]i64": (0, 8, 8), "[]f32": (1, 4, 0), "[]f64": (1, 8, 0)}
UNLIMITED = 0xFFFFFFFFFFFFFFFF
VLEN_BASES = {"string": 1, "int32": 4, "int64": 8, "uint32": 4, "uint64": 8, "float32": 4, "float64": 8}
COMPOUND_MUST_READ = {"int32", "uint32", "int64", "uint64", "float32", "float64", "string"}   # member types with a documented typed read


def base_of(dtype):
    """numeric base of array / enum / object-reference datasets (the Go slice element type Write takes), else None"""
    if dtype and (dtype.startswith("array:") or dtype.startswith("enum:")):
        return dtype.split(":", 1)[1]
    if dtype == "objref":
        return "uint64"
    return None


def esize_of(dtype, strsize=0, adims=None, csize=0):
    """bytes per dataset element, None when unknown"""
    if dtype in ESZ:
        return ESZ[dtype]
    if dtype in ("string", "opaque"):
        return strsize or None
    if dtype and dtype.startswith("array:"):
        b = ESZ.get(dtype[6:])
        return b * prod(adims or []) if b and adims else None
    if dtype and dtype.startswith("enum:"):
        return ESZ.get(dtype[5:])
    if dtype == "objref":
        return 8
    if dtype == "regref":
        return 12
    if dtype and dtype.startswith("vlen:"):
        return 16
    if dtype == "compound":
        return csize or None
    return None


def member_size(m):
    return m.get("size", 0) if m["type"] == "string" else ESZ.get(m["type"], 0)


# ids of open findings (KNOWN_FINDINGS.json) whose class the comparison leaves out; set by histcheck.run.
#   C03-dense-group-links-not-read: the links of a group created by CreateDenseGroup are not listed by the reader -> the children
#   of such a group are not part of the expectation (the group itself, its siblings and everything else are).
KNOWN_CLASSES = set()
DENSE_LINKS = "C03-dense-group-links-not-read"
SKIPPED = {"dense_groups": 0}


def prod(xs):
    p = 1
    for x in xs:
        p *= x
    return p


def hx(s):
    return s.encode("utf-8", "surrogateescape").hex() if isinstance(s, str) else bytes(s).hex()


class Obj:
    def __init__(self, kind):
        self.kind = kind            # "group" | "dataset"
        self.attrs = {}             # name(bytes) -> dict(class,size,bits,dims,data)
        self.children = {}          # group: name -> oid
        self.dtype = None
        self.dims = None
        self.maxdims = None
        self.chunk = None
        self.filters = []
        self.strsize = 0
        self.data = None            # bytes or None (never written); variable-length: list of element bytes
        self.adims = None           # array datatypes
        self.enum = None            # enum datatypes: [(name bytes, value int)]
        self.tag = None             # opaque tag
        self.members = None         # compound: [dict(name, type, size, off)]
        self.csize = 0              # compound: record size
        self.dense = False          # group created through CreateDenseGroup

    def esize(self):
        return esize_of(self.dtype, self.strsize, self.adims, self.csize)


class Oracle:
    """must: 'ok' | 'err' | None (either) for each op, given the state BEFORE the op."""

    def __init__(self, sb):
        self.sb = sb
        self.objs = {0: Obj("group")}
        self.next = 1
        self.open = True            # a FileWriter is open
        self.session = 0            # 0 = creating session, >0 reopened
        self.handles = set()        # paths whose handles exist in this session (datasets/groups created here)

    # ---- path helpers
    def lookup(self, path):
        if path == "/":
            return 0
        if not path.startswith("/"):
            return None
        cur = 0
        for part in path.strip("/").split("/"):
            o = self.objs[cur]
            if o.kind != "group" or part.encode() not in o.children:
                return None
            cur = o.children[part.encode()]
        return cur

    def split(self, path):
        p = path.rstrip("/") if path != "/" else path
        i = p.rfind("/")
        return (p[:i] or "/"), p[i + 1:]

    def valid_path(self, path):
        return bool(path) and path.startswith("/") and path != "/" and "//" not in path and not path.endswith("/")

    # ---- expected outcome class
    def must(self, op):
        k = op["op"]
        if k in ("close", "closeds"):
            return "ok" if k == "close" else None
        if k == "reopen":
            return None
        if not self.open:
            return "err"
        if k in ("mkgroup", "mkds", "hardlink", "softlink", "extlink", "mkcompound", "mkdense", "mkgrouplinks"):
            path = op["path"]
            if not self.valid_path(path):
                return "err" if (not path or not path.startswith("/") or path == "/") else None
            parent, name = self.split(path)
            pid = self.lookup(parent)
            if pid is None or self.objs[pid].kind != "group":
                return "err"
            if name.encode() in self.objs[pid].children:
                return "err"
            if k == "hardlink":
                if self.lookup(op["target"]) is None or op["target"] == "/":
                    return "err"
            if k in ("mkdense", "mkgrouplinks"):
                for nm, tgt in (op.get("links") or {}).items():
                    if not nm or "/" in nm or self.lookup(tgt) is None:
                        return "err"
            if k == "mkcompound":
                if not op.get("members"):
                    return "err"
            if k == "mkds":
                dt = op.get("dtype", "")
                if dt.startswith("array:") and not op.get("adims"):
                    return "err"
                if dt.startswith("enum:") and (not op.get("enames") or len(op.get("enames") or []) != len(op.get("evals") or [])):
                    return "err"
                if dt in ("string", "opaque") and not op.get("strsize") and "strsize" in op:
                    return "err"
            if k in ("mkds", "mkcompound"):
                dims = op.get("dims") or []
                if not dims or any(d == 0 for d in dims):
                    return "err"
                if op.get("chunk") is not None:
                    ch = op["chunk"]
                    if len(ch) != len(dims) or any(c == 0 for c in ch):
                        return "err"
                if op.get("maxdims") is not None:
                    md = op["maxdims"]
                    if len(md) != len(dims) or any(m != UNLIMITED and m < d for m, d in zip(md, dims)):
                        return "err"
                    if op.get("chunk") is None:
                        return "err"
            return None
        if k == "rebalance":
            if not op.get("path"):
                return "ok"         # DisableRebalancing / EnableRebalancing / RebalanceAllBTrees on an open writer
            return "err" if self.lookup(op["path"]) is None else None
        if k in ("write", "resize", "setattr", "delattr", "closeds"):
            oid = self.lookup(op["path"])
            if oid is None:
                return "err"
            o = self.objs[oid]
            if k == "write":
                if o.kind != "dataset":
                    return "err"
                if op.get("vals") is not None:
                    if not (o.dtype or "").startswith("vlen:") or len(op["vals"]) != prod(o.dims):
                        return "err"
                    return None
                raw = bytes.fromhex(op["val"])
                es = o.esize()
                if (o.dtype or "").startswith("vlen:"):
                    return "err" if not op.get("raw") else None      # fixed bytes are not variable-length elements
                if es and (o.dtype != "string" or op.get("raw")) and len(raw) != prod(o.dims) * es:
                    return "err"
                return None
            if k == "resize":
                if o.kind != "dataset":
                    return "err"
                nd = op["dims"]
                if o.maxdims is None or len(nd) != len(o.dims) or any(d == 0 for d in nd):
                    return "err"
                if any(m != UNLIMITED and d > m for d, m in zip(nd, o.maxdims)):
                    return "err"
                # handles obtained with OpenDataset in a later session do not offer Resize
                return "ok" if op["path"] in self.handles else None
            if k == "setattr":
                if op["kind"] in ("nil", "bool", "[]u8"):
                    return "err"
                if op["kind"].startswith("[]") and len(bytes.fromhex(op["val"])) == 0:
                    return "err"
                if bytes.fromhex(op["name"]) == b"":
                    return None
                return None
            if k == "delattr":
                if o.kind != "dataset":
                    return "err"
                if bytes.fromhex(op["name"]) not in o.attrs:
                    return "err"
                return None
            return None
        return None

    # ---- state transition for a call the implementation reported as successful
    def apply(self, op):
        k = op["op"]
        if k == "close":
            self.open = False
            return
        if k == "reopen":
            self.open = True
            self.session += 1
            self.handles = set()
            return
        if k in ("mkgroup", "mkds", "mkcompound", "mkdense", "mkgrouplinks"):
            parent, name = self.split(op["path"])
            pid = self.lookup(parent)
            o = Obj("dataset" if k in ("mkds", "mkcompound") else "group")
            if k in ("mkdense", "mkgrouplinks"):
                o.dense = k == "mkdense" or len(op.get("links") or {}) > 8
                for nm, tgt in (op.get("links") or {}).items():
                    o.children[nm.encode()] = self.lookup(tgt)
            if k == "mkcompound":
                o.dtype, o.dims = "compound", list(op["dims"])
                o.members = [dict(m) for m in op["members"]]
                o.csize = op.get("csize") or sum(member_size(m) for m in o.members)
                o.enc = op.get("enc") or "fields"
                o.chunk = list(op["chunk"]) if op.get("chunk") is not None else None
            if k == "mkds":
                o.dtype, o.dims = op["dtype"], list(op["dims"])
                o.adims = list(op["adims"]) if op.get("adims") else None
                if op.get("enames"):
                    o.enum = list(zip([n.encode() for n in op["enames"]], op.get("evals") or []))
                if op["dtype"] == "opaque":
                    o.tag = (op["tag"] if op.get("tag") is not None else "verif").encode()
                o.maxdims = list(op["maxdims"]) if op.get("maxdims") is not None else None
                o.chunk = list(op["chunk"]) if op.get("chunk") is not None else None
                o.filters = list(op.get("filters") or [])
                o.strsize = op.get("strsize", 0)
            oid = self.next
            self.next += 1
            self.objs[oid] = o
            self.objs[pid].children[name.encode()] = oid
            self.handles.add(op["path"])
        elif k == "hardlink":
            parent, name = self.split(op["path"])
            self.objs[self.lookup(parent)].children[name.encode()] = self.lookup(op["target"])
        elif k in ("softlink", "extlink"):
            parent, name = self.split(op["path"])
            pid = self.lookup(parent)
            self.objs[pid].__dict__.setdefault("softlinks", {})[name.encode()] = (k, op.get("target"), op.get("file"))
        elif k == "write":
            o = self.objs[self.lookup(op["path"])]
            if op.get("vals") is not None:
                o.data = [bytes.fromhex(v) for v in op["vals"]]
                return
            raw = bytes.fromhex(op["val"])
            if o.dtype == "string" and not op.get("raw"):
                parts = raw.split(b"\x00")
                if parts and parts[-1] == b"":
                    parts = parts[:-1]
                raw = b"".join((p[:o.strsize]).ljust(o.strsize, b"\x00") for p in parts)
            o.data = raw
        elif k == "resize":
            o = self.objs[self.lookup(op["path"])]
            if o.data is not None:      # a never-written dataset has no content the properties talk about
                if isinstance(o.data, list):
                    o.data = None       # variable-length elements: resize semantics are checked on fixed-size kinds only
                else:
                    o.data = resize_arr(o.data, o.dims, op["dims"], o.esize() or 1)
            o.dims = list(op["dims"])
        elif k == "setattr":
            o = self.objs[self.lookup(op["path"])]
            raw = bytes.fromhex(op["val"])
            kind = op["kind"]
            if kind == "str":
                a = dict(cls=3, size=len(raw) + 1, bits=0, dims=[1], data=raw + b"\x00")
            else:
                cls, size, bits = KIND[kind]
                n = len(raw) // size if kind.startswith("[]") else 1
                a = dict(cls=cls, size=size, bits=bits, dims=[n], data=raw[:n * size])
            o.attrs[bytes.fromhex(op["name"])] = a
        elif k == "delattr":
            o = self.objs[self.lookup(op["path"])]
            o.attrs.pop(bytes.fromhex(op["name"]), None)

    # ---- expected dump (path -> expectation), every path of every object (hard links included)
    def expected(self):
        out = {}
        def walk(oid, path, seen):
            o = self.objs[oid]
            out[path] = (oid, o)
            if o.kind == "group" and o.dense and o.children and DENSE_LINKS in KNOWN_CLASSES:
                SKIPPED["dense_groups"] += 1
                return
            if o.kind == "group" and oid not in seen:
                for name, cid in o.children.items():
                    c = self.objs[cid]
                    cp = path + name.decode("utf-8", "surrogateescape")
                    walk(cid, cp + "/" if c.kind == "group" else cp, seen | {oid})
        walk(0, "/", frozenset())
        return out


def resize_arr(data, old, new, esz):
    """keep elements inside both extents, zeros elsewhere (row-major)."""
    n = prod(new)
    out = bytearray(n * esz)
    if data is None:
        return bytes(out)
    rank = len(old)
    if rank != len(new):
        return bytes(out)
    common = [min(a, b) for a, b in zip(old, new)]
    def rec(d, so, do):
        if d == rank - 1:
            out[do * esz:(do + common[d]) * esz] = data[so * esz:(so + common[d]) * esz]
            return
        sstr, dstr = prod(old[d + 1:]), prod(new[d + 1:])
        for i in range(common[d]):
            rec(d + 1, so + i * sstr, do + i * dstr)
    if all(c > 0 for c in common):
        rec(0, 0, 0)
    return bytes(out)


def widen(dtype, raw):
    """what Dataset.Read must return (float64 bit patterns as hex) or None when no typed read exists."""
    if dtype == "float64":
        return ["%016x" % struct.unpack("<Q", raw[i:i + 8])[0] for i in range(0, len(raw), 8)]
    if dtype == "float32":
        out = []
        for i in range(0, len(raw), 4):
            b = struct.unpack("<I", raw[i:i + 4])[0]
            e, f, s = (b >> 23) & 0xFF, b & 0x7FFFFF, b >> 31
            if e == 255 and f:          # NaN: float64(float32) keeps payload in the top bits and quiets it
                out.append("%016x" % ((s << 63) | (0x7FF << 52) | (f << 29) | (1 << 51)))
            else:
                out.append("%016x" % struct.unpack("<Q", struct.pack("<d", struct.unpack("<f", raw[i:i + 4])[0]))[0])
        return out
    fmt = {"int32": "<i", "uint32": "<I", "int64": "<q", "uint64": "<Q"}.get(dtype)
    if fmt:
        n = struct.calcsize(fmt)
        return ["%016x" % struct.unpack("<Q", struct.pack("<d", float(struct.unpack(fmt, raw[i:i + n])[0])))[0]
                for i in range(0, len(raw), n)]
    return None


class Finding:
    def __init__(self, tag, what, **kw):
        self.tag, self.what, self.detail = tag, what, kw
    def __repr__(self):
        return "%s: %s" % (self.tag, self.what)


def run_oracle(case, result, upto=None):
    """Replay `case` against the implementation's per-op answers; returns (oracle, findings).
    Findings are tagged: panic, must-fail-accepted, must-succeed-refused, and (from compare) tree/data/attr."""
    findings = []
    orc = Oracle(case["sb"])
    if not result["create"].get("ok"):
        findings.append(Finding("create", "CreateForWrite failed: %r" % result["create"]))
        return orc, findings, []
    snaps = []
    for i, (op, res) in enumerate(zip(case["ops"], result["results"])):
        if op["op"] == "dump":
            snaps.append((i, copy.deepcopy(orc)))
            continue
        if res.get("panic"):
            findings.append(Finding("panic", "op %d %s panicked: %s" % (i, op["op"], res["panic"].splitlines()[0]), op_index=i, op=op))
            continue
        if res.get("note"):
            findings.append(Finding("api", "op %d %s %s: %s" % (i, op["op"], op.get("path"), res["note"]), op_index=i, op=op))
        must = orc.must(op)
        ok = bool(res.get("ok"))
        if must == "err" and ok:
            findings.append(Finding("must-fail-accepted", "op %d %s %s was accepted but must be rejected" % (i, op["op"], op.get("path")), op_index=i, op=op))
            # follow the implementation where that is meaningful, so later comparison stays aligned
            try:
                if op["op"] in ("close", "reopen"):
                    orc.apply(op)
            except Exception:
                pass
            continue
        if must == "ok" and not ok:
            findings.append(Finding("must-succeed-refused", "op %d %s %s was refused (%s) but must succeed" % (i, op["op"], op.get("path"), res.get("err")), op_index=i, op=op))
            continue
        if ok:
            orc.apply(op)
        elif op["op"] == "reopen":
            orc.open = False
    return orc, findings, snaps


def compare_dump(orc, dump, what="final", skip_data=False):
    """Compare the reopened file with the oracle's logical state."""
    f = []
    if dump.get("panic"):
        return [Finding("panic", "%s: reading the file panicked: %s" % (what, dump["panic"].splitlines()[0]))]
    if dump.get("openerr"):
        return [Finding("open", "%s: file does not open: %s" % (what, dump["openerr"]))]
    exp = orc.expected()
    got = {}
    dup = []
    for o in dump["objects"]:
        if o["path"] in got:
            dup.append(o["path"])
        got[o["path"]] = o
    if dup:
        f.append(Finding("tree", "%s: paths listed twice: %s" % (what, dup[:5])))
    missing = sorted(set(exp) - set(got))
    extra = sorted(set(got) - set(exp))
    if missing:
        f.append(Finding("tree", "%s: paths missing after reopen: %s" % (what, missing[:6]), missing=missing))
    if extra:
        f.append(Finding("tree", "%s: unexpected paths after reopen: %s" % (what, extra[:6]), extra=extra))
    # hard-link identity: paths with the same oracle id must share an address, different ids must differ
    by_oid = {}
    for p, (oid, o) in exp.items():
        if p in got:
            by_oid.setdefault(oid, set()).add(got[p]["addr"])
    for oid, addrs in by_oid.items():
        if len(addrs) > 1:
            f.append(Finding("tree", "%s: hard links to one object resolve to different objects %s" % (what, sorted(addrs))))
    for p, (oid, o) in exp.items():
        g = got.get(p)
        if g is None:
            continue
        if g["kind"] != o.kind:
            f.append(Finding("tree", "%s: %s is a %s, expected %s" % (what, p, g["kind"], o.kind)))
            continue
        if o.kind == "group" and not (o.dense and o.children and DENSE_LINKS in KNOWN_CLASSES):
            names = sorted(bytes.fromhex(c) for c in (g.get("children") or []))
            if names != sorted(o.children):
                f.append(Finding("tree", "%s: group %s lists %s, expected %s" % (what, p, names[:8], sorted(o.children)[:8])))
        # attributes
        if g.get("attrerr"):
            f.append(Finding("attr", "%s: attributes of %s unreadable: %s" % (what, p, g["attrerr"])))
        else:
            ga = {}
            for a in g.get("attrs") or []:
                nm = bytes.fromhex(a["name"])
                if nm in ga:
                    f.append(Finding("attr", "%s: attribute %r appears twice on %s" % (what, nm, p)))
                ga[nm] = a
            if set(ga) != set(o.attrs):
                f.append(Finding("attr", "%s: %s has attributes %s, expected %s" % (
                    what, p, sorted(ga)[:10], sorted(o.attrs)[:10]), path=p))
            for nm, ea in o.attrs.items():
                a = ga.get(nm)
                if a is None:
                    continue
                gdims = a.get("dims") or []
                if (a["class"], a["size"], a["bits"] & 8 if a["class"] == 0 else 0, prod(gdims), bytes.fromhex(a["data"])) != \
                   (ea["cls"], ea["size"], ea["bits"], prod(ea["dims"]), ea["data"]):
                    f.append(Finding("attr", "%s: attribute %r of %s reads back as class=%d size=%d bits=%#x dims=%s data=%s, written class=%d size=%d bits=%#x dims=%s data=%s" % (
                        what, nm, p, a["class"], a["size"], a["bits"], gdims, a["data"][:64], ea["cls"], ea["size"], ea["bits"], ea["dims"], ea["data"].hex()[:64]), path=p))
        if o.kind != "dataset":
            continue
        # dataset shape / type
        if g.get("hdrerr") or g.get("infoerr"):
            f.append(Finding("data", "%s: dataset %s header unreadable: %s" % (what, p, g.get("hdrerr") or g.get("infoerr"))))
            continue
        if o.dtype in ESZ:
            ecls = 1 if o.dtype.startswith("float") else 0
            if (g["class"], g["size"]) != (ecls, ESZ[o.dtype]) or (ecls == 0 and bool(g["bits"] & 8) != (o.dtype in SIGNED)):
                f.append(Finding("data", "%s: dataset %s has type class=%d size=%d bits=%#x, written %s" % (what, p, g["class"], g["size"], g["bits"], o.dtype)))
        elif o.dtype == "string":
            if (g["class"], g["size"]) != (3, o.strsize):
                f.append(Finding("data", "%s: dataset %s has type class=%d size=%d, written string(%d)" % (what, p, g["class"], g["size"], o.strsize)))
        else:
            f += check_type(o, g, what, p)
        if list(g.get("dims") or []) != list(o.dims):
            f.append(Finding("data", "%s: dataset %s has shape %s, expected %s" % (what, p, g.get("dims"), o.dims)))
            continue
        if o.maxdims is not None and list(g.get("maxdims") or []) != list(o.maxdims):
            f.append(Finding("data", "%s: dataset %s has max dims %s, expected %s" % (what, p, g.get("maxdims"), o.maxdims)))
        if o.data is None or skip_data:
            continue            # never fully written: the properties say nothing about its content
        if isinstance(o.data, list):
            f += check_vlen(o, g, what, p)
            continue
        if g.get("rawerr"):
            f.append(Finding("data", "%s: dataset %s data unreadable: %s" % (what, p, g["rawerr"])))
        elif g.get("raw") is not None and bytes.fromhex(g["raw"]) != o.data:
            raw = bytes.fromhex(g["raw"])
            idx = next((i for i in range(min(len(raw), len(o.data))) if raw[i] != o.data[i]), min(len(raw), len(o.data)))
            f.append(Finding("data", "%s: dataset %s bytes differ from what was written (first difference at byte %d; %d vs %d bytes)" % (what, p, idx, len(raw), len(o.data)), path=p))
        f += check_other_reads(o, g, what, p)
        w = widen(o.dtype, o.data) if o.dtype in ESZ else None
        nb = base_of(o.dtype)
        if w is None and nb is not None and g.get("read") is not None and not g.get("readerr"):
            # array / enum / object reference: no typed read is documented; an error is fine, values must be the base values
            wb = widen(nb, o.data)
            if wb is None or g["read"] != wb:
                f.append(Finding("data", "%s: Read of %s (%s) returns values that are not the written base values" % (what, p, o.dtype), path=p))
        elif w is not None:
            if g.get("readerr"):
                f.append(Finding("data", "%s: Read of %s fails: %s" % (what, p, g["readerr"])))
            elif g.get("read") is not None and g["read"] != w:
                i = next((i for i in range(min(len(w), len(g["read"]))) if w[i] != g["read"][i]), -1)
                f.append(Finding("data", "%s: Read of %s returns different values (element %d: got %s expected %s)" % (
                    what, p, i, g["read"][i] if 0 <= i < len(g["read"]) else None, w[i] if 0 <= i < len(w) else None), path=p))
        else:
            if g.get("read") is not None and not g.get("readerr") and o.dtype is not None and nb is None:
                # no typed numeric read exists for this type: values instead of an error
                f.append(Finding("data", "%s: Read of %s (%s) returns values although no typed read exists for it" % (what, p, o.dtype), path=p))
        if o.dtype == "string" and o.strsize:
            exp_strs = [o.data[i:i + o.strsize].split(b"\x00")[0] for i in range(0, len(o.data), o.strsize)]
            if g.get("strerr"):
                f.append(Finding("data", "%s: ReadStrings of %s fails: %s" % (what, p, g["strerr"])))
            elif [bytes.fromhex(s) for s in (g.get("strings") or [])] != exp_strs:
                f.append(Finding("data", "%s: ReadStrings of %s returns %s, expected %s" % (what, p, (g.get("strings") or [])[:4], [e.hex() for e in exp_strs[:4]]), path=p))
    return f


_SPEC = [None]


def decode_dtmsg(hexs):
    """the datatype message of a dump, decoded by the independent specification decoder in tolerant mode -> (description, error)"""
    if _SPEC[0] is None:
        import h5spec
        _SPEC[0] = h5spec
    w = _SPEC[0].Walker(b"")
    w.lenient_nested_float = True       # conformance of property bytes is C05's subject; here: which type is it
    try:
        return w.datatype(bytes.fromhex(hexs), "datatype"), None
    except Exception as e:      # SpecError / Unsupported
        return None, str(e)


def type_of_member(m):
    """(class, size, signed) of a compound member / numeric base type name"""
    t = m["type"] if isinstance(m, dict) else m
    if t == "string":
        return (3, m["size"], False)
    return (1 if t.startswith("float") else 0, ESZ[t], t in SIGNED)


def desc_triple(t):
    return (t["cls"], t["size"], bool(t.get("signed")) if t["cls"] == 0 else False)


def type_desc_problems(o, t):
    """oracle object vs. a datatype description decoded from file bytes (tools/h5spec.py dict); list of strings.
    Shared by the history oracle (datatype message returned by the library's header reader) and by C05 (independent walk)."""
    out = []
    dt = o.dtype or ""
    if dt.startswith("array:"):
        if t["cls"] != 10 or list(t.get("adims") or []) != list(o.adims) or desc_triple(t["base"]) != type_of_member(dt[6:]):
            out.append("array type decodes as class %d dims %s base %s, created as %s%s" % (t["cls"], t.get("adims"), t.get("base") and desc_triple(t["base"]), dt, o.adims))
    elif dt.startswith("enum:"):
        bsz = ESZ[dt[5:]]
        want = [(n, (v % (1 << (8 * bsz))).to_bytes(bsz, "little")) for n, v in (o.enum or [])]
        if t["cls"] != 8 or desc_triple(t["base"]) != type_of_member(dt[5:]):
            out.append("enumeration type decodes as class %d base %s, created as %s" % (t["cls"], t.get("base") and desc_triple(t["base"]), dt))
        elif list(t.get("emembers") or []) != want and list(t.get("emembers_alt") or []) != want:
            out.append("enumeration members decode as %s, created as %s" % ([(n, v.hex()) for n, v in (t.get("emembers") or [])][:6], [(n, v.hex()) for n, v in want][:6]))
    elif dt == "opaque":
        if t["cls"] != 5 or t["size"] != o.strsize or (o.tag is not None and t.get("tag") != o.tag):
            out.append("opaque type decodes as class %d size %d tag %r, created with size %d tag %r" % (t["cls"], t["size"], t.get("tag"), o.strsize, o.tag))
    elif dt in ("objref", "regref"):
        if (t["cls"], t["size"], t["bits"] & 0xF) != ((7, 8, 0) if dt == "objref" else (7, 12, 1)):
            out.append("reference type decodes as class %d size %d type %d, created as %s" % (t["cls"], t["size"], t["bits"] & 0xF, dt))
    elif dt.startswith("vlen:"):
        b = dt[5:]
        wantb = (3, 1, False) if b == "string" else type_of_member(b)
        if t["cls"] != 9 or t.get("vlen") != ("string" if b == "string" else "sequence") or desc_triple(t["base"]) != wantb:
            out.append("variable-length type decodes as class %d %s base %s, created as %s" % (t["cls"], t.get("vlen"), t.get("base") and desc_triple(t["base"]), dt))
    elif dt == "compound":
        got = [(m["name"], m["off"]) + desc_triple(m["dt"]) for m in (t.get("members") or [])]
        want = [(m["name"].encode(), m["off"]) + type_of_member(m) for m in o.members]
        if t["cls"] != 6 or t["size"] != o.csize or got != want:
            out.append("compound type decodes as class %d size %d members %s, created with size %d members %s" % (t["cls"], t["size"], got[:6], o.csize, want[:6]))
    return out


def check_type(o, g, what, p):
    """extended dataset kinds: class/size the reader reports, the datatype message it returns (decoded independently),
    and for compound datasets the member table ReadCompound works from"""
    f = []
    es = o.esize()
    ecls = {"array": 10, "enum": 8, "opaque": 5, "objref": 7, "regref": 7, "vlen": 9, "compound": 6}.get((o.dtype or "").split(":")[0])
    if ecls is None:
        return f
    if (g["class"], g["size"]) != (ecls, es):
        f.append(Finding("data", "%s: dataset %s has type class=%d size=%d, created as %s (class %d, element size %s)" % (what, p, g["class"], g["size"], o.dtype, ecls, es)))
        return f
    if g.get("dtmsg"):
        t, err = decode_dtmsg(g["dtmsg"])
        if t is None:
            f.append(Finding("data", "%s: the datatype message of %s (%s) cannot be decoded: %s" % (what, p, o.dtype, err), path=p))
        else:
            for x in type_desc_problems(o, t):
                f.append(Finding("data", "%s: dataset %s: %s" % (what, p, x), path=p))
    if o.dtype == "compound":
        if g.get("memerr"):
            f.append(Finding("data", "%s: the member table of compound dataset %s cannot be read: %s" % (what, p, g["memerr"]), path=p))
        else:
            got = [(bytes.fromhex(m["name"]), m["off"], m["class"], m["size"], bool(m["bits"] & 8) if m["class"] == 0 else False) for m in (g.get("members") or [])]
            want = [(m["name"].encode(), m["off"]) + type_of_member(m) for m in o.members]
            if got != want:
                f.append(Finding("data", "%s: compound dataset %s is read with members %s, created with %s" % (what, p, got[:6], want[:6]), path=p))
    return f


def compound_expected(o):
    """what ReadCompound must return: per record {name: acceptable renderings}"""
    recs = []
    n = prod(o.dims)
    for i in range(n):
        rec = {}
        base = i * o.csize
        for m in o.members:
            b = o.data[base + m["off"]:base + m["off"] + member_size(m)]
            t = m["type"]
            if t == "string":
                acc = {"str:" + b.split(b"\x00")[0].hex()}
            elif t == "float32":
                acc = {"f32:" + "%08x" % struct.unpack("<I", b)[0]}
            elif t == "float64":
                acc = {"f64:" + "%016x" % struct.unpack("<Q", b)[0]}
            else:
                v = int.from_bytes(b, "little", signed=t in SIGNED)
                acc = {"%s:%d" % (k, v) for k in ("i8", "i16", "i32", "i64", "u8", "u16", "u32", "u64")}   # value-exact in any integer type
            rec[m["name"].encode().hex()] = acc
        recs.append(rec)
    return recs


def check_other_reads(o, g, what, p):
    """ReadCompound / ReadStrings on every dataset kind: the written values or an error, never different values"""
    f = []
    if o.dtype == "compound":
        if g.get("comperr") or not g.get("hascomp"):
            if all(m["type"] in COMPOUND_MUST_READ for m in o.members):
                f.append(Finding("data", "%s: ReadCompound of %s fails: %s" % (what, p, g.get("comperr")), path=p))
        elif g.get("compound") is not None:
            exp = compound_expected(o)
            canon = {m["name"].encode().hex(): {i: "%s %s" % (m["type"], (o.data[i * o.csize + m["off"]:i * o.csize + m["off"] + member_size(m)]).hex())
                                                  for i in range(len(exp))} for m in o.members}
            got = []
            for r in g["compound"]:
                got.append(dict(kv.split("=", 1) for kv in r.split(";") if kv))
            bad = None
            if len(got) != len(exp):
                bad = "%d records, expected %d" % (len(got), len(exp))
            else:
                for i, (gr, er) in enumerate(zip(got, exp)):
                    if set(gr) != set(er):
                        bad = "record %d has members %s, expected %s" % (i, sorted(bytes.fromhex(k) for k in gr), sorted(bytes.fromhex(k) for k in er))
                        break
                    k = next((k for k in er if gr[k] not in er[k]), None)
                    if k is not None:
                        bad = "record %d member %r reads as %s, written %s" % (i, bytes.fromhex(k), gr[k], canon.get(k, {}).get(i))
                        break
            if bad:
                f.append(Finding("data", "%s: ReadCompound of %s returns different values (%s)" % (what, p, bad), path=p))
    elif g.get("hascomp"):
        f.append(Finding("data", "%s: ReadCompound of %s (%s) returns records although it is not a compound dataset" % (what, p, o.dtype), path=p))
    if o.dtype not in ("string",) and o.dtype not in ESZ and not (o.dtype or "").startswith("vlen:") and o.dtype is not None:
        if "strerr" not in g and "nstrings" in g and (g.get("strings") or g.get("nstrings")):
            f.append(Finding("data", "%s: ReadStrings of %s (%s) returns strings although it is not a string dataset" % (what, p, o.dtype), path=p))
    return f


def check_vlen(o, g, what, p):
    f = []
    if g.get("rawerr"):
        f.append(Finding("data", "%s: dataset %s data unreadable: %s" % (what, p, g["rawerr"])))
    elif g.get("vlen") is not None and g["vlen"] != [e.hex() for e in o.data]:
        i = next((i for i, (a, b) in enumerate(zip(g["vlen"], o.data)) if a != b.hex()), min(len(g["vlen"]), len(o.data)))
        f.append(Finding("data", "%s: variable-length dataset %s resolves to different elements than were written (element %d: %s, written %s; %d vs %d elements)" % (
            what, p, i, (g["vlen"][i] if i < len(g["vlen"]) else None), (o.data[i].hex() if i < len(o.data) else None), len(g["vlen"]), len(o.data)), path=p))
    if g.get("read") is not None and not g.get("readerr"):
        f.append(Finding("data", "%s: Read of %s (%s) returns values although no typed read exists for it" % (what, p, o.dtype), path=p))
    if "strerr" not in g and g.get("strings") is not None and o.dtype == "vlen:string":
        if [bytes.fromhex(x) for x in g["strings"]] != o.data:
            f.append(Finding("data", "%s: ReadStrings of %s returns different strings than were written" % (what, p), path=p))
    elif "strerr" not in g and (g.get("strings") or g.get("nstrings")) and o.dtype != "vlen:string":
        f.append(Finding("data", "%s: ReadStrings of %s (%s) returns strings although it is not a string dataset" % (what, p, o.dtype), path=p))
    if g.get("hascomp"):
        f.append(Finding("data", "%s: ReadCompound of %s (%s) returns records although it is not a compound dataset" % (what, p, o.dtype), path=p))
    return f


def check_case(case, result, skip_data=False):
    """Full judgement of one history. Returns list of Finding."""
    if result.get("results") is None and "create" in result:
        result["results"] = []
    if "panic" in result and "results" not in result:
        return [Finding("panic", "harness-level panic: %s" % result["panic"])]
    orc, findings, snaps = run_oracle(case, result)
    if result.get("final_close", {}).get("panic"):
        findings.append(Finding("panic", "Close panicked: %s" % result["final_close"]["panic"].splitlines()[0]))
    dumps = {d["after"]: d["dump"] for d in (result.get("dumps") or [])}
    for i, o in snaps:
        if i in dumps:
            findings += compare_dump(o, dumps[i], "after op %d" % i, skip_data)
    findings += compare_dump(orc, result["final"], "final", skip_data)
    return findings
