"""C01, whole-file tie of the END-TO-END theorem for SUPERBLOCK VERSION 0 (coq/theories/Props/C01FileV0.v): the byte image
`image_v0 name dtype dims data` (coq/theories/Model/FileImageV0.v: superblock v0 with the root symbol table entry, version 1 root
object header at 96, the 56 bytes of the group B-tree node the symbol table node leaves at 136, symbol table node at 192, local heap
at 1480, data at 1768, version 2 dataset object header in its reserved block) against the COMPLETE file written by the library with

    fw := CreateForWrite(f, CreateTruncate, WithSuperblockVersion(0)); ds := fw.CreateDataset("/"+name, dtype, dims);
    ds.Write(data); fw.Close()

byte for byte (harness subcommand c01file with sb=0; Coq evaluates `image_v0_case_ok` by vm_compute, the file travels as hex in
1500-byte pieces).  Independent of the model, Python checks on the library's file what the theorem concludes about the image: the
data sits at 1768, the name NUL-terminated at 1512, the superblock's root entry names 96 / 136 / 1480, the file ends at the
superblock's end-of-file address, an object header follows the data.
Generated: names of 1..255 bytes without NUL and '/', every basic registry datatype, rank 1..3 (and a few up to 24), random data."""
import concurrent.futures as cf, os, struct, time
import vlib

DTYPES = ["int8", "int16", "int32", "int64", "uint8", "uint16", "uint32", "uint64", "float32", "float64"]
ESZ = {"int8": 1, "int16": 2, "int32": 4, "int64": 8, "uint8": 1, "uint16": 2, "uint32": 4, "uint64": 8, "float32": 4, "float64": 8}
CORR = ("Model.FileImageV0.image_v0 (superblock v0, version 1 root object header, visible part of the group B-tree node, symbol "
        "table node, local heap, data, dataset object header in its reserved block) vs the whole file written by "
        "CreateForWrite(WithSuperblockVersion(0))/CreateDataset/Write/Close")
HEADER = "From HV Require Import Base.Prelude Model.FileImage Model.FileImageV0.\n"
ROOT, BTREE, SNOD, HEAP, DATA_ADDR = 96, 136, 192, 1480, 1768


def rand_name(rng):
    n = rng.choice([1, 1, 2, 3, 5, 8, 13, rng.randint(1, 40), rng.choice([100, 200, 254, 255]) if rng.random() < 0.15 else 4])
    pool = rng.choice([b"abcdefghijklmnopqrstuvwxyz_0123456789", bytes(b for b in range(1, 256) if b != 47)])
    return bytes(rng.choice(pool) for _ in range(n))


def rand_dims(rng):
    r = rng.random()
    if r < 0.05:
        rank = rng.choice([4, 8, 23, 24])
        return [rng.choice([1, 1, 1, 2]) for _ in range(rank)]
    rank = rng.choice([1, 1, 2, 2, 3])
    return [rng.choice([1, 2, 3, 4, 5, 7, 8, 13, 16, 17]) for _ in range(rank)] if rank < 3 else [rng.choice([1, 2, 3, 4, 5]) for _ in range(3)]


def gen_cases(rng, n):
    cases = [dict(name=b"d", dtype="uint8", dims=[3], data=bytes([1, 2, 3])),
             dict(name=b"x" * 255, dtype="float64", dims=[1], data=struct.pack("<d", 1.5)),
             dict(name=bytes([255, 1, 128]), dtype="int64", dims=[2, 1, 2], data=bytes(range(32))),
             dict(name=b"r24", dtype="uint16", dims=[1] * 24, data=b"\x34\x12")]
    for dt in DTYPES:
        cases.append(dict(name=b"t_" + dt.encode(), dtype=dt, dims=[2, 3], data=bytes(rng.getrandbits(8) for _ in range(6 * ESZ[dt]))))
    while len(cases) < n:
        dt = rng.choice(DTYPES)
        dims = rand_dims(rng)
        tot = 1
        for d in dims:
            tot *= d
        cases.append(dict(name=rand_name(rng), dtype=dt, dims=dims, data=bytes(rng.getrandbits(8) for _ in range(tot * ESZ[dt]))))
    return cases[:max(n, 14)]


def lit(b):
    return "[" + "; ".join('"%s"%%string' % b[i:i + 1500].hex() for i in range(0, max(len(b), 1), 1500)) + "]"


def _eval_chunk(args):
    k, cases, files = args
    v = [HEADER]
    terms = []
    for c, f in zip(cases, files):
        terms.append("(%s, %d, %s, %s, %s)" % (lit(c["name"]), DTYPES.index(c["dtype"]), vlib.cNlist(c["dims"]), lit(c["data"]), lit(f)))
    v.append("Definition cs : list (list string * N * list N * list string * list string) := [\n%s].\n" % ";\n".join(terms))
    v.append("Definition bad := Eval vm_compute in mismatches image_v0_case_ok cs.\nPrint bad.\n")
    out = vlib.coq_eval("".join(v), "c01filev0_%d" % k)
    return [k + i for i in vlib.parse_nlist(out, "bad")]


def coq_bad(cases, files, chunk=10, workers=8):
    parts = [(k, cases[k:k + chunk], files[k:k + chunk]) for k in range(0, len(cases), chunk)]
    with cf.ThreadPoolExecutor(max_workers=workers) as ex:
        return sorted(i for r in ex.map(_eval_chunk, parts) for i in r)


def py_spec(c, f):
    """what the end-to-end theorem concludes, checked on the library's own file without the model"""
    probs = []
    n = len(c["data"])
    if len(f) < DATA_ADDR + n + 4:
        return ["the file has %d bytes, fewer than the data at %d needs" % (len(f), DATA_ADDR)]
    if f[8] != 0:
        probs.append("superblock version byte %d, not 0" % f[8])
    if f[DATA_ADDR:DATA_ADDR + n] != c["data"]:
        probs.append("the written data is not at address %d" % DATA_ADDR)
    if f[HEAP + 32:HEAP + 32 + len(c["name"]) + 1] != c["name"] + b"\0":
        probs.append("the link name is not at the start of the root group's heap segment (%d)" % (HEAP + 32))
    root, bt, hp = struct.unpack_from("<Q", f, 64)[0], struct.unpack_from("<Q", f, 80)[0], struct.unpack_from("<Q", f, 88)[0]
    if (root, bt, hp) != (ROOT, BTREE, HEAP):
        probs.append("root symbol table entry (header, B-tree, heap) = %r, expected %r" % ((root, bt, hp), (ROOT, BTREE, HEAP)))
    eof = struct.unpack_from("<Q", f, 40)[0]
    if eof != len(f):
        probs.append("superblock end-of-file address %d, file length %d" % (eof, len(f)))
    if f[DATA_ADDR + n:DATA_ADDR + n + 4] != b"OHDR":
        probs.append("no object header behind the data")
    if struct.unpack_from("<Q", f, SNOD + 8 + 8)[0] != DATA_ADDR + n:
        probs.append("the symbol table node's first entry does not point to the dataset's object header")
    return probs


def run_unit(ctx, n=None):
    H, rng = ctx.harness, ctx.rng
    n = n or (150 if ctx.tier == "thorough" else 40)
    builddir = os.path.join(vlib.BUILD, "scratch")
    os.makedirs(builddir, exist_ok=True)
    t0 = time.time()
    cases = gen_cases(rng, n)
    wire = [dict(sb=0, name=c["name"].hex(), dtype=c["dtype"], dims=c["dims"], data=c["data"].hex(), dir=builddir) for c in cases]
    res = vlib.run_harness(H, "c01file", wire)
    viol, kept, files, samples = [], [], [], []
    for c, w, r in zip(cases, wire, res):
        w = {k: v for k, v in w.items() if k != "dir"}
        if not r.get("ok"):
            viol.append(dict(what="c01filev0: the library refused or failed an admissible create/write/close (superblock v0): %s" % str(r)[:300],
                             failing_input=w, impl=r))
            continue
        f = bytes.fromhex(r["file"])
        probs = py_spec(c, f)
        if probs:
            viol.append(dict(what="c01filev0: " + probs[0], failing_input=w, impl=dict(file=r["file"][:6000]), problems=probs))
            continue
        kept.append((c, w))
        files.append(f)
    bad = coq_bad([c for c, _ in kept], files) if kept else []
    for i in bad:
        c, w = kept[i]
        viol.append(dict(what="c01filev0: the file written by the library (superblock v0) differs from Model.FileImageV0.image_v0", case=w,
                         impl=dict(file=files[i].hex()), nofail=True, correspondence=CORR))
    for (c, w), f in list(zip(kept, files))[:2]:
        samples.append(dict(case=dict(w, data=w["data"][:64]), file_len=len(f)))
    distinct = {(c["name"], c["dtype"], tuple(c["dims"]), c["data"]) for c, _ in kept}
    return dict(violations=viol, known=[], evaluations=len(cases), distinct=len(distinct), samples=samples,
                rule="whole superblock-v0 file compared byte for byte with image_v0; distinct = distinct (name, dtype, dims, data)",
                dtypes=sorted({c["dtype"] for c in cases}), ranks=sorted({len(c["dims"]) for c in cases}),
                name_lengths=sorted({len(c["name"]) for c in cases})[:40], wall=round(time.time() - t0, 1))
