"""C06 - reader output on reference-library files equals the reference library's report.

Quantifier: the bundled corpus (every *.h5/*.hdf5 under <repo>/testdata).  Reference report: the h5dump outputs
in testdata/hdf5_official/ddl (parsed by tools/ddl.py); a DDL section `HDF5 "name.h5" {` belongs to
testdata/hdf5_official/name.h5 and to every corpus file with the same bytes.  Files without a DDL are only
checked for "the reader terminates without panic" (counted; panics/hangs are C07's business and never gate C06).

Per object of every DDL section, three-way comparison
    DDL value  ==  Go reader's typed value (Read / ReadStrings / ReadCompound / Attribute.ReadValue)
    DDL value  ==  Coq model (Model/RefDecode.v: dec_int / dec_string) evaluated on the raw element bytes the
                   reader located  ==  Go typed value
Gate (VIOLATION unless the (file, object, kind) triple is listed in corpus/C06/known.json):
    value / shape / type / kind returned without error differs from the DDL;  a member or attribute the DDL
    shows is absent although the enclosing call reported no error;  a member the DDL does not have is returned
    from a group / attribute list the DDL shows completely.
Not gating: an error returned by the reader (counted by class), raw-byte mismatches where the typed call erred.
"""
import concurrent.futures as cf
import collections, glob, hashlib, json, math, os, re, struct, subprocess, sys, time

sys.path.insert(0, os.path.dirname(os.path.dirname(os.path.abspath(__file__))))
import vlib
import ddl as DDL

TRUSTED = ["C06: tools/ddl.py (parser of the h5dump outputs shipped with the repository) and the per-token float rule "
           "(reader value printed with the significant digits of the DDL token) are part of the comparison's trusted base",
           "C06: raw element bytes come from the library's own layout/chunk/filter code (VerifDatasetRaw, Attribute.Data)"]
ASSUMPTIONS = ["the h5dump outputs in testdata/hdf5_official/ddl are the reference library's report of the files of the same name"]

KNOWN_PATH = os.path.join(vlib.VERIF, "corpus", "C06", "known.json")
EMPTIED = "/root/.vp/EMPTIED_FILES.txt"
QUICK_LIMIT = 4096
MEM_KB = 20 * 1024 * 1024           # address-space cap per reader process (KiB)
UNNAMED = re.compile(r"^/#\d+$")      # h5dump's notation for a committed datatype that has no link


# ----------------------------------------------------------------------------- corpus

def corpus_files():
    td = os.path.join(vlib.REPO, "testdata")
    out = []
    for root, _, fs in os.walk(td):
        for f in fs:
            if f.endswith((".h5", ".hdf5")):
                out.append(os.path.join(root, f))
    return sorted(out)


def emptied_set():
    s = set()
    if os.path.exists(EMPTIED):
        for l in open(EMPTIED):
            l = l.strip()
            if l:
                s.add(os.path.basename(l) if not l.endswith(".ddl") else l)
                s.add(l)
    return s


def sha(path):
    return hashlib.sha256(open(path, "rb").read()).hexdigest()


def load_ddls():
    """basename of h5 -> list of Doc (only sections whose file exists in testdata/hdf5_official)."""
    off = os.path.join(vlib.REPO, "testdata", "hdf5_official")
    h5 = set(os.path.basename(p) for p in glob.glob(os.path.join(off, "*.h5")))
    em = emptied_set()
    by = collections.defaultdict(list)
    stats = collections.Counter()
    for p in sorted(glob.glob(os.path.join(off, "ddl", "*.ddl"))):
        rel = "testdata/hdf5_official/ddl/" + os.path.basename(p)
        if rel in em or os.path.getsize(p) == 0:
            stats["ddl_emptied_or_empty"] += 1
            continue
        stats["ddl_files"] += 1
        for d in DDL.parse_file(p):
            b = os.path.basename(d.file)
            stats["ddl_sections"] += 1
            if b not in h5:
                stats["ddl_sections_without_corpus_file"] += 1
                continue
            if getattr(d, "failed", False):
                stats["ddl_sections_unparsable"] += 1
                continue
            stats["ddl_sections_used"] += 1
            by[b].append(d)
    return by, stats


# ----------------------------------------------------------------------------- Go side

def run_go(H, files, limit, secs, workers=16):
    def one(p):
        t0 = time.time()
        try:
            # address-space cap: a file that makes the reader allocate without bound (tbigdims.h5: a 4 GiB dataset
            # read whole) must not take the machine down; the failure is recorded as resource exhaustion (C07's business)
            r = subprocess.run(["/bin/sh", "-c", 'ulimit -v %d; exec "$0" c06 "$1" %d %d' % (MEM_KB, limit, secs), H, p],
                               capture_output=True, text=True, timeout=secs + 30)
        except subprocess.TimeoutExpired:
            return p, {"hardtimeout": True}
        if r.returncode != 0:
            err = r.stderr or ""
            if "out of memory" in err or "cannot allocate" in err:
                return p, {"oom": True}
            return p, {"crash": err[-1500:], "rc": r.returncode}
        try:
            return p, json.loads(r.stdout)
        except ValueError:
            return p, {"crash": "unparsable harness output: " + r.stdout[:300]}
    with cf.ThreadPoolExecutor(workers) as ex:
        return dict(ex.map(one, files))


def norm_path(p):
    return p if p == "/" else p.rstrip("/")


_GOVAL = re.compile(r"^(\[\])?([A-Za-z0-9_ {}]+):(.*)$", re.S)


def parse_go_value(s):
    """renderValue output -> (kind, list) with kind in int|f32|f64|str|empty|other."""
    m = _GOVAL.match(s)
    if not m:
        return ("other", s)
    isl, ty, body = m.group(1), m.group(2), m.group(3)
    if ty in ("f32", "f64"):
        parts = [x for x in body.split(",") if x] if isl else [body]
        if ty == "f32":
            return ("f32", [struct.unpack(">f", bytes.fromhex(x))[0] for x in parts])
        return ("f64", [struct.unpack(">d", bytes.fromhex(x))[0] for x in parts])
    if ty == "str":
        parts = body.split(",") if isl else [body]
        return ("str", [bytes.fromhex(x) for x in parts])
    if ty in ("int8", "int16", "int32", "int64", "uint8", "uint16", "uint32", "uint64", "int", "uint"):
        if isl:
            return ("int", [int(x) for x in body.strip()[1:-1].split()])
        return ("int", [int(body)])
    if ty == "interface {}" and isl:
        return ("empty", [])
    return ("other", s)


# ----------------------------------------------------------------------------- value rules

_FTOK = re.compile(r"^([-+]?)(\d*)(?:\.(\d*))?(?:[eE]([-+]?\d+))?$")


def sig_digits(tok):
    """Number of significant digits a %g-style token shows (None for inf/nan/non-numbers)."""
    m = _FTOK.match(tok.strip())
    if not m or (m.group(2) == "" and not m.group(3)):
        return None
    return max(1, len((m.group(2) + (m.group(3) or "")).lstrip("0")))


def float_matches(tok, v, prec=None):
    """DDL float token vs reader value.  h5dump prints every float of one run with one printf format (%g unless -m
    was given), and %g drops trailing zeros; so the value printed with `prec` significant digits - the largest
    number of digits any float token of the same DDL section shows, at least the digits of this token - must be
    the token.  Tokens in fixed / exponent layout (outputs made with -m "%.7f") are matched in that layout."""
    t = tok.strip()
    tl = t.lower()
    if tl in ("nan", "-nan", "+nan"):
        return math.isnan(v)
    if tl in ("inf", "+inf", "infinity"):
        return v == math.inf
    if tl in ("-inf", "-infinity"):
        return v == -math.inf
    m = _FTOK.match(t)
    if not m or (m.group(2) == "" and not m.group(3)):
        return False
    if math.isnan(v) or math.isinf(v):
        return False
    fp, ex = m.group(3), m.group(4)
    p = max(sig_digits(t), prec or 0)
    if "%.*g" % (p, v) == t:
        return True
    if fp is not None and ex is None and "%.*f" % (len(fp), v) == t and len(fp) >= 6:
        return True
    if ex is not None and "%.*e" % (len(fp or ""), v) == t:
        return True
    return False


def section_precision(doc):
    """Largest number of significant digits over the non-integer numeric tokens of a DDL section."""
    best = 0

    def walk(v):
        nonlocal best
        if v[0] == "tok":
            t = v[1]
            if ("." in t or "e" in t.lower()) and "i" not in t and ":" not in t:
                d = sig_digits(t)
                if d and d <= 17:
                    best = max(best, d)
        elif v[0] in ("cmp", "arr", "vl"):
            for x in v[1]:
                walk(x)
    for o in doc.objects.values():
        for holder in [o] + list(o.attrs.values()):
            for b in holder.blocks:
                for v in b.values or []:
                    walk(v)
    return best


_FLOAT_SELFTEST = [
    ("0.1", 0.1, True), ("0.1", 0.1000004, True), ("0.1", 0.16, False), ("1", 1.0, True), ("1", 1.4, True), ("1", 1.6, False),
    ("0.1406", 0.140625, True), ("0.140625", 0.140625, True), ("0.1407", 0.140625, False),
    ("1e+10", 1e10, True), ("1.23457e+10", 12345678901.0, True), ("1.23457e+10", 12345578901.0, False),
    ("-0", -0.0, True), ("-0", 0.0, False), ("0", 0.0, True), ("0", -0.0, False),
    ("inf", math.inf, True), ("-inf", -math.inf, True), ("inf", 1e308, False), ("nan", math.nan, True), ("-nan", math.nan, True),
    ("nan", 1.0, False), ("120000", 120000.0, True), ("120000", 120001.0, False), ("0.0000000", 1e-9, True),
    ("-0.1234567", -0.12345673, True), ("-0.1234567", -0.1234577, False), ("3.40282e+38", 3.4028234663852886e38, True),
    ("1e-05", 1e-5, True), ("9.99e-05", 9.99e-5, True), ("256", 256.0, True), ("256", 255.0, False), ("", 0.0, False), ("abc", 0.0, False),
]


def float_selftest():
    bad = [(t, v, w) for t, v, w in _FLOAT_SELFTEST if float_matches(t, v) != w]
    # with the section's precision known (6 = plain %g) the rule is as sharp as the print-out
    bad += [(t, v, w, 6) for t, v, w in [("0.1", 0.11, False), ("0.1", 0.1000004, True), ("0.1", 0.100004, False), ("1", 1.4, False),
                                          ("0.140625", 0.140625, True), ("1.23457e+10", 12345678901.0, True), ("2", 2.0, True)]
            if float_matches(t, v, 6) != w]
    if bad:
        raise RuntimeError("float token rule self-test failed: %r" % bad)


def int_of_float(x):
    """float64 returned by Read() -> exact integer or None."""
    if math.isnan(x) or math.isinf(x) or x != math.floor(x):
        return None
    return int(x)


def dec_int_py(order, signed, size, b):
    v = int.from_bytes(b, "little" if order == "LE" else "big")
    if signed and v >= 1 << (8 * size - 1):
        v -= 1 << (8 * size)
    return v


def canon_string(pad, b):
    if pad == "nullterm":
        i = b.find(b"\0")
        return b if i < 0 else b[:i]
    if pad == "nullpad":
        return b.rstrip(b"\0")
    if pad == "spacepad":
        return b.rstrip(b" ")
    return b


def ws_norm(b):
    return b" ".join(b.split())


def string_eq(pad, ddl_v, go_b):
    """DDL string element (bytes, ('raw', bytes) or None) vs reader string.  h5dump prints the whole field
    (padding included, up to the first NUL for null-terminated strings); the reader's documented contract is the
    string without its padding, i.e. exactly dec_string pad (Model/RefDecode.v) of the field."""
    if ddl_v is None:
        return go_b == b""
    if isinstance(ddl_v, tuple):
        return ws_norm(canon_string(pad, ddl_v[1])) == ws_norm(go_b)
    return canon_string(pad, ddl_v) == go_b


PAD_CODE = {"nullterm": 0, "nullpad": 1, "spacepad": 2}
CLASS_CODE = {"integer": 0, "float": 1, "time": 2, "string": 3, "bitfield": 4, "opaque": 5, "compound": 6,
              "reference": 7, "enum": 8, "vlen": 9, "array": 10, "complex": 11}
UNLIM = (1 << 64) - 1


def type_discrepancies(ty, gclass, gsize, gbits):
    """DDL type descriptor vs the (class, size, class bit field) the reader parsed.  Returns list of texts."""
    out = []
    c = ty.get("class")
    if c in ("named", "other", None):
        return out
    if c == "string" and ty.get("size") == "var":
        if gclass != 9 or (gbits & 0x0F) != 1:
            out.append("type class: DDL variable-length string, reader class %d bits 0x%x" % (gclass, gbits))
        return out
    want = CLASS_CODE.get(c)
    if want is None:
        return out
    if gclass != want:
        out.append("type class: DDL %s (%d), reader class %d" % (c, want, gclass))
        return out
    if c in ("integer", "float", "bitfield", "string") and isinstance(ty.get("size"), int) and ty["size"] != gsize:
        out.append("type size: DDL %d, reader %d" % (ty["size"], gsize))
    if c == "integer":
        if bool(gbits & 0x08) != bool(ty["signed"]):
            out.append("signedness: DDL %s, reader sign bit %d" % ("signed" if ty["signed"] else "unsigned", (gbits >> 3) & 1))
    if c in ("integer", "float", "bitfield") and ty.get("order") in ("LE", "BE"):
        if (gbits & 1) != (1 if ty["order"] == "BE" else 0):
            out.append("byte order: DDL %s, reader order bit %d" % (ty["order"], gbits & 1))
    if c == "string" and ty.get("pad") in PAD_CODE:
        if (gbits & 0x0F) != PAD_CODE[ty["pad"]]:
            out.append("string padding: DDL %s, reader %d" % (ty["pad"], gbits & 0x0F))
    return out


def flat_count(space):
    if space is None:
        return None
    if space["kind"] == "scalar":
        return 1
    if space["kind"] == "null":
        return 0
    n = 1
    for d in space["dims"]:
        n *= d
    return n


# ----------------------------------------------------------------------------- comparison

class Cmp:
    def __init__(self, tier):
        self.tier = tier
        self.disc = []                      # discrepancies (gating unless known), one per (file, path, kind)
        self.keys = {}
        self.diag = collections.Counter()   # non-gating counters
        self.errclass = collections.Counter()
        self.stats = collections.Counter()
        self.int_cases = {}                 # (order, signed, size, hex) -> [ddl_int, go_int or None, where]
        self.str_cases = {}                 # (pad, hex) -> [ddl canonical hex, go hex or None, where]
        self.attr_cases = {}                # (order, signed, size, hex) -> [go int, where]: ReadValue vs its transcription
        self.samples = []
        self.prec = None                    # float print precision of the DDL section being compared

    def d(self, file, path, kind, expected, got, ddlsrc):
        key = (file, path, kind)
        if key in self.keys:
            self.keys[key] += 1
            return
        self.keys[key] = 1
        self.disc.append(dict(file=file, path=path, kind=kind, expected=_short(expected), got=_short(got), ddl=ddlsrc))

    def err(self, msg):
        self.errclass[classify_error(msg)] += 1


def _short(x):
    s = x if isinstance(x, str) else repr(x)
    return s if len(s) <= 300 else s[:300] + "..."


_ERRPAT = [
    (r"unsupported datatype for conversion to float64", "Read: unsupported datatype"),
    (r"unsupported datatype class \d+ or size", "ReadValue: unsupported datatype class/size"),
    (r"variable-length strings not yet supported", "variable-length strings unsupported"),
    (r"variable-length non-string", "variable-length sequences unsupported"),
    (r"datatype is not string", "ReadStrings: not a string"),
    (r"unsupported member datatype", "ReadCompound: unsupported member datatype"),
    (r"failed to parse compound type", "ReadCompound: compound type parse"),
    (r"unsupported layout", "unsupported layout"),
    (r"failed to parse layout|layout:", "layout parse"),
    (r"filter", "filter pipeline"),
    (r"B-tree", "chunk B-tree"),
    (r"failed to read contiguous data", "contiguous read failed (no storage / external)"),
    (r"dataspace", "dataspace parse"),
    (r"not found|missing", "required message missing"),
    (r"global heap", "global heap"),
]


def classify_error(msg):
    for pat, name in _ERRPAT:
        if re.search(pat, msg):
            return name
    return re.sub(r"0x[0-9a-fA-F]+|\d+", "N", msg)[:70]


def go_index(out):
    """path -> object dump, plus extra."""
    objs = {}
    dup = []
    for o in out["dump"]["objects"]:
        p = norm_path(o["path"])
        if p in objs:
            dup.append(p)
        objs.setdefault(p, o)
    named = {norm_path(n["path"]): n for n in out.get("named") or []}
    return objs, named, dup


def go_kind(o):
    k = o["kind"]
    if k in ("group", "dataset"):
        return k
    if "NamedDatatype" in k:
        return "datatype"
    return k


def make_lookup(docs):
    """named datatype path -> descriptor, over all sections of one file."""
    tab = {}
    for d in docs:
        for p, o in d.objects.items():
            if o.kind == "datatype" and o.dtype is not None:
                tab.setdefault(p, o.dtype)

    def look(ref):
        return tab.get(ref if ref.startswith("/") else "/" + ref)
    return look


def compare_file(C, fname, out, docs):
    objs, named, dup = go_index(out)
    look = make_lookup(docs)
    extra = out.get("extra") or {}
    reported_missing = set()
    for doc in docs:
        src = doc.src
        if getattr(doc, "onion", None):
            C.diag["DDL sections of onion revisions skipped"] += 1
            continue
        C.prec = section_precision(doc)
        C.stats["ddl_sections_float_precision_%d" % C.prec] += 1
        # FILE_CONTENTS listing: membership and kinds of the whole file
        if doc.contents:
            for path, kind, tgt in doc.contents:
                if kind == "attribute" or UNNAMED.match(path):
                    continue
                C.stats["contents_entries"] += 1
                check_presence(C, fname, src, objs, norm_path(path), kind, reported_missing, via="FILE_CONTENTS")
        for path, o in doc.objects.items():
            path = norm_path(path)
            if UNNAMED.match(path) or getattr(o, "ambiguous_empty", False):
                C.diag["DDL blocks not attributable (unlinked '#n' datatypes, empty -g blocks)"] += 1
                continue
            C.stats["objects_compared"] += 1
            kind = o.kind
            g = check_presence(C, fname, src, objs, path, kind, reported_missing)
            if g is None:
                continue
            if kind in ("softlink", "extlink", "udlink"):
                continue
            if getattr(o, "hardlink", False):
                # the same object under a second name: the reader must show the object it shows at the target
                tp = norm_path(o.target if str(o.target).startswith("/") else "/" + str(o.target))
                tg = objs.get(tp)
                if tg is not None and go_kind(tg) == go_kind(g) and go_kind(g) in ("dataset", "group") \
                        and g.get("addr") and tg.get("addr") and g["addr"] != tg["addr"]:
                    C.d(fname, path, "hardlink-target", "same object as %s" % tp, "object header %d vs %d" % (g["addr"], tg["addr"]), src)
                C.stats["hardlinks_compared"] += 1
                continue
            # ---- membership
            if kind == "group" and o.children is not None and go_kind(g) == "group":
                have = [bytes.fromhex(c).decode("utf-8", "surrogateescape") for c in g.get("children") or []]
                C.stats["groups_membership_checked"] += 1
                for nm in o.children:
                    if UNNAMED.match("/" + nm):
                        continue
                    C.stats["members_compared"] += 1
                    if nm not in have:
                        cp = norm_path(path.rstrip("/") + "/" + nm)
                        if cp not in reported_missing:
                            reported_missing.add(cp)
                            C.d(fname, cp, "missing-member:" + o.child_kinds.get(nm, "?"),
                                "member %r of group %s (%s)" % (nm, path, o.child_kinds.get(nm)), "absent, no error reported", src)
                for nm in have:
                    if nm not in o.children:
                        C.d(fname, norm_path(path.rstrip("/") + "/" + nm), "extra-member", "no such member in the DDL", "member %r returned" % nm, src)
                if len(set(have)) != len(have):
                    C.d(fname, path, "duplicate-member", "each member once", sorted(x for x in have if have.count(x) > 1), src)
            # ---- attributes
            if go_kind(g) in ("group", "dataset"):
                compare_attrs(C, fname, src, path, o, g, extra.get(g["path"]) or {}, look)
            elif go_kind(g) == "datatype" and o.attrs:
                C.diag["attributes of committed datatypes not reachable through the API"] += len(o.attrs)
            # ---- datatype objects
            if kind == "datatype" and go_kind(g) == "datatype" and o.dtype is not None:
                n = named.get(path)
                if n and not n.get("nil"):
                    ty = DDL.resolve_named(o.dtype, look)
                    for t in type_discrepancies(ty, n["class"], n["size"], n["bits"]):
                        C.d(fname, path, "type", t, "class=%d size=%d bits=0x%x" % (n["class"], n["size"], n["bits"]), src)
            # ---- datasets
            if kind == "dataset" and go_kind(g) == "dataset":
                compare_dataset(C, fname, src, path, o, g, extra.get(g["path"]) or {}, look)
    for p in dup:
        C.d(fname, p, "duplicate-path", "one object per path", "walk returned it more than once", docs[0].src)


def check_presence(C, fname, src, objs, path, kind, reported_missing, via=None):
    g = objs.get(path)
    if g is None:
        # topmost missing ancestor whose parent the reader did return
        a = path
        while True:
            par = a.rsplit("/", 1)[0] or "/"
            if par in objs or par == a:
                break
            a = par
        par = a.rsplit("/", 1)[0] or "/"
        k = kind if a == path else "group"
        if a not in reported_missing:
            reported_missing.add(a)
            if par in objs and go_kind(objs[par]) == "group":
                C.d(fname, a, "missing-member:" + k, "%s %s%s" % (k, a, " (%s)" % via if via else ""), "absent from group %s, no error reported" % par, src)
            else:
                C.d(fname, a, "missing-member:" + k, "%s %s" % (k, a), "parent %s is not a group in the reader's view" % par, src)
        return None
    gk = go_kind(g)
    want = {"softlink": None, "extlink": None, "udlink": None}.get(kind, kind)
    if want is None:
        # the reader has no link objects: anything returned at a link's path has a different kind
        C.d(fname, path, "kind", kind, gk, src)
        return g
    if gk != want:
        C.d(fname, path, "kind", want, gk, src)
        return None
    return g


def go_space(dims, dstype):
    """reader dataspace -> ('scalar'|'simple'|'null'|'?', dims)."""
    if dstype == 0:
        return "scalar", []
    if dstype == 2:
        return "null", None
    if dstype == 1:
        return "simple", list(dims or [])
    return "?", list(dims or [])


def compare_space(C, fname, src, where, space, gdims, gdstype, gmax=None):
    if space is None:
        return True
    kind, dims = go_space(gdims, gdstype)
    if kind == "?":
        return True
    if kind != space["kind"]:
        C.d(fname, where, "shape", "dataspace %s %s" % (space["kind"], space.get("dims")), "dataspace %s %s" % (kind, dims), src)
        return False
    if kind == "simple":
        if dims != space["dims"]:
            C.d(fname, where, "shape", space["dims"], dims, src)
            return False
        if space.get("maxdims") is not None and gmax is not None:
            want = [UNLIM if x == "unlimited" else x for x in space["maxdims"]]
            have = list(gmax) if gmax else dims
            if want != have:
                # maximum dimensions are not part of what the public read API returns (Info() prints the current
                # extent only); the harness reads them from the reader's parsed dataspace message: diagnostic only
                C.diag["maxdims differ from DDL (not returned by the public API)"] += 1
                if len(C.samples) < 40:
                    C.samples.append(dict(kind="maxdims", file=fname, where=where, ddl=want, reader=have, src=src))
    return True


def elements_of_blocks(blocks, space, ty):
    """[(flat index, interpreted value, packed)] from the DATA blocks of one object; None when not comparable."""
    out = []
    n = flat_count(space)
    bits = 8 * ty["size"] if ty.get("class") == "integer" and isinstance(ty.get("size"), int) else None
    for b in blocks:
        if b.values is None:
            continue
        if b.packed and bits and b.packed[0] + b.packed[1] > bits:
            continue        # h5dump's "offset+length exceeds the type" error cases print zeros
        vals = b.values
        if b.subset:
            if space is None or space["kind"] != "simple":
                continue
            idx = DDL.subset_indices(space["dims"], b.subset)
        else:
            idx = list(range(len(vals)))
            as_string = ty.get("class") == "integer" and ty.get("size") == 1 and vals and all(v[0] == "str" for v in vals)
            if n is not None and len(vals) != n and not as_string:
                # a DATA block that is not the whole dataset and carries no SUBSET: not attributable
                return None, "DATA has %d elements, dataspace %d" % (len(vals), n)
        if len(idx) != len(vals):
            return None, "subset selects %d elements, DATA has %d" % (len(idx), len(vals))
        if ty.get("class") == "integer" and ty.get("size") == 1 and n is not None and len(vals) != n and vals and \
                all(v[0] == "str" for v in vals) and not b.subset:
            # h5dump -r prints 1-byte integer arrays as one string
            bs = b"".join(v[1] for v in vals)
            if len(bs) in (n, n - 1) and not any(v[2] for v in vals):
                bs = bs + b"\0" * (n - len(bs))
                vals = [("tok", str(x - 256 if (ty.get("signed") and x > 127) else x)) for x in bs]
                idx = list(range(n))
        for i, v in zip(idx, vals):
            try:
                out.append((i, DDL.interpret(v, ty), b.packed))
            except DDL.DDLError as e:
                return None, "uninterpretable: %s" % e
    return out, None


def compare_attrs(C, fname, src, path, o, g, ex, look):
    if g.get("attrerr"):
        C.err(g["attrerr"])
        C.stats["attribute_lists_erred"] += 1
        return
    gat = {}
    for a in g.get("attrs") or []:
        gat.setdefault(bytes.fromhex(a["name"]).decode("utf-8", "surrogateescape"), a)
    aty = {bytes.fromhex(t["name"]).decode("utf-8", "surrogateescape"): t for t in ex.get("attrtypes") or []}
    for nm, a in o.attrs.items():
        C.stats["attributes_compared"] += 1
        where = path + "@" + nm
        ga = gat.get(nm)
        if ga is None:
            C.d(fname, where, "missing-attribute", "attribute %r" % nm, "absent, Attributes() reported no error", src)
            continue
        ty = DDL.resolve_named(a.dtype, look) if a.dtype else None
        if ty is not None:
            for t in type_discrepancies(ty, ga["class"], ga["size"], ga["bits"]):
                C.d(fname, where, "type", t, "class=%d size=%d bits=0x%x" % (ga["class"], ga["size"], ga["bits"]), src)
        t = aty.get(nm) or {}
        ok_shape = compare_space(C, fname, src, where, a.space, ga.get("dims"), t.get("dstype", -1))
        if not ok_shape or ty is None:
            continue
        els, why = elements_of_blocks(a.blocks, a.space, ty)
        if els is None:
            C.diag["attribute DATA not comparable: " + why.split(":")[0]] += 1
            continue
        if not els:
            continue
        raw = bytes.fromhex(ga.get("data") or "")
        if ga.get("valerr"):
            C.err(ga["valerr"])
            C.stats["attribute_values_erred"] += 1
            gv = None
        else:
            gv = parse_go_value(ga.get("value", ""))
        compare_values(C, fname, src, where, ty, els, raw, gv, "attr")
    if o.attrs_listed:
        for nm in gat:
            if nm not in o.attrs:
                C.d(fname, path + "@" + nm, "extra-attribute", "no such attribute in the DDL", "attribute returned", src)


_INFO = re.compile(r"^Dataset: (\S+) \(size=(\d+) bytes\), (.*?), (compact|contiguous|chunked|layout|unknown|virtual|class).*$", re.S)


def compare_dataset(C, fname, src, path, o, g, ex, look):
    C.stats["datasets_compared"] += 1
    ty = DDL.resolve_named(o.dtype, look) if o.dtype else None
    if g.get("hdrerr") or g.get("infoerr"):
        C.err(g.get("hdrerr") or g.get("infoerr"))
        return
    have_meta = bool(g.get("layout")) or bool(g.get("dims")) or g.get("size")
    if ty is not None and have_meta:
        for t in type_discrepancies(ty, g["class"], g["size"], g["bits"]):
            C.d(fname, path, "type", t, "class=%d size=%d bits=0x%x info=%r" % (g["class"], g["size"], g["bits"], g.get("info")), src)
    ok_shape = True
    if have_meta:
        ok_shape = compare_space(C, fname, src, path, o.space, g.get("dims"), ex.get("dstype", -1), g.get("maxdims") or [])
    # public Info() string must agree with the same facts
    m = _INFO.match(g.get("info") or "")
    if m and ty is not None and ty.get("class") in ("integer", "float", "string", "compound", "array"):
        want = {"integer": "integer", "float": "float", "string": "string", "compound": "compound", "array": "array"}[ty["class"]]
        if ty.get("class") == "string" and ty.get("size") == "var":
            want = None
        if want and m.group(1) != want:
            C.d(fname, path, "type", "Info(): " + want, "Info(): " + m.group(1), src)
    if not ok_shape or ty is None or not o.blocks:
        return
    els, why = elements_of_blocks(o.blocks, o.space, ty)
    if els is None:
        C.diag["dataset DATA not comparable: " + why.split(":")[0]] += 1
        return
    if not els:
        return
    raw = bytes.fromhex(g["raw"]) if g.get("raw") is not None else None
    if g.get("rawerr"):
        C.diag["raw bytes unavailable: " + classify_error(g["rawerr"])] += 1
    cls = ty.get("class")
    gv = None
    if cls in ("integer", "float", "enum", "bitfield", "opaque", "array", "reference", "complex", "vlen") or \
            (cls == "string" and ty.get("size") == "var" and False):
        if g.get("readerr"):
            C.err(g["readerr"])
            C.stats["dataset_reads_erred"] += 1
        elif "read" in g or ex.get("nread", 0) == 0:
            gv = ("f64", [struct.unpack(">d", bytes.fromhex(x))[0] for x in g.get("read") or []])
            gv = (gv[0], gv[1], ex.get("nread", len(gv[1])))
    if cls == "string":
        if g.get("strerr"):
            C.err(g["strerr"])
            C.stats["dataset_reads_erred"] += 1
        elif g.get("class") in (3, 9):
            gv = ("str", [bytes.fromhex(x) for x in g.get("strings") or []], g.get("nstrings", 0))
        if g.get("readerr") is None and g.get("read"):
            C.d(fname, path, "value", "string dataset", "Read() returned %d numbers without error" % len(g["read"]), src)
    if cls == "compound":
        cp = ex.get("compound")
        if cp is None:
            C.diag["compound dataset but reader did not classify it compound"] += 1
        elif cp.get("err") or cp.get("panic"):
            C.err(cp.get("err") or "panic: " + cp.get("panic"))
            C.stats["dataset_reads_erred"] += 1
        else:
            gv = ("cmp", cp.get("elems") or [], cp.get("n", 0))
    compare_values(C, fname, src, path, ty, els, raw, gv, "dset", total=flat_count(o.space))


def twos(v, size):
    return v & ((1 << (8 * size)) - 1)


def pack_bits(v, size, packed):
    """h5dump -M offset,length: (v >> offset) & mask; a field covering the whole type is printed unchanged."""
    off, ln = packed
    if off == 0 and ln >= 8 * size:
        return v
    return (twos(v, size) >> off) & ((1 << ln) - 1)


def compare_values(C, fname, src, where, ty, els, raw, gv, what, total=None):
    """els: [(flat index, DDL value, packed)];  raw: element bytes (possibly truncated) or None;
    gv: reader's typed values: ('int'|'f32'|'f64'|'str'|'cmp'|'empty', list[, total count]) or None."""
    cls = ty.get("class")
    size = ty.get("size") if isinstance(ty.get("size"), int) else None
    glist = gv[1] if gv else None
    gkind = gv[0] if gv else None
    gtotal = gv[2] if gv and len(gv) > 2 else (len(glist) if glist is not None else None)
    nmis = 0
    first = None
    ncmp = 0
    # element count the typed call returned vs the dataspace
    if gv and total is not None and gkind != "empty" and gtotal is not None and gtotal != total and what == "dset":
        C.d(fname, where, "count", "%d elements" % total, "%d elements returned" % gtotal, src)
        return
    if gv and gkind == "empty" and any(True for _ in els):
        C.d(fname, where, "value", "%d elements" % len(els), "empty value returned without error", src)
        return
    for idx, dv, packed in els:
        # ---------- raw bytes / Coq tie cases
        rb = None
        if raw is not None and size and cls in ("integer", "float", "string", "enum") or (raw is not None and cls == "enum"):
            esz = size if cls != "enum" else (ty["base"].get("size") if ty["base"] else None)
            if esz and (idx + 1) * esz <= len(raw):
                rb = raw[idx * esz:(idx + 1) * esz]
        if rb is not None and cls in ("integer", "enum"):
            ity = ty if cls == "integer" else ty["base"]
            if ity and ity.get("class") == "integer" and ity.get("order") in ("LE", "BE") and not ity.get("precision"):
                want = dv if cls == "integer" else dv[2]
                if want is not None:
                    mv = dec_int_py(ity["order"], ity["signed"], ity["size"], rb)
                    exp = want
                    if packed:
                        mv = pack_bits(mv, ity["size"], packed)
                    C.stats["raw_int_elements"] += 1
                    if mv != exp:
                        C.diag["raw-int-mismatch"] += 1
                        if len(C.samples) < 40:
                            C.samples.append(dict(kind="raw-int-mismatch", file=fname, where=where, index=idx, ddl=exp, raw=rb.hex()))
                    elif not packed:
                        key = (ity["order"], bool(ity["signed"]), ity["size"], rb.hex())
                        if key not in C.int_cases:
                            C.int_cases[key] = [exp, None, "%s:%s[%d]" % (fname, where, idx)]
        if rb is not None and cls == "string" and ty.get("pad") in PAD_CODE and dv is not None and not isinstance(dv, tuple):
            C.stats["raw_string_elements"] += 1
            if canon_string(ty["pad"], rb) != canon_string(ty["pad"], dv):
                C.diag["raw-string-mismatch"] += 1
                if len(C.samples) < 40:
                    C.samples.append(dict(kind="raw-string-mismatch", file=fname, where=where, index=idx, ddl=dv.hex(), raw=rb.hex()))
            else:
                key = (ty["pad"], rb.hex())
                if key not in C.str_cases:
                    C.str_cases[key] = [canon_string(ty["pad"], dv).hex(), None, "%s:%s[%d]" % (fname, where, idx)]
        # ---------- typed value
        if glist is None or idx >= len(glist):
            continue
        gvv = glist[idx]
        ok = True
        ncmp += 1
        if cls == "integer":
            if gkind == "int":
                gi = gvv
            elif gkind in ("f64", "f32"):
                gi = int_of_float(gvv)
            else:
                gi = None
            exp = dv
            if packed and gi is not None:
                gi = pack_bits(gi, ty["size"], packed)
            ok = gi == exp
            if rb is not None and not packed and ty.get("order") in ("LE", "BE") and not ty.get("precision"):
                key = (ty["order"], bool(ty["signed"]), ty["size"], rb.hex())
                if key in C.int_cases and ok:
                    C.int_cases[key][1] = gi
        elif cls == "float":
            if gkind in ("f64", "f32"):
                ok = float_matches(dv, gvv, C.prec)
            elif gkind == "int":
                ok = float_matches(dv, float(gvv), C.prec)
            else:
                ok = False
        elif cls == "string":
            if gkind == "str":
                ok = string_eq(ty.get("pad"), dv, gvv)
                if rb is not None and ok and ty.get("pad") in PAD_CODE:
                    key = (ty["pad"], rb.hex())
                    if key in C.str_cases:
                        C.str_cases[key][1] = canon_string(ty["pad"], gvv).hex()
            else:
                ok = False
        elif cls == "compound":
            if gkind == "cmp":
                ok, why = compound_eq(ty, dv, gvv, C.prec)
                if not ok and first is None:
                    first = (idx, why, gvv)
            else:
                ok = False
        elif cls == "enum":
            gi = int_of_float(gvv) if gkind in ("f64", "f32") else (gvv if gkind == "int" else None)
            ok = dv[2] is None or gi == dv[2]
        else:
            # the reader returned numbers / strings for a class it cannot represent (array, vlen, ...)
            ok = False
        if not ok:
            nmis += 1
            if first is None:
                first = (idx, dv, gvv)
    C.stats["values_compared"] += ncmp
    if ncmp:
        C.stats["values_compared_%s_%s" % (what, cls)] += ncmp
    if nmis:
        C.d(fname, where, "value", "element %d: %r" % (first[0], first[1]), "%r (%d of %d compared elements differ)" % (first[2], nmis, ncmp), src)


def compound_eq(ty, dv, g, prec=None):
    """DDL compound element (list in member order) vs rendered ReadCompound element (dict hex(name) -> rendered)."""
    if not isinstance(g, dict):
        return False, "not a compound value"
    names = [n for n, _ in ty["members"]]
    gm = {bytes.fromhex(k).decode("utf-8", "surrogateescape"): v for k, v in g.items()}
    if len(set(names)) == len(names) and set(gm) != set(names):
        return False, "members %r, reader %r" % (names, sorted(gm))
    for (n, t), v in zip(ty["members"], dv):
        if n not in gm:
            return False, "member %r absent" % n
        x = gm[n]
        c = t.get("class")
        if c == "compound":
            ok, why = compound_eq(t, v, x, prec)
            if not ok:
                return False, "%s.%s" % (n, why)
            continue
        if not isinstance(x, str):
            return False, "member %r rendered as %r" % (n, x)
        if c == "integer":
            if not x.startswith("i:") or int(x[2:]) != v:
                return False, "member %r: DDL %r reader %s" % (n, v, x)
        elif c == "float":
            if x.startswith("f32:"):
                f = struct.unpack(">f", bytes.fromhex(x[4:]))[0]
            elif x.startswith("f64:"):
                f = struct.unpack(">d", bytes.fromhex(x[4:]))[0]
            else:
                return False, "member %r: DDL float %r reader %s" % (n, v, x)
            if not float_matches(v, f, prec):
                return False, "member %r: DDL %r reader %r" % (n, v, f)
        elif c == "string":
            if not x.startswith("s:"):
                return False, "member %r: DDL string reader %s" % (n, x)
            pad = t.get("pad") if t.get("size") != "var" else "nullterm"
            if not string_eq(pad, v, bytes.fromhex(x[2:])):
                return False, "member %r: DDL %r reader %r" % (n, v, bytes.fromhex(x[2:]))
        else:
            return False, "member %r of class %s returned as %s" % (n, c, x)
    return True, None


# ----------------------------------------------------------------------------- typed value vs raw bytes (all files)

IEEE_PROPS = {4: (0, 32, 23, 8, 0, 23, 127), 8: (0, 64, 52, 11, 0, 52, 1023)}


def float_props(hexprops):
    b = bytes.fromhex(hexprops or "")
    if len(b) < 12:
        return None
    return (int.from_bytes(b[0:2], "little"), int.from_bytes(b[2:4], "little"), b[4], b[5], b[6], b[7], int.from_bytes(b[8:12], "little"))


def int_props_plain(hexprops, size):
    b = bytes.fromhex(hexprops or "")
    if len(b) < 4:
        return False
    return int.from_bytes(b[0:2], "little") == 0 and int.from_bytes(b[2:4], "little") == 8 * size


def expected_from_raw(cls, size, bits, props, raw, n):
    """Independent expectation for the first n elements from the raw element bytes (format rules = Model/RefDecode.v):
    list of ('int', v) / ('fbits', int bits, size) / ('str', bytes), or None when the type is outside the model."""
    if size <= 0:
        return None
    n = min(n, len(raw) // size)
    order = "BE" if bits & 1 else "LE"
    if cls == 0 and size in (1, 2, 4, 8) and int_props_plain(props, size):
        signed = bool(bits & 8)
        return [("int", dec_int_py(order, signed, size, raw[i * size:(i + 1) * size]), order, signed) for i in range(n)]
    if cls == 1 and size in (4, 8) and not bits & 0x40 and float_props(props) == IEEE_PROPS[size]:
        return [("fbits", int.from_bytes(raw[i * size:(i + 1) * size], "little" if order == "LE" else "big")) for i in range(n)]
    if cls == 3 and (bits & 0x0F) in (0, 1, 2):
        pad = ("nullterm", "nullpad", "spacepad")[bits & 0x0F]
        return [("str", canon_string(pad, raw[i * size:(i + 1) * size]), pad) for i in range(n)]
    return None


def fbits(x, size):
    return int.from_bytes(struct.pack(">f" if size == 4 else ">d", x), "big")


def consistency_file(C, fname, out):
    """Every typed value the reader returned must be the format's decoding of the element bytes it located.
    Runs on every corpus file that opens (with or without DDL)."""
    extra = out.get("extra") or {}
    for g in out["dump"]["objects"]:
        path = norm_path(g["path"])
        if go_kind(g) == "dataset" and g.get("raw") is not None and not g.get("rawerr"):
            ex = extra.get(g["path"]) or {}
            raw = bytes.fromhex(g["raw"])
            cls, size, bits = g.get("class", -1), g.get("size", 0), g.get("bits", 0)
            if not g.get("readerr") and g.get("read") is not None and cls in (0, 1):
                vals = [struct.unpack(">d", bytes.fromhex(x))[0] for x in g["read"]]
                exp = expected_from_raw(cls, size, bits, ex.get("props"), raw, len(vals))
                consistency_compare(C, fname, path, cls, size, exp, vals, raw, "f64")
            if cls == 3 and not g.get("strerr") and g.get("strings") is not None:
                vals = [bytes.fromhex(x) for x in g["strings"]]
                exp = expected_from_raw(cls, size, bits, ex.get("props"), raw, len(vals))
                consistency_compare(C, fname, path, cls, size, exp, vals, raw, "str")
        if go_kind(g) in ("group", "dataset") and not g.get("attrerr"):
            ex = extra.get(g["path"]) or {}
            aprops = {t["name"]: t for t in ex.get("attrtypes") or []}
            for a in g.get("attrs") or []:
                if a.get("valerr") or not a.get("value"):
                    continue
                gv = parse_go_value(a["value"])
                if gv[0] not in ("int", "f32", "f64", "str"):
                    continue
                raw = bytes.fromhex(a.get("data") or "")
                t = aprops.get(a["name"]) or {}
                where = path + "@" + bytes.fromhex(a["name"]).decode("utf-8", "surrogateescape")
                exp = expected_from_raw(a["class"], a["size"], a["bits"], t.get("props"), raw, len(gv[1]))
                consistency_compare(C, fname, where, a["class"], a["size"], exp, gv[1], raw, gv[0])
                if a["class"] == 0 and a["size"] in (4, 8) and gv[0] == "int":
                    sz = a["size"]
                    for i in range(min(len(gv[1]), len(raw) // sz)):
                        key = ("BE" if a["bits"] & 1 else "LE", bool(a["bits"] & 8), sz, raw[i * sz:(i + 1) * sz].hex())
                        if key not in C.attr_cases:
                            C.attr_cases[key] = [gv[1][i], "%s:%s[%d]" % (fname, where, i)]


def membership_consistency(C, fname, out):
    """Every link a returned group's own header announces (link messages / symbol table, parsed by the reader's
    parsers) must be a member of what Children() returned: a link that is dropped is a silently missing member,
    with or without a DDL."""
    extra = out.get("extra") or {}
    for g in out["dump"]["objects"]:
        if go_kind(g) != "group":
            continue
        ex = extra.get(g["path"]) or {}
        if ex.get("linkserr") or not ex.get("links"):
            continue
        have = set(g.get("children") or [])
        path = norm_path(g["path"])
        # a group reached through a second path is returned empty (known finding): its links are all "dropped"
        for l in ex["links"]:
            C.stats["links_vs_children"] += 1
            if l["name"] in have:
                continue
            nm = bytes.fromhex(l["name"]).decode("utf-8", "surrogateescape")
            kind = {"hard": "child", "soft": "softlink", "other": "extlink"}[l["kind"]]
            C.d(fname, norm_path(path.rstrip("/") + "/" + nm), "dropped-link:" + kind,
                "%s link %r announced by the %s of group %s" % (l["kind"], nm, ex.get("linkssrc"), path),
                "not among Children(); no error reported%s" % ((" (child loader: %s)" % l["loaderr"][:120]) if l.get("loaderr") else ""), "format")


def consistency_compare(C, fname, where, cls, size, exp, vals, raw, gkind):
    if exp is None:
        return
    bad = 0
    first = None
    n = min(len(exp), len(vals))
    for i in range(n):
        e, v = exp[i], vals[i]
        ok = True
        if e[0] == "int":
            gi = v if gkind == "int" else (int_of_float(v) if gkind in ("f64", "f32") else None)
            ok = gi == e[1]
            key = (e[2], e[3], size, raw[i * size:(i + 1) * size].hex())
            if ok and key not in C.int_cases:
                C.int_cases[key] = [e[1], gi, "%s:%s[%d] (no DDL: format oracle)" % (fname, where, i)]
        elif e[0] == "fbits":
            if gkind == "f32" and size == 4:
                ok = fbits(v, 4) == e[1] or (math.isnan(v) and math.isnan(struct.unpack(">f", e[1].to_bytes(4, "big"))[0]))
            elif gkind == "f64" and size == 8:
                ok = fbits(v, 8) == e[1] or (math.isnan(v) and math.isnan(struct.unpack(">d", e[1].to_bytes(8, "big"))[0]))
            elif gkind == "f64" and size == 4:
                w = struct.unpack(">f", e[1].to_bytes(4, "big"))[0]
                ok = (v == w) or (math.isnan(v) and math.isnan(w))
            else:
                ok = False
        elif e[0] == "str":
            ok = gkind == "str" and v == e[1]
            key = (e[2], raw[i * size:(i + 1) * size].hex())
            if ok and key not in C.str_cases:
                C.str_cases[key] = [e[1].hex(), v.hex(), "%s:%s[%d] (no DDL: format oracle)" % (fname, where, i)]
        if not ok:
            bad += 1
            if first is None:
                first = (i, e, v)
    C.stats["typed_vs_raw_elements"] += n
    if bad:
        e = first[1]
        shown = e[1] if e[0] != "fbits" else "float bits 0x%x" % e[1]
        C.d(fname, where, "value-vs-raw", "element %d: %r (decoding of bytes %s)" % (first[0], shown, raw[first[0] * size:(first[0] + 1) * size].hex()),
            "%r (%d of %d elements differ)" % (first[2], bad, n), "format")


# ----------------------------------------------------------------------------- Coq tie

def coq_tie(C, tier, rng):
    """Evaluate dec_int / dec_string (Model/RefDecode.v) on raw element bytes; result must equal the DDL value and,
    where the reader returned a typed value, the reader's value."""
    ints = sorted(C.int_cases.items())
    strs = sorted(C.str_cases.items())
    cap_i, cap_s = (6000, 1500) if tier == "quick" else (60000, 8000)
    if len(ints) > cap_i:
        # keep every (order, signed, size) class represented, prefer cases that carry a reader value
        withgo = [x for x in ints if x[1][1] is not None]
        rest = [x for x in ints if x[1][1] is None]
        rng.shuffle(withgo)
        rng.shuffle(rest)
        ints = (withgo + rest)[:cap_i]
        ints.sort()
    if len(strs) > cap_s:
        rng.shuffle(strs)
        strs = sorted(strs[:cap_s])
    v = ["From HV Require Import Base.Prelude Model.RefDecode.\nOpen Scope string_scope.\n"]
    labels = []
    for k in range(0, len(ints), 2500):
        chunk = ints[k:k + 2500]
        name = "ic_%d" % k
        items = []
        for (order, signed, size, hx), (dv, gvv, _) in chunk:
            items.append("(%s,%s,%d%%N,\"%s\",(%d)%%Z,%s)" % ("BE" if order == "BE" else "LE", vlib.cbool(signed), size, hx, dv,
                                                          "None" if gvv is None else "(Some (%d)%%Z)" % gvv))
        v.append("Definition %s : list int_case := [%s].\n" % (name, ";".join(items)))
        v.append("Definition bad_%s := Eval vm_compute in mismatches int_case_ok %s.\n" % (name, name))
        labels.append(("bad_" + name, "int", chunk))
    for k in range(0, len(strs), 1500):
        chunk = strs[k:k + 1500]
        name = "sc_%d" % k
        items = []
        for (pad, hx), (dv, gvv, _) in chunk:
            items.append("(%s,\"%s\",\"%s\",%s)" % ({"nullterm": "NullTerm", "nullpad": "NullPad", "spacepad": "SpacePad"}[pad], hx, dv,
                                                 "None" if gvv is None else "(Some \"%s\")" % gvv))
        v.append("Definition %s : list str_case := [%s].\n" % (name, ";".join(items)))
        v.append("Definition bad_%s := Eval vm_compute in mismatches str_case_ok %s.\n" % (name, name))
        labels.append(("bad_" + name, "str", chunk))
    attrs = sorted(C.attr_cases.items())
    if len(attrs) > cap_s * 2:
        rng.shuffle(attrs)
        attrs = sorted(attrs[:cap_s * 2])
    for k in range(0, len(attrs), 2500):
        chunk = attrs[k:k + 2500]
        name = "ac_%d" % k
        items = ["(%s,%s,%d%%N,\"%s\",(%d)%%Z)" % (o, vlib.cbool(sg), sz, hx, gvv) for (o, sg, sz, hx), (gvv, _) in chunk]
        v.append("Definition %s : list attr_case := [%s].\n" % (name, ";".join(items)))
        v.append("Definition bad_%s := Eval vm_compute in mismatches attr_case_ok %s.\n" % (name, name))
        labels.append(("bad_" + name, "attr", chunk))
    if not labels:
        return 0, []
    v.append("Definition ALLBAD := Eval vm_compute in [%s].\nPrint ALLBAD.\n" % ";".join("N.of_nat (List.length %s)" % l[0] for l in labels))
    for l in labels:
        v.append("Print %s.\n" % l[0])
    outp = vlib.coq_eval("".join(v), "c06cases")
    counts = vlib.parse_nlist(outp, "ALLBAD")
    bad = []
    for (lab, what, chunk), n in zip(labels, counts):
        if n:
            for i in vlib.parse_nlist(outp, lab)[:5]:
                bad.append((what, chunk[i]))
    return len(ints) + len(strs) + len(attrs), bad


# ----------------------------------------------------------------------------- known findings

def load_known():
    """(file, object, kind) -> root cause id, from corpus/C06/known.json; a root cause whose entry in
    /verif/KNOWN_FINDINGS.json (when the coordinator has copied it there) is no longer 'open' stops excusing anything."""
    if not os.path.exists(KNOWN_PATH):
        return {}, []
    k = json.load(open(KNOWN_PATH))
    closed = set()
    kf = os.path.join(vlib.VERIF, "KNOWN_FINDINGS.json")
    if os.path.exists(kf):
        for e in json.load(open(kf)).get("findings", []):
            if e.get("property") == "C06" and e.get("status") != "open":
                closed.add(e.get("id"))
    idx = {}
    rcs = [rc for rc in k.get("root_causes", []) if rc.get("status", "open") == "open" and rc["id"] not in closed]
    for rc in rcs:
        for e in rc.get("entries", []):
            idx[(e[0], e[1], e[2])] = rc["id"]
    return idx, rcs


def collect(H, tier, rng, only=None):
    """Run the whole comparison; returns (Cmp, corpus summary dict, per-file Go outputs)."""
    files = corpus_files()
    em = emptied_set()
    byddl, dstats = load_ddls()
    skipped_emptied = [f for f in files if os.path.relpath(f, vlib.REPO) in em or os.path.getsize(f) == 0]
    files = [f for f in files if f not in skipped_emptied]
    if only:
        files = [f for f in files if os.path.basename(f) in only]
    off = os.path.join(vlib.REPO, "testdata", "hdf5_official")
    # a DDL belongs to hdf5_official/<name> and to every corpus file with identical bytes
    sha_of_ddl_file = {}
    for b in byddl:
        p = os.path.join(off, b)
        if os.path.exists(p) and os.path.getsize(p) > 0:
            sha_of_ddl_file[sha(p)] = b
    limit = QUICK_LIMIT if tier == "quick" else 0
    secs = 25 if tier == "quick" else 180
    t0 = time.time()
    outs = run_go(H, files, limit, secs)
    go_wall = time.time() - t0
    C = Cmp(tier)
    summ = collections.Counter()
    summ["corpus_files"] = len(files) + len(skipped_emptied)
    summ["files_emptied_skipped"] = len(skipped_emptied)
    hangs, panics, with_ddl, ooms = [], [], [], []
    for f in files:
        o = outs[f]
        rel = os.path.relpath(f, vlib.REPO)
        if o.get("hardtimeout") or o.get("timeout"):
            hangs.append(rel)
            continue
        if o.get("oom"):
            ooms.append(rel)
            continue
        if "dump" not in o and not o.get("crash") and not o.get("panic"):
            o["crash"] = "harness output without dump: %r" % (list(o),)
        if o.get("crash"):
            panics.append((rel, o["crash"][-300:]))
            continue
        if o.get("panic") or (o.get("dump") or {}).get("panic"):
            panics.append((rel, (o.get("panic") or o["dump"]["panic"])[:300]))
            continue
        d = o["dump"]
        if d.get("openerr"):
            summ["files_open_error"] += 1
            C.errclass["Open: " + classify_error(d["openerr"])] += 1
        else:
            summ["files_opened"] += 1
            summ["objects_returned"] += len(d["objects"])
        if not d.get("openerr"):
            consistency_file(C, rel.replace("testdata/", "", 1), o)
            membership_consistency(C, rel.replace("testdata/", "", 1), o)
        b = sha_of_ddl_file.get(d.get("sha"))
        if b is None:
            continue
        with_ddl.append(rel)
        if d.get("openerr"):
            summ["files_with_ddl_open_error"] += 1
            continue
        docs = byddl[b]
        summ["ddl_sections_compared"] += len(docs)
        compare_file(C, rel.replace("testdata/", "", 1), o, docs)
    summ["files_with_ddl"] = len(with_ddl)
    summ["files_without_ddl"] = len(files) - len(with_ddl)
    summ["hangs"] = len(hangs)
    summ["out_of_memory"] = len(ooms)
    hangs = hangs + ["OOM: " + x for x in ooms]
    summ["panics"] = len(panics)
    return C, dict(summ), dict(dstats), hangs, panics, go_wall, outs


def run(ctx):
    H, rng = ctx.harness, ctx.rng
    t0 = time.time()
    float_selftest()
    C, summ, dstats, hangs, panics, go_wall, outs = collect(H, ctx.tier, rng)
    known_idx, root_causes = load_known()
    viol, known_lines = [], []
    by_rc = collections.defaultdict(list)
    seen = set()
    new = []
    for d in C.disc:
        key = (d["file"], d["path"], d["kind"])
        if key in seen:
            continue
        seen.add(key)
        rc = known_idx.get(key)
        if rc is None:
            new.append(d)
        else:
            by_rc[rc].append(d)
    for rc in root_causes:
        got = by_rc.get(rc["id"], [])
        if got:
            kinds = collections.Counter(x["kind"].split(":")[0] for x in got)
            known_lines.append("%s: %d (file, object) discrepancies re-confirmed of %d listed [%s] - %s (%s)" % (
                rc["id"], len(got), len(rc.get("entries", [])), ", ".join("%s=%d" % kv for kv in sorted(kinds.items())), rc["what"], rc["site"]))
    for d in new[:25]:
        viol.append(dict(what="%s: %s %s: reference reports %s, reader returned %s (not a listed known finding)" % (
            d["file"], d["kind"], d["path"], d["expected"], d["got"]),
            failing_input=dict(file=d["file"], object=d["path"], kind=d["kind"], expected=d["expected"], got=d["got"], ddl=d["ddl"]),
            replay_cmd="verifharness c06 <repo>/testdata/%s 0" % d["file"], new_discrepancies_total=len(new)))
    # Coq tie
    ncoq, bad = coq_tie(C, ctx.tier, rng)
    for what, (key, val) in bad:
        dv, gvv, where = (val + [None])[:3] if what != "attr" else (val[0], val[1], None)
        if what == "int":
            order, signed, size, hx = key
            py = dec_int_py(order, signed, size, bytes.fromhex(hx))
            v = dict(what="Coq dec_int disagrees on %s: bytes %s as %s%d%s: model vs DDL %d vs reader %r" % (where, hx, "I" if signed else "U", 8 * size, order, dv, gvv),
                     case=dict(order=order, signed=signed, size=size, bytes=hx, ddl=dv, go=gvv, python_oracle=py, where=where))
            if py == dv and (gvv is None or gvv == dv):
                v["nofail"] = True
                v["correspondence"] = "Model.RefDecode.dec_int vs format decoding (theorem C06_int_roundtrip)"
            else:
                v["failing_input"] = v["case"]
        elif what == "attr":
            order, signed, size, hx = key
            v = dict(what="Attribute.ReadValue differs from its transcription go_attr_int_fixed on %s: bytes %s (%s%d%s): reader %r" % (
                gvv, hx, "I" if signed else "U", 8 * size, order, dv), case=dict(order=order, signed=signed, size=size, bytes=hx, go=dv, where=gvv),
                nofail=True, correspondence="Model.RefDecode.go_attr_int_fixed vs internal/core/attribute.go ReadValue")
            spec = dec_int_py(order, signed, size, bytes.fromhex(hx))
            if dv != spec and dv != dec_int_py(order, True, size, bytes.fromhex(hx)):
                v.pop("nofail")
                v["failing_input"] = v["case"]
        else:
            pad, hx = key
            v = dict(what="Coq dec_string disagrees on %s: bytes %s pad %s: DDL %s reader %r" % (where, hx, pad, dv, gvv),
                     case=dict(pad=pad, bytes=hx, ddl=dv, go=gvv, where=where), nofail=True,
                     correspondence="Model.RefDecode.dec_string vs decodeFixedString (theorems C06_string_pad_*)")
        viol.append(v)
    # reader parsers against the specification decoders on the structures of reference files (side obligation of the
    # theorems C06_reader_* in Props/C06Reader.v; see c06reader.py)
    from props import c06reader
    rs = c06reader.tie(ctx)
    viol += rs["violations"]
    known_lines += rs["known"]
    if rs["coverage"]["structures_evaluated"] < 300:
        viol.append(dict(what="reader-vs-specification tie: only %d structures of reference files were evaluated" % rs["coverage"]["structures_evaluated"],
                         nofail=True, correspondence="reference corpus discovery (tools/props/c05.py reference_structs)"))
    # second oracle: the Coq whole-file specification walker (tools/props/c06walk.py)
    from props import c06walk
    wviol, w_by_rc, wcov = c06walk.run_oracle(ctx, corpus_files(), outs, known_idx)
    viol.extend(wviol)
    for rc in root_causes:
        if w_by_rc.get(rc["id"]):
            known_lines.append("%s: %d (file, object) discrepancies re-confirmed by the Coq walker oracle - %s (%s)" % (
                rc["id"], w_by_rc[rc["id"]], rc["what"], rc["site"]))
    if wcov["files_compared"] < 100 or wcov["objects_compared"] < 300:
        viol.append(dict(what="walker oracle coverage collapsed: %d files compared, %d objects" % (wcov["files_compared"], wcov["objects_compared"]),
                         nofail=True, correspondence=c06walk.CORR))
    # the quantifier must not silently shrink
    if summ.get("files_with_ddl", 0) < 100 or C.stats["values_compared"] < 10000:
        viol.append(dict(what="corpus coverage collapsed: %d files with DDL, %d values compared" % (summ.get("files_with_ddl", 0), C.stats["values_compared"]),
                         nofail=True, correspondence="corpus discovery / DDL parser"))
    cov = dict(evaluations=int(C.stats["values_compared"] + C.stats["members_compared"] + C.stats["attributes_compared"] + C.stats["objects_compared"]),
               distinct_nontrivial=len(C.int_cases) + len(C.str_cases),
               rule="every corpus file is opened by the Go reader in its own process; every object/attribute/DATA element of every DDL section "
                    "of a file with DDL is compared; distinct_nontrivial = distinct (type, raw bytes) integer and string elements for which raw bytes, "
                    "DDL value (and reader value) were all available - these are the cases sent to the Coq model",
               samples=C.samples[:6] + [dict(int_case=list(k), ddl_go_where=v) for k, v in list(sorted(C.int_cases.items()))[:3]],
               corpus=summ, ddl=dstats, compared=dict(C.stats), nongating_diagnostics=dict(C.diag),
               reader_errors_by_class=dict(C.errclass.most_common()),
               hangs=hangs, panics=[p for p, _ in panics], panic_samples=panics[:3],
               discrepancies_total=len(seen), discrepancies_known=len(seen) - len(new), discrepancies_new=len(new),
               known_root_causes={rc: len(v) for rc, v in by_rc.items()},
               model_evaluations_in_coq=ncoq, go_wall_s=round(go_wall, 1), exhaustive=(ctx.tier == "thorough"),
               element_limit=(QUICK_LIMIT if ctx.tier == "quick" else 0),
               programs=summ.get("corpus_files", 0), disagreements_checked=ncoq,
               reader_vs_specification=rs["coverage"], walker_oracle=wcov)
    return dict(violations=viol, known=known_lines, coverage=cov)


def replay(ctx, path):
    """Re-run one stored discrepancy: prints DDL expectation and the reader's current output for that object."""
    r = json.load(open(path))
    fi = (r.get("detail") or {}).get("failing_input") or {}
    f = fi.get("file")
    if not f:
        print("replay: no file in", path)
        return [1]
    C, summ, _, _, _, _, outs = collect(ctx.harness, "thorough", ctx.rng, only={os.path.basename(f)})
    hits = [d for d in C.disc if d["path"] == fi.get("object") and d["kind"] == fi.get("kind")]
    for d in hits:
        print("REPRODUCED %s %s %s: expected %s got %s" % (d["file"], d["kind"], d["path"], d["expected"], d["got"]))
    if not hits:
        print("not reproduced: %s %s %s" % (f, fi.get("kind"), fi.get("object")))
    return hits
