"""C14 - B-tree v2 name index is a faithful, persistent map; the key hash equals lookup3.

Tie (every run):
 * hash: Go jenkinsHash on byte strings (lengths 0..1 exhaustive, 2 sampled/exhaustive, every length
   0..64 with all-00 / all-FF / random bytes, multiples of 12, long strings) against (a) an independent
   Python lookup3 on all of them and (b) Model.jenkins and Spec.hashlittle evaluated by Coq on a subset.
 * histories: generated operation sequences (insert/update/search/has/delete/store+load/rewrite+load)
   over small name pools, node sizes from 0 (default) and 1 to 4096 (capacity 371 crossed), all four
   rebalancing modes, run on the real WritableBTreeV2 through an in-memory file; every observable
   (per-operation result, final record list, header counts, leaf view, serialised header/leaf bytes, the
   whole file, a fresh final image, loaded addresses) is compared with the Coq model (Model/BT2.v), and
   judged independently by a Python oracle (dict + lookup3 + own decoder with zlib.crc32): results equal
   the map's, records sorted and equal to the map's content, the four count views equal, bytes decode to
   the same records, LoadFromFile and the minimal reader of internal/core reproduce them.
 * all histories of length <= 3 (thorough: 4) over two names at capacity 1.
 * in-place rewrites of ONE loaded handle: "w" = WriteAt with no reload (the history continues on the same
   object), "P" = WriteToFile with no reload.  After every successful w / r / p / P the harness loads the
   image at the object's loaded header address (P: the returned address) into a FRESH object and runs the
   minimal reader of internal/core on it; both must reproduce the in-memory index (records, counts, header
   fields).  This is gated here directly against the specification ("reproduced exactly by writing it out
   and loading it back"), independently of the Coq model; the file bytes are compared with the model too.
   Generated: handles written in place 2..6 times whose record count leaves and returns to the count at
   load time (insert+w, delete+w / delete+w, insert+w with different names), update-only rewrites, mixes
   of w / r / p / P, all four modes, node sizes 32..4096; and ALL histories of length 4 over
   {insert a, insert b, delete a, delete b, w} after an initial store+load with 0, 1, 2 records.
 * LoadFromFile on corrupted / truncated images against Model.load_from and the Python decoder.
 * known finding: two distinct names with equal hash are confused (corpus/C14/collision.json).
"""
import concurrent.futures as cf
import hashlib, json, os, struct, time, zlib
import vlib

TRUSTED = ["C14: hash/crc32.ChecksumIEEE is modelled by the bit-wise CRC-32 of Base/Crc32.v (compared on every serialised header and leaf); "
           "os.File/io.ReaderAt are modelled by a growable byte list (the harness uses an in-memory Writer/ReaderAt and a bump allocator); "
           "the background goroutine of the incremental mode is not modelled (C18); time.Since(..) >= MaxDelay is an oracle boolean of the model"]
ASSUMPTIONS = ["node size N with (N-10)/11 <= 65535 (the uint16 root record count), file addresses below 2^(8*offset size)",
               "names used in one history have pairwise distinct hashes (otherwise: known finding C14-hash-collision-confuses-names)",
               "node size 0 (= default 4096) or >= 10: a node must be able to hold its 10 fixed bytes",
               "/repo carries fix 6c2e9ef (duplicate key refused; notes/fixes/c14-duplicate-key): the model follows the repaired code"]

M32 = 0xFFFFFFFF
KF_ID = "C14-hash-collision-confuses-names"


# ------------------------------------------------------------------ independent lookup3 (hashlittle, initval 0)
def _rot(x, k):
    return ((x << k) | (x >> (32 - k))) & M32


def _mix(a, b, c):
    a = (a - c) & M32; a ^= _rot(c, 4); c = (c + b) & M32
    b = (b - a) & M32; b ^= _rot(a, 6); a = (a + c) & M32
    c = (c - b) & M32; c ^= _rot(b, 8); b = (b + a) & M32
    a = (a - c) & M32; a ^= _rot(c, 16); c = (c + b) & M32
    b = (b - a) & M32; b ^= _rot(a, 19); a = (a + c) & M32
    c = (c - b) & M32; c ^= _rot(b, 4); b = (b + a) & M32
    return a, b, c


def _final(a, b, c):
    c ^= b; c = (c - _rot(b, 14)) & M32
    a ^= c; a = (a - _rot(c, 11)) & M32
    b ^= a; b = (b - _rot(a, 25)) & M32
    c ^= b; c = (c - _rot(b, 16)) & M32
    a ^= c; a = (a - _rot(c, 4)) & M32
    b ^= a; b = (b - _rot(a, 14)) & M32
    c ^= b; c = (c - _rot(b, 24)) & M32
    return a, b, c


def lookup3(key, initval=0):
    key = bytes(key)
    n = len(key)
    a = b = c = (0xdeadbeef + n + initval) & M32
    p = 0
    while n > 12:
        a = (a + int.from_bytes(key[p:p + 4], "little")) & M32
        b = (b + int.from_bytes(key[p + 4:p + 8], "little")) & M32
        c = (c + int.from_bytes(key[p + 8:p + 12], "little")) & M32
        a, b, c = _mix(a, b, c)
        n -= 12
        p += 12
    if n == 0:
        return c
    t = key[p:] + bytes(12)           # absent bytes contribute 0, exactly like the fall-through switch
    a = (a + int.from_bytes(t[0:4], "little")) & M32
    b = (b + int.from_bytes(t[4:8], "little")) & M32
    c = (c + int.from_bytes(t[8:12], "little")) & M32
    return _final(a, b, c)[2]


assert lookup3(b"") == 0xdeadbeef and lookup3(b"Four score and seven years ago") == 0x17770551
assert lookup3(b"Four score and seven years ago", 1) == 0xcd628161


# ------------------------------------------------------------------ map oracle
OPC = {"i": 0, "u": 1, "s": 2, "h": 3, "d": 4, "p": 5, "r": 6, "w": 7, "P": 8}
NONAME = "prwP"          # operations without a name: store+load, rewrite+load, write in place, store


def capacity(ns):
    ns = 4096 if ns == 0 else ns
    return ((ns - 10) % (1 << 32)) // 11      # node sizes below 10 are outside the domain (never generated)


def id7(v):
    return (v & ((1 << 64) - 1)).to_bytes(8, "little")[:7]


def oracle_run(case, info=None):
    """Expected result codes and final map (name bytes -> 7-byte id).
    info (optional dict) receives: loaded (the final object was loaded from the file), clean (nothing was
    modified since the last successful write of the object to its loaded addresses)."""
    cap = capacity(case["ns"])
    m, loaded, out = {}, False, []
    clean = False
    for o in case["ops"]:
        k = o["o"]
        n = bytes.fromhex(o.get("n", ""))
        if k == "i":
            if n in m or len(m) >= cap:
                out.append(0)
            else:
                m[n] = id7(o["v"]); out.append(1)
        elif k == "u":
            if n in m:
                m[n] = id7(o["v"]); out.append(1)
            else:
                out.append(0)
        elif k == "s":
            out.append(5 + int.from_bytes(m[n] + b"\0", "little") if n in m else 2)
        elif k == "h":
            out.append(4 if n in m else 3)
        elif k == "d":
            if n in m:
                del m[n]; out.append(1)
            else:
                out.append(0)
        elif k == "p":
            loaded = True; out.append(1)
        elif k in "rw":
            out.append(1 if loaded else 0)
        elif k == "P":
            out.append(1)
        else:
            raise ValueError("unknown operation %r" % (k,))
        if out[-1] == 1:
            if k in "iud": clean = False
            elif k == "p" or (k in "rw" and loaded): clean = True
    if info is not None:
        info["loaded"], info["clean"] = loaded, clean
    return out, m


def go_codes(res):
    out = []
    for r in res:
        if r == "ok": out.append(1)
        elif r == "err": out.append(0)
        elif r == "nf": out.append(2)
        elif r == "f": out.append(3)
        elif r == "t": out.append(4)
        elif r.startswith("found:"):
            b = bytes.fromhex(r[6:])
            out.append(5 + int.from_bytes(b, "little") if len(b) == 8 else -1)
        else: out.append(-2)
    return out


# ------------------------------------------------------------------ independent decoder of the on-disk format
def dec_header(buf, osz):
    """-> dict or error string (HDF5 spec III.A.2 with CRC-32 as this library writes it)."""
    size = 30 + osz
    if len(buf) < size:
        return "short"
    if buf[:4] != b"BTHD": return "signature"
    if buf[4] != 0: return "version"
    ty = buf[5]
    ns, rsz, depth, split, merge = struct.unpack_from("<IHHBB", buf, 6)
    root = int.from_bytes(buf[16:16 + osz], "little")
    nroot, total = struct.unpack_from("<HQ", buf, 16 + osz)
    (crc,) = struct.unpack_from("<I", buf, 26 + osz)
    if crc != zlib.crc32(buf[:26 + osz]): return "checksum"
    return dict(type=ty, ns=ns, rsz=rsz, depth=depth, split=split, merge=merge, root=root, nroot=nroot, total=total)


def dec_leaf(buf, n):
    size = 10 + 11 * n
    if len(buf) < size: return "short"
    if buf[:4] != b"BTLF": return "signature"
    if buf[4] != 0: return "version"
    recs = []
    for i in range(n):
        o = 6 + 11 * i
        recs.append((int.from_bytes(buf[o:o + 4], "little"), bytes(buf[o + 4:o + 11])))
    (crc,) = struct.unpack_from("<I", buf, 6 + 11 * n)
    if crc != zlib.crc32(buf[:6 + 11 * n]): return "checksum"
    return dict(type=buf[5], recs=recs)


def dec_file(data, addr, osz):
    """What a correct LoadFromFile must return on these bytes: ('ok', recs, header) or ('err', why)."""
    h = dec_header(data[addr:addr + 30 + osz], osz) if addr <= len(data) else "short"
    if isinstance(h, str): return ("err", "header " + h)
    if h["type"] != 5: return ("err", "type")
    if h["depth"] != 0: return ("err", "depth")
    if h["nroot"] == 0: return ("ok", [], h)
    lf = dec_leaf(data[h["root"]:h["root"] + 10 + 11 * h["nroot"]], h["nroot"]) if h["root"] <= len(data) else "short"
    if isinstance(lf, str): return ("err", "leaf " + lf)
    return ("ok", lf["recs"], h)


def recs_of(view_recs):
    return [(int(h), bytes.fromhex(i)) for h, i in view_recs]


def spec_check(case, g):
    """Judge the implementation's observables against the specification, independent of the Coq model.
    Returns a list of human-readable violations (empty = the property holds on this history)."""
    bad = []
    if "panic" in g or "harness_error" in g:
        return ["implementation panicked / harness error: %s" % (g.get("panic") or g.get("harness_error"))]
    info = {}
    exp, m = oracle_run(case, info)
    got = go_codes(g["res"])
    for i, (e, x) in enumerate(zip(exp, got)):
        if e != x:
            o = case["ops"][i]
            bad.append("op %d (%s %s): result code %s, a map gives %s" % (i, o["o"], o.get("n", ""), x, e))
            break
    # written out and loaded back: after every successful write the image in the file, read by a fresh
    # LoadFromFile and by the minimal reader, must be the in-memory index
    WR = {"w": "WriteAt in place (same handle, write #%d on it)", "r": "WriteAt in place + reload", "p": "WriteToFile + reload",
          "P": "WriteToFile (same handle)"}
    imgs, raws = g.get("img") or [""] * len(exp), g.get("rawimg") or [""] * len(exp)
    nw = 0
    for i, o in enumerate(case["ops"]):
        k = o["o"]
        if k in "pr": nw = 0
        if k not in WR or exp[i] != 1 or got[i] != 1:
            continue
        if k == "w": nw += 1
        what = WR[k] % nw if k == "w" else WR[k]
        if imgs[i] != "same":
            bad.append("op %d: after %s the index in the file is not the in-memory index: a fresh LoadFromFile at the loaded header address gives %s%s" % (
                i, what, imgs[i] or "no answer", "".join(" (%s)" % d for d in (g.get("img_detail") or []) if d.startswith("%d:" % i))))
            break
        if raws[i] != "same":
            bad.append("op %d: after %s the minimal reader of internal/core reads different records from the file than the in-memory index (%s)" % (i, what, raws[i] or "no answer"))
            break
    if info["loaded"] and "end_img" in g and info["clean"] and g["end_img"][:2] != ["same", "same"]:
        bad.append("end of history, nothing modified since the last write: image at the loaded header address: LoadFromFile %s, minimal reader %s %s" % tuple(g["end_img"]))
    if info["loaded"] and "endw_img" in g and g["endw_img"][:2] != ["same", "same"]:
        bad.append("after the history, one more WriteAt of the final object (in place, same handle): image at the loaded header address: LoadFromFile %s, minimal reader %s %s" % tuple(g["endw_img"]))
    if info["loaded"] != ("end_img" in g) and "state" in g and not bad:
        bad.append("the object is %sloaded according to the history, the implementation says the opposite" % ("" if info["loaded"] else "not "))
    st = g["state"]
    recs = recs_of(st["recs"])
    if any(recs[i][0] > recs[i + 1][0] for i in range(len(recs) - 1)):
        bad.append("records are not ordered by hash")
    want = sorted((lookup3(n), v) for n, v in m.items())
    if sorted(recs) != want:
        bad.append("record set differs from the live keys with their latest values (%d records, %d live keys)" % (len(recs), len(m)))
    if not (st["nroot"] == st["total"] == len(recs) == len(st["leafrecs"])) or st["leafrecs"] != st["recs"]:
        bad.append("count views differ: NumRecordsRoot=%s TotalRecords=%s len(records)=%d len(leaf.Records)=%d" % (
            st["nroot"], st["total"], len(recs), len(st["leafrecs"])))
    osz = case.get("osz", 8)
    hd = dec_header(bytes.fromhex(st["hdr"]), osz)
    lf = dec_leaf(bytes.fromhex(st["leaf"]), len(recs))
    if isinstance(hd, str) or isinstance(lf, str):
        bad.append("serialised header/leaf do not decode: %s / %s" % (hd if isinstance(hd, str) else "ok", lf if isinstance(lf, str) else "ok"))
    else:
        if lf["recs"] != recs or hd["nroot"] != len(recs) or hd["total"] != len(recs) or hd["type"] != 5 or hd["depth"] != 0:
            bad.append("serialised bytes decode to different content than the in-memory index")
        if len(bytes.fromhex(st["leaf"])) > st["nodesize"] and recs:
            bad.append("encoded leaf (%d bytes) exceeds the node size %d" % (len(bytes.fromhex(st["leaf"])), st["nodesize"]))
    if "final_err" in g or "final_load_err" in g:
        bad.append("final WriteToFile/LoadFromFile failed: %s" % (g.get("final_err") or g.get("final_load_err")))
    else:
        ff = bytes.fromhex(g["final_file"])
        d = dec_file(ff, g["final_addr"], osz)
        if d[0] != "ok" or d[1] != recs:
            bad.append("the written image does not decode to the records (independent decoder: %s)" % (d[1] if d[0] == "err" else "different records"))
        fl = g["final_loaded"]
        if fl["recs"] != st["recs"] or fl["leafrecs"] != st["recs"] or fl["nroot"] != st["nroot"] or fl["total"] != st["total"] \
                or fl["nodesize"] != st["nodesize"] or fl["leaf"] != st["leaf"] or fl["hdrfields"][:6] != st["hdrfields"][:6]:
            bad.append("LoadFromFile(WriteToFile(x)) differs from x")
        if bytes.fromhex(fl["hdr"]) != ff[g["final_addr"]:g["final_addr"] + 30 + osz]:
            bad.append("re-encoding the loaded header is not byte-identical to the stored header")
        raw = g["final_raw"]
        if "err" in raw or raw["nroot"] != len(recs) or [bytes.fromhex(x) for x in raw["ids"]] != [r[1] for r in recs]:
            bad.append("the minimal reader of internal/core reads different records from the same bytes: %s" % (raw.get("err", "ids differ")))
    return bad


def pool_collides(names):
    seen = {}
    for n in set(names):
        h = lookup3(n)
        if h in seen:
            return (seen[h], n)
        seen[h] = n
    return None


# ------------------------------------------------------------------ generators
NODE_SMALL = [21, 32, 43, 54, 64, 100, 128]
NODE_MED = [256, 300, 512]


def gen_name(rng):
    r = rng.random()
    if r < 0.05: return b""
    if r < 0.55:
        return ("%s_%d" % (rng.choice(["attr", "link", "dset", "x", "temperature"]), rng.randrange(100000))).encode()
    ln = rng.choice([1, 2, 3, 7, 11, 12, 13, 23, 24, 25, 36, 37, 48, rng.randrange(0, 70)])
    return bytes(rng.randrange(256) for _ in range(ln))


def gen_value(rng):
    r = rng.random()
    if r < 0.2: return rng.choice([0, 1, 0xFF, (1 << 56) - 1, 1 << 56, (1 << 64) - 1, 0x0102030405060708])
    return rng.getrandbits(64)


def gen_history(rng, ns, length, pool_size, fill_first=0, weights=None):
    pool = []
    while len(pool) < pool_size:
        n = gen_name(rng)
        if n not in pool: pool.append(n)
    w = weights or dict(i=33, u=12, s=13, h=8, d=21, p=4, r=3, w=5, P=1)
    kinds, ws = list(w), list(w.values())
    ops = []
    for j in range(fill_first):
        ops.append(dict(o="i", n=pool[j % pool_size].hex(), v=gen_value(rng)))
    while len(ops) < length:
        k = rng.choices(kinds, ws)[0]
        if k in NONAME:
            ops.append(dict(o=k))
        else:
            o = dict(o=k, n=rng.choice(pool).hex())
            if k in "iu": o["v"] = gen_value(rng)
            ops.append(o)
    mode = rng.choice(["off", "immediate", "lazy", "incremental"])
    case = dict(ns=ns, mode=mode, thr=rng.choice([0, 10, 50, 200, 500]), delay=rng.random() < 0.3,
                osz=rng.choice([8, 8, 8, 4, 2]), ops=ops)
    if not addr_ok(case):
        case["osz"] = 8
    return case


def addr_ok(case):
    """Theorem hypothesis addr_ok: every address the bump allocator hands out fits the offset size."""
    ns = 4096 if case["ns"] == 0 else case["ns"]
    stores = sum(1 for o in case["ops"] if o["o"] in "pP")
    return 64 + stores * (ns + 30 + case["osz"]) <= 256 ** case["osz"]


def gen_enumerated(depth):
    """All histories of length <= depth over two names at capacity 1 (node size 21), modes rotating."""
    a, b = b"a".hex(), b"bb".hex()
    alpha = [dict(o="i", n=a, v=1), dict(o="i", n=b, v=2), dict(o="u", n=a, v=3), dict(o="u", n=b, v=4),
             dict(o="d", n=a), dict(o="d", n=b), dict(o="s", n=a), dict(o="h", n=b), dict(o="p"), dict(o="r")]
    cases, frontier, k = [], [[]], 0
    modes = ["off", "immediate", "lazy", "incremental"]
    for _ in range(depth):
        nxt = []
        for h in frontier:
            for x in alpha:
                nxt.append(h + [x])
        frontier = nxt
    for h in frontier:      # every shorter history is a prefix of one of these; the per-op results cover it
        cases.append(dict(ns=21, mode=modes[k % 4], thr=50, delay=(k // 4) % 2 == 1, osz=8, ops=h))
        k += 1
    return cases


NODE_STREAK = [32, 43, 54, 64, 64, 100, 128, 128, 256, 512]


def gen_write_streak(rng, ns, mode, kind):
    """One loaded handle that is written in place 2..6 times without a reload.
    kind: updown (insert+w, delete+w), downup (delete+w, insert+w), updates, zigzag (count wanders and returns to the
    count at load time), mixed (w / r / p / P interleaved with everything)."""
    cap = capacity(ns)
    pool = []
    while len(pool) < cap + 4:
        n = gen_name(rng)
        if n not in pool: pool.append(n)
    k0 = rng.randrange(1 if kind in ("downup", "updates") else 0, max(2, cap))     # records at load time, room for one more
    k0 = min(k0, cap - 1) if kind != "updates" else min(k0, cap)
    live, ops = [], []

    def ins(n=None):
        n = n if n is not None else rng.choice([x for x in pool if x not in live])
        ops.append(dict(o="i", n=n.hex(), v=gen_value(rng))); live.append(n); return n

    def dele(n=None):
        n = n if n is not None else rng.choice(live)
        ops.append(dict(o="d", n=n.hex())); live.remove(n); return n

    def upd():
        ops.append(dict(o="u", n=rng.choice(live).hex(), v=gen_value(rng)))

    def look():
        if rng.random() < 0.5:
            ops.append(dict(o=rng.choice("sh"), n=rng.choice(pool).hex()))

    for _ in range(k0): ins()
    ops.append(dict(o="p"))
    nwr = rng.randrange(2, 7)
    if kind == "updown":
        while nwr > 0:
            x = ins(); ops.append(dict(o="w")); look()
            dele(x if rng.random() < 0.4 or len(live) == 1 else rng.choice([y for y in live if y != x])); ops.append(dict(o="w")); look()
            nwr -= 2
    elif kind == "downup":
        while nwr > 0:
            y = dele(); ops.append(dict(o="w")); look()
            ins(y if rng.random() < 0.3 else None); ops.append(dict(o="w")); look()
            nwr -= 2
    elif kind == "updates":
        for _ in range(nwr):
            upd(); ops.append(dict(o="w")); look()
    elif kind == "zigzag":
        written = 0
        while written < nwr:
            up = len(live) < cap and (not live or rng.random() < 0.5)
            for _ in range(rng.randrange(1, 3)):
                if up and len(live) < cap: ins()
                elif not up and live: dele()
            if rng.random() < 0.3 and live: upd()
            ops.append(dict(o="w")); written += 1; look()
        while len(live) > k0: dele()
        while len(live) < k0: ins()
        ops.append(dict(o="w"))
    else:
        written = 0
        while written < nwr:
            for _ in range(rng.randrange(0, 4)):
                r = rng.random()
                if r < 0.35 and len(live) < cap: ins()
                elif r < 0.6 and live: dele()
                elif r < 0.75 and live: upd()
                elif r < 0.85: ops.append(dict(o="i", n=rng.choice(pool).hex(), v=gen_value(rng)))     # maybe refused
                else: look()
            k = rng.choices("wrpP", [60, 15, 12, 13])[0]
            ops.append(dict(o=k)); written += k == "w"
    if rng.random() < 0.4:
        ops.append(dict(o=rng.choice("rwp")))
    if rng.random() < 0.3 and live:
        dele()                                      # ends dirty: the final WriteAt of the harness is then the check
    case = dict(ns=ns, mode=mode, thr=rng.choice([0, 10, 50, 200, 500]), delay=rng.random() < 0.3,
                osz=rng.choice([8, 8, 4, 2]), ops=ops)
    if not addr_ok(case):
        case["osz"] = 8
    return case


def gen_write_exhaustive(inits=(0, 1, 2), depth=4):
    """ALL histories of length `depth` over {insert a, insert b, delete a, delete b, w} on a handle loaded with
    0 / 1 / 2 records ({} / {a} / {a, b}); shorter histories are prefixes (every w is checked when it happens)."""
    a, b = b"a".hex(), b"b".hex()
    alpha = [dict(o="i", n=a, v=5), dict(o="i", n=b, v=6), dict(o="d", n=a), dict(o="d", n=b), dict(o="w")]
    pre = {0: [], 1: [dict(o="i", n=a, v=1)], 2: [dict(o="i", n=a, v=1), dict(o="i", n=b, v=2)],
           3: [dict(o="i", n=b"c".hex(), v=3)]}
    frontier = [[]]
    for _ in range(depth):
        frontier = [h + [x] for h in frontier for x in alpha]
    modes = ["off", "immediate", "lazy", "incremental"]
    cases, k = [], 0
    for init in inits:
        for h in frontier:
            cases.append(dict(ns=[43, 54, 64][k % 3], mode=modes[k % 4], thr=50, delay=(k // 4) % 2 == 1, osz=8,
                              ops=pre[init] + [dict(o="p")] + h))
            k += 1
    return cases


def gen_hash_keys(rng, tier):
    keys = [b""] + [bytes([x]) for x in range(256)]
    if tier == "thorough":
        keys += [bytes([x, y]) for x in range(256) for y in range(256)]
    else:
        keys += [bytes([rng.randrange(256), rng.randrange(256)]) for _ in range(3000)]
        keys += [bytes([x, y]) for x in (0, 1, 0x7F, 0x80, 0xFF) for y in range(256)]
    for ln in range(0, 65):
        keys += [bytes(ln), b"\xff" * ln, b"\x80" * ln, bytes(range(ln))]
        keys += [bytes(rng.randrange(256) for _ in range(ln)) for _ in range(6 if tier == "quick" else 200)]
    for ln in list(range(72, 400, 12)) + [71, 73, 119, 121, 255, 256, 257, 1000, 1199, 1200, 1201]:
        keys += [bytes(ln), b"\xff" * ln] + [bytes(rng.randrange(256) for _ in range(ln)) for _ in range(2)]
    keys += [b"Four score and seven years ago", b"attr_23538", b"attr_196532", b"ayou", b"cpxv"]
    if tier == "thorough":
        keys += [bytes(rng.randrange(256) for _ in range(rng.randrange(0, 65))) for _ in range(200000)]
    return keys


# ------------------------------------------------------------------ Coq case printing
MODE_N = {"off": 0, "immediate": 1, "lazy": 2, "incremental": 3}


def coq_case(case, g, exp):
    pool, idx = [], {}
    ops = []
    for o in case["ops"]:
        n = o.get("n", "")
        if o["o"] in NONAME:
            ops.append("(%d,0,0)" % OPC[o["o"]])
            continue
        if n not in idx:
            idx[n] = len(pool); pool.append(n)
        ops.append("(%d,%d,%d)" % (OPC[o["o"]], idx[n], o.get("v", 0)))
    st = g["state"]
    recs = ";".join("(%d,%d)" % (h, int.from_bytes(i + b"", "little")) for h, i in recs_of(st["recs"]))
    lazy = "(Some (%d,%d))" % tuple(st["lazy"]) if "lazy" in st else "None"
    filef = '(Some "%s")' % g["file"] if "file" in g and len(g["file"]) <= 3000 else "None"
    codes = go_codes(g["res"])
    if any(c < 0 for c in codes):
        codes = [c if c >= 0 else 0 for c in codes]
    return ("mkCase %d %d %s %d %d [%s] [%s] [%s] [%s] [%s] %s %d %d %d (%d,%d) %d \"%s\" \"%s\" %s \"%s\" %s" % (
        MODE_N[case["mode"]], case["thr"], vlib.cbool(case["delay"]), case.get("osz", 8), case["ns"],
        ";".join('"%s"' % p for p in pool), ";".join(ops), ";".join(map(str, codes)), ";".join(map(str, exp)), recs,
        vlib.cbool(st["leafrecs"] == st["recs"]), st["nroot"], st["total"], st["nodesize"],
        st["loaded"][0], st["loaded"][1], g["next"], st["hdr"], st["leaf"], filef, g.get("final_file", ""), lazy))


HDR = "From HV Require Import Base.Prelude Model.BT2 Model.BT2Tie.\nOpen Scope string_scope.\n"


JOB_TIMES = {}


def coq_hist_codes(items, name):
    """items: list of coq_case strings -> list of codes (one coqc process)."""
    t = time.time()
    try:
        return _coq_hist_codes(items, name)
    finally:
        JOB_TIMES[name] = round(time.time() - t, 1)


def _coq_hist_codes(items, name):
    v = HDR + "Definition cs : list hcase := [\n%s].\nDefinition CODES := Eval vm_compute in map hist_code cs.\nPrint CODES.\n" % ";\n".join(items)
    return vlib.parse_nlist(vlib.coq_eval(v, name), "CODES")


def parallel_coq(jobs, workers=14):
    """jobs: list of (fn, args) -> results in order."""
    with cf.ThreadPoolExecutor(workers) as ex:
        futs = [ex.submit(fn, *args) for fn, args in jobs]
        return [f.result() for f in futs]


def chunk_by_cost(cases, cost, budget):
    out, cur, c = [], [], 0
    for x, k in zip(cases, cost):
        if cur and c + k > budget:
            out.append(cur); cur, c = [], 0
        cur.append(x); c += k
    if cur: out.append(cur)
    return out


# ------------------------------------------------------------------ shrinking
def shrink(H, case, pred, limit=250):
    """Greedy removal of operations while pred(case, go-result) stays true."""
    ops = list(case["ops"])
    runs = 0
    chunk = max(1, len(ops) // 2)
    while chunk >= 1 and runs < limit:
        i, changed = 0, False
        while i < len(ops) and runs < limit:
            trial = ops[:i] + ops[i + chunk:]
            c2 = dict(case, ops=trial)
            runs += 1
            try:
                g = vlib.run_harness(H, "c14", [c2])[0]
                ok = pred(c2, g)
            except Exception:
                ok = False
            if ok:
                ops, changed = trial, True
            else:
                i += chunk
        if chunk == 1 and not changed: break
        chunk = max(1, chunk // 2) if chunk > 1 else (1 if changed else 0)
    return dict(case, ops=ops)


# ------------------------------------------------------------------ replay of one stored case
def replay(ctx, path=None):
    """check.py --replay: returns the list of violations reproduced (empty list = the stored case passes now)."""
    H = ctx.harness
    r = json.load(open(path or ctx.replay))
    d = r.get("detail", {})
    case = d.get("failing_input") or d.get("case") or {}
    viol = []
    if "ops" in case:
        case = dict(dict(thr=50, delay=False, osz=8), **case)
        g = vlib.run_harness(H, "c14", [case])[0]
        bad = spec_check(case, g)
        exp = oracle_run(case)[0]
        code = coq_hist_codes([coq_case(case, g, exp)], "c14replay")[0] if "state" in g else -1
        print("replay: history of %d operations, node size %s, mode %s" % (len(case["ops"]), case["ns"], case["mode"]))
        print("  implementation results :", g.get("res"))
        print("  image after each write :", g.get("img"), "minimal reader:", g.get("rawimg"), g.get("img_detail") or "")
        print("  image at the end       :", g.get("end_img"), "after one more WriteAt:", g.get("endw_img"))
        print("  map oracle result codes:", exp)
        print("  implementation records :", g.get("state", {}).get("recs"), "nroot/total:", g.get("state", {}).get("nroot"), g.get("state", {}).get("total"))
        print("  specification verdict  :", bad or "holds")
        print("  Coq model agreement code (0 = all observables equal):", code)
        if bad:
            viol.append(dict(what="B-tree v2 index violates the map specification: " + bad[0], failing_input=case, all_violations=bad))
        elif code & ~128:
            viol.append(dict(what="implementation and Coq model disagree (code %d)" % code, case=case, nofail=True,
                             correspondence="Model.BT2.run vs WritableBTreeV2"))
    elif "key_hex" in case:
        k = bytes.fromhex(case["key_hex"])
        h = vlib.run_harness(H, "c14hash", [{"keys": [k.hex()]}])[0]["h"][0]
        print("replay: hash of %s: implementation 0x%08x, lookup3 0x%08x" % (k.hex(), h, lookup3(k)))
        if h != lookup3(k):
            viol.append(dict(what="name hash differs from lookup3", failing_input=case))
    elif "file" in case:
        lr = vlib.run_harness(H, "c14load", [case])[0]
        dd = dec_file(bytes.fromhex(case["file"]), case["addr"], case.get("osz", 8))
        print("replay: LoadFromFile ->", "ok" if lr.get("ok") else lr.get("err"), "; format decoder ->", dd[0], dd[1] if dd[0] == "err" else "")
        if (dd[0] == "ok") != bool(lr.get("ok")):
            viol.append(dict(what="LoadFromFile verdict differs from the format", failing_input=case))
    else:
        print("replay: no case found in", ctx.replay)
    for v in viol:
        print("VIOLATION (replayed):", v["what"])
    return viol


# ------------------------------------------------------------------ the check
def run(ctx):
    if getattr(ctx, "replay", None):
        v = replay(ctx)
        return dict(violations=v, known=[], coverage=dict(evaluations=1, distinct_nontrivial=1, rule="replay of one stored case", samples=[]))
    H, rng, tier = ctx.harness, ctx.rng, ctx.tier
    viol, known = [], []
    t0 = time.time()
    dist = dict(modes={}, node_sizes={}, ops={}, results={}, lengths=[], capacity_refusals=0, duplicate_refusals=0,
                update_hit=0, update_miss=0, delete_hit=0, delete_miss=0, search_hit=0, search_miss=0,
                stores=0, rewrites=0, rewrite_refused=0, max_records_seen=0, full_nodes=0,
                writes_in_place=0, write_in_place_refused=0, stores_same_object=0,
                image_checks=0, end_image_checks=0, final_writeat_checks=0,
                handles_written_in_place_twice_or_more=0, max_writes_in_place_on_one_handle=0,
                writes_with_count_back_at_loaded_count=0, update_only_rewrites=0)

    # ---------------------------------------------------------------- hash
    keys = gen_hash_keys(rng, tier)
    hs = []
    for i in range(0, len(keys), 20000):
        hs += vlib.run_harness(H, "c14hash", [{"keys": [k.hex() for k in keys[i:i + 20000]]}])[0]["h"]
    hash_bad = [(k, h) for k, h in zip(keys, hs) if lookup3(k) != h]
    for k, h in hash_bad[:3]:
        viol.append(dict(what="name hash of %d-byte key %s is 0x%08x, lookup3 hashlittle gives 0x%08x" % (len(k), k.hex()[:80], h, lookup3(k)),
                         failing_input=dict(key_hex=k.hex(), impl_hash=h, lookup3=lookup3(k))))
    # subset for Coq: everything short, a sample of the rest
    pick = [i for i, k in enumerate(keys) if len(k) <= 1 or len(k) >= 12]
    two = [i for i, k in enumerate(keys) if len(k) == 2]
    rest = [i for i, k in enumerate(keys) if 2 < len(k) < 12]
    if tier == "quick":
        pick = [i for i in pick if len(keys[i]) <= 70 or rng.random() < 0.5]
        pick = rng.sample(pick, min(len(pick), 900)) + rng.sample(two, 250) + rng.sample(rest, min(len(rest), 150))
        pick += [i for i, k in enumerate(keys) if len(k) % 12 == 0 and len(k) <= 48][:60]
    else:
        pick = rng.sample(pick, min(len(pick), 20000)) + two + rest
    pick = sorted(set(pick))
    hash_jobs = []
    for j in range(0, len(pick), 1500):
        sub = pick[j:j + 1500]
        v = HDR + "Definition hc : list (string * N) := [%s].\nDefinition BAD := Eval vm_compute in mismatches hash_ok hc.\nPrint BAD.\n" % (
            ";".join('("%s",%d)' % (keys[i].hex(), hs[i]) for i in sub))
        hash_jobs.append((lambda v, j: vlib.parse_nlist(vlib.coq_eval(v, "c14hash_%d" % j), "BAD"), (v, j)))

    # ---------------------------------------------------------------- histories: generate
    cases = []
    kf_pairs = json.load(open(os.path.join(vlib.VERIF, "corpus", "C14", "collision.json")))["pairs"]
    nsmall, nmed, nbig = (400, 40, 6) if tier == "quick" else (4000, 250, 32)
    for _ in range(nsmall):
        ns = rng.choice(NODE_SMALL + [rng.randrange(10, 140), 0 if rng.random() < 0.03 else rng.randrange(10, 60)])
        cap = capacity(ns)
        ps = max(1, min(cap + rng.randrange(0, 4), 14)) if ns else 6
        cases.append(gen_history(rng, ns, rng.randrange(4, 70), ps))
    for _ in range(nmed):
        ns = rng.choice(NODE_MED)
        cap = capacity(ns)
        cases.append(gen_history(rng, ns, cap + rng.randrange(20, 120), cap + rng.randrange(2, 12), fill_first=rng.choice([0, cap - 2, cap + 3])))
    for j in range(nbig):
        ns = [4096, 0, 4096, 4097][j % 4]
        cases.append(gen_history(rng, ns, 450, 371 + rng.choice([2, 9, 30]), fill_first=[365, 375, 0, 371][j % 4],
                                 weights=dict(i=40, u=12, s=12, h=8, d=22, p=3, r=3)))
    # one loaded handle written in place several times (no reload between the writes)
    kinds = ["updown", "downup", "updates", "zigzag", "mixed", "mixed"]
    nstreak = 240 if tier == "quick" else 3000
    for j in range(nstreak):
        ns = 4096 if j % 97 == 96 else NODE_STREAK[(j // 24) % len(NODE_STREAK)] if tier == "quick" else rng.choice(NODE_STREAK)
        cases.append(gen_write_streak(rng, ns, ["off", "immediate", "lazy", "incremental"][j % 4], kinds[(j // 4) % 6]))
    ngen = len(cases)
    enum = gen_enumerated(3 if tier == "quick" else 4)
    cases += enum
    wex = gen_write_exhaustive((0, 1, 2) if tier == "quick" else (0, 1, 2, 3), 4)
    wex_first = len(cases)
    cases += wex
    # quick tier: every one of them is run and judged by the specification; the Coq model is evaluated on those
    # with two or more writes and a sample of the rest
    wex_in_coq = set(i for i, c in enumerate(wex) if tier != "quick" or sum(o["o"] == "w" for o in c["ops"]) >= 2 or rng.random() < 0.12)
    # corpus: shrunk cases from earlier findings (run first in the report, same treatment)
    cdir = os.path.join(vlib.VERIF, "corpus", "C14")
    corpus = []
    for fn in sorted(os.listdir(cdir)):
        if fn.startswith("case-") and fn.endswith(".json"):
            corpus.append(json.load(open(os.path.join(cdir, fn)))["case"])
    cases = corpus + cases
    wex_first += len(corpus)

    # ---------------------------------------------------------------- run Go
    gos = vlib.run_harness_parallel(H, "c14", cases)
    t_go = time.time() - t0

    # ---------------------------------------------------------------- judge by the specification
    coq_items, coq_cost, coq_idx = [], [], []
    skipped_collision = 0
    nops = 0
    distinct = set()
    for ci, (case, g) in enumerate(zip(cases, gos)):
        names = [bytes.fromhex(o["n"]) for o in case["ops"] if "n" in o]
        if pool_collides(names):
            skipped_collision += 1      # known-finding class; re-confirmed separately below
            continue
        nops += len(case["ops"])
        distinct.add(hashlib.sha256(json.dumps(case, sort_keys=True).encode()).hexdigest())
        bad = spec_check(case, g)
        if bad:
            def pred(c2, g2):
                return bool(spec_check(c2, g2)) and not pool_collides([bytes.fromhex(o["n"]) for o in c2["ops"] if "n" in o])
            small = shrink(H, case, pred) if len(viol) < 2 else case
            g2 = vlib.run_harness(H, "c14", [small])[0]
            viol.append(dict(what="B-tree v2 index violates the map specification: " + (spec_check(small, g2) or bad)[0],
                             failing_input=small, all_violations=spec_check(small, g2) or bad,
                             impl=dict(res=g2.get("res"), img=g2.get("img"), rawimg=g2.get("rawimg"), img_detail=g2.get("img_detail"),
                                       end_img=g2.get("end_img"), endw_img=g2.get("endw_img"), state={k: v for k, v in g2.get("state", {}).items() if k not in ("hdr", "leaf")} if "state" in g2 else g2,
                                       errs=g2.get("errs")),
                             spec=dict(expected_result_codes=oracle_run(small)[0])))
            if len(viol) >= 6: break
            continue
        info_c = {}
        exp, m = oracle_run(case, info_c)
        hload, hwrites, hdiff, hdirty = 0, 0, False, set()
        # statistics (only meaningful when the implementation agrees with the map)
        dist["modes"][case["mode"]] = dist["modes"].get(case["mode"], 0) + 1
        dist["node_sizes"][str(case["ns"])] = dist["node_sizes"].get(str(case["ns"]), 0) + 1
        if ci >= len(corpus) and ci < len(corpus) + ngen: dist["lengths"].append(len(case["ops"]))
        live, cap = set(), capacity(case["ns"])
        for o, e in zip(case["ops"], exp):
            dist["ops"][o["o"]] = dist["ops"].get(o["o"], 0) + 1
            n = o.get("n")
            if o["o"] == "i":
                if e == 0:
                    if n in live: dist["duplicate_refusals"] += 1
                    else: dist["capacity_refusals"] += 1
                else:
                    live.add(n)
                    if len(live) == cap: dist["full_nodes"] += 1
            elif o["o"] == "u": dist["update_hit" if e else "update_miss"] += 1
            elif o["o"] == "d":
                dist["delete_hit" if e else "delete_miss"] += 1
                live.discard(n)
            elif o["o"] == "s": dist["search_hit" if e != 2 else "search_miss"] += 1
            elif o["o"] == "p": dist["stores"] += 1
            elif o["o"] == "r": dist["rewrites" if e else "rewrite_refused"] += 1
            elif o["o"] == "w": dist["writes_in_place" if e else "write_in_place_refused"] += 1
            elif o["o"] == "P": dist["stores_same_object"] += 1
            dist["max_records_seen"] = max(dist["max_records_seen"], len(live))
            # handle statistics: writes in place on one loaded object
            if e == 1 and o["o"] in "iud": hdirty.add(o["o"])
            if e == 1 and o["o"] in "pr":
                hload, hwrites, hdiff = len(live), 0, False
                hdirty.clear()
            if e == 1 and o["o"] == "w":
                hwrites += 1
                if hwrites == 2: dist["handles_written_in_place_twice_or_more"] += 1
                dist["max_writes_in_place_on_one_handle"] = max(dist["max_writes_in_place_on_one_handle"], hwrites)
                if len(live) != hload: hdiff = True
                elif hdiff: dist["writes_with_count_back_at_loaded_count"] += 1
                if hdirty == {"u"}: dist["update_only_rewrites"] += 1
                hdirty.clear()
        dist["image_checks"] += sum(1 for x in (g.get("img") or []) if x)
        dist["end_image_checks"] += 1 if "end_img" in g and info_c["clean"] else 0
        dist["final_writeat_checks"] += 1 if "endw_img" in g else 0
        if wex_first <= ci < wex_first + len(wex) and (ci - wex_first) not in wex_in_coq:
            continue                        # judged by the specification above; not sent to the Coq model in this tier
        coq_items.append(coq_case(case, g, exp))
        # measured: ~63 us per character of the literal (elaboration), ~(1.8 + 0.02*capacity) ms per operation
        coq_cost.append(63 * len(coq_items[-1]) + len(case["ops"]) * (1800 + 20 * min(capacity(case["ns"]), 400)))
        coq_idx.append(ci)

    # ---------------------------------------------------------------- corrupted / truncated images
    load_cases, load_meta = [], []
    donors = [(c, g) for c, g in zip(cases, gos) if "final_file" in g and len(g["final_file"]) < 3000 and g["state"]["recs"]]
    rng.shuffle(donors)
    for c, g in donors[:(60 if tier == "quick" else 1500)]:
        data = bytearray.fromhex(g["final_file"])
        osz, addr = c.get("osz", 8), g["final_addr"]
        for kind in ("flip", "flip", "trunc", "intact"):
            d2 = bytearray(data)
            if kind == "flip":
                pos = rng.choice([rng.randrange(64, len(d2)), rng.randrange(addr, len(d2)), rng.randrange(64, 64 + len(g["state"]["leaf"]) // 2)])
                d2[pos] ^= 1 << rng.randrange(8)
            elif kind == "trunc":
                d2 = d2[:rng.randrange(addr, len(d2))]
            load_cases.append(dict(file=bytes(d2).hex(), addr=addr, osz=osz, ns=c["ns"]))
            load_meta.append((kind, c["ns"]))
    load_res = vlib.run_harness(H, "c14load", load_cases) if load_cases else []
    load_items = []
    load_stats = dict(total=len(load_cases), rejected=0, accepted=0)
    for lc, lr, meta in zip(load_cases, load_res, load_meta):
        d = dec_file(bytes.fromhex(lc["file"]), lc["addr"], lc["osz"])
        ok = bool(lr.get("ok"))
        load_stats["accepted" if ok else "rejected"] += 1
        grecs = recs_of(lr["state"]["recs"]) if ok else []
        if (d[0] == "ok") != ok or (ok and d[1] != grecs):
            viol.append(dict(what="LoadFromFile on a %s image: implementation %s, the format (signature, version, type 5, depth 0, CRC-32) says %s" % (
                meta[0], "accepts" if ok else "rejects (%s)" % lr.get("err"), d[0] if d[0] == "ok" else "reject (%s)" % d[1]),
                failing_input=lc, impl=lr.get("err") or "ok"))
        load_items.append('(%d,%d,"%s",%d,%s,[%s])' % (lc["osz"], lc["ns"], lc["file"], lc["addr"], vlib.cbool(ok),
                                                         ";".join("(%d,%d)" % (h, int.from_bytes(i, "little")) for h, i in grecs)))

    # ---------------------------------------------------------------- Coq: model on the same inputs
    # jobs of bounded cost (one coqc process each, <= ~12 s), longest-processing-time first
    order = sorted(range(len(coq_items)), key=lambda i: -coq_cost[i])
    total_cost = sum(coq_cost)
    nbins = 14 if total_cost <= 14 * 25e6 else int(total_cost / 12e6) + 1
    bins = [[] for _ in range(nbins)]
    loads = [0] * nbins
    for i in order:
        b = loads.index(min(loads))
        bins[b].append(i); loads[b] += coq_cost[i]
    jobs = list(hash_jobs)
    for b, ids in enumerate(bins):
        if ids:
            jobs.append((coq_hist_codes, ([coq_items[i] for i in ids], "c14hist_%d" % b)))
    if load_items:
        v = HDR + "Definition lc := [%s].\nDefinition BAD := Eval vm_compute in mismatches load_ok lc.\nPrint BAD.\n" % ";\n".join(load_items)
        jobs.append((lambda v: vlib.parse_nlist(vlib.coq_eval(v, "c14load"), "BAD"), (v,)))
    t1 = time.time()
    results = parallel_coq(jobs)
    t_coq = time.time() - t1
    # hash results
    for (fn, (v, j)), bad in zip(hash_jobs, results[:len(hash_jobs)]):
        for bi in bad[:2]:
            i = pick[j + bi]
            v_ = dict(what="Go jenkinsHash, Model.jenkins and Spec.hashlittle disagree on %d-byte key %s" % (len(keys[i]), keys[i].hex()[:80]),
                      case=dict(key_hex=keys[i].hex(), impl_hash=hs[i], lookup3=lookup3(keys[i])))
            if lookup3(keys[i]) != hs[i]:
                v_["failing_input"] = v_["case"]
            else:
                v_["nofail"] = True
                v_["correspondence"] = "Model.BT2.jenkins vs jenkinsHash (theorem C14_hash_eq_lookup3)"
            viol.append(v_)
    # history results
    r = len(hash_jobs)
    model_diag = dict(lazy_counter_mismatch=0)
    for b, ids in enumerate(bins):
        if not ids: continue
        codes = results[r]; r += 1
        for i, code in zip(ids, codes):
            if code & 128:
                model_diag["lazy_counter_mismatch"] += 1      # diagnostic only (wall-clock dependent)
                code &= ~128
            if code & 512:
                raise RuntimeError("Python map oracle and Coq specification disagree on case %s" % json.dumps(cases[coq_idx[i]])[:3000])
            if code:
                case = cases[coq_idx[i]]
                comp = [n for bit_, n in ((1, "results"), (2, "records"), (4, "counts/leaf view/node size"), (8, "header bytes"), (16, "leaf bytes"),
                                          (32, "file bytes"), (64, "final image"), (256, "loaded addresses/allocator")) if code & bit_]
                def pred(c2, g2, comp=comp):
                    if spec_check(c2, g2) or pool_collides([bytes.fromhex(o["n"]) for o in c2["ops"] if "n" in o]): return False
                    try:
                        return coq_hist_codes([coq_case(c2, g2, oracle_run(c2)[0])], "c14shrink")[0] & ~128 != 0
                    except Exception:
                        return False
                small = shrink(H, case, pred, limit=60) if len(viol) < 2 else case
                viol.append(dict(what="implementation and Coq model disagree on %s (the map specification holds on this history)" % ", ".join(comp),
                                 case=small, code=code, nofail=True,
                                 correspondence="Model.BT2.run vs WritableBTreeV2 (theorems C14_refines_map / C14_sorted_counts / C14_persist rest on this model)",
                                 impl=vlib.run_harness(H, "c14", [small])[0]))
                if len(viol) >= 6: break
    if load_items:
        for bi in results[-1][:3]:
            viol.append(dict(what="LoadFromFile and Model.load_from disagree on a %s image" % load_meta[bi][0], case=load_cases[bi],
                             impl=load_res[bi].get("err") or "ok", nofail=True, correspondence="Model.BT2.load_from vs LoadFromFile (theorem C14_persist)"))

    # ---------------------------------------------------------------- known finding: colliding names
    kf = [k for k in vlib.known_findings("C14") if k["id"] == KF_ID]
    confirmed = 0
    kf_detail = []
    for p in kf_pairs:
        a, b = p["a"].encode(), p["b"].encode()
        if a == b or lookup3(a) != lookup3(b) or lookup3(a) != p["hash"]:
            raise RuntimeError("corpus/C14/collision.json: %r is not a collision under the independent lookup3" % (p,))
        case = dict(ns=4096, mode="immediate", thr=50, delay=False, osz=8,
                    ops=[dict(o="i", n=a.hex(), v=1), dict(o="h", n=b.hex()), dict(o="s", n=b.hex()), dict(o="u", n=b.hex(), v=2),
                         dict(o="s", n=a.hex()), dict(o="d", n=b.hex()), dict(o="h", n=a.hex())])
        g = vlib.run_harness(H, "c14", [case])[0]
        exp = oracle_run(case)[0]
        got = go_codes(g.get("res", []))
        if got != exp:
            confirmed += 1
            kf_detail.append(dict(pair=[p["a"], p["b"]], impl_codes=got, map_codes=exp))
    if confirmed:
        line = ("%s: %d/%d stored colliding pairs still confused, e.g. after insert(%r): has(%r)=true, update(%r) overwrites %r, delete(%r) removes %r"
                % (KF_ID, confirmed, len(kf_pairs), kf_pairs[0]["a"], kf_pairs[0]["b"], kf_pairs[0]["b"], kf_pairs[0]["a"], kf_pairs[0]["b"], kf_pairs[0]["a"]))
        if kf:
            known.append(line)
        else:
            viol.append(dict(what="distinct names with equal hash are confused (has/search/update/delete match on the hash only) and the finding is not listed in KNOWN_FINDINGS.json",
                             failing_input=dict(ns=4096, mode="immediate", ops=[dict(o="i", n=kf_pairs[0]["a"].encode().hex(), v=1), dict(o="h", n=kf_pairs[0]["b"].encode().hex())]),
                             detail=kf_detail))
    elif kf:
        known.append("%s: listed finding no longer reproduces (0/%d pairs confused) - the entry can be closed" % (KF_ID, len(kf_pairs)))

    lens = sorted(dist.pop("lengths")) or [0]
    cov = dict(
        evaluations=nops + len(keys) + len(load_cases),
        distinct_nontrivial=len(distinct) + len(set(keys)),
        rule="a history counts once per distinct (node size, mode, operation list); it is non-trivial because every history performs at least one insert/update/delete/store "
             "and its per-operation results, final records, counts, bytes and reload are all compared; hash inputs count once per distinct byte string",
        histories=dict(total=len(distinct), evaluated_by_the_coq_model=len(coq_items), generated=ngen, of_which_in_place_write_streaks=nstreak,
                       enumerated=len(enum), enumerated_in_place_writes=len(wex), enumerated_in_place_writes_in_coq=len(wex_in_coq),
                       corpus=len(corpus), operations=nops,
                       length_min=lens[0], length_median=lens[len(lens) // 2], length_max=lens[-1],
                       skipped_because_names_collide=skipped_collision, **dist),
        hash=dict(keys=len(keys), distinct=len(set(keys)), compared_with_python_lookup3=len(keys), evaluated_in_coq=len(pick),
                  by_length={str(l): sum(1 for k in keys if len(k) == l) for l in (0, 1, 2, 11, 12, 13, 24, 36, 48, 60, 64)},
                  multiples_of_12=sum(1 for k in keys if len(k) % 12 == 0), mismatches=len(hash_bad)),
        load=dict(load_stats, evaluated_in_coq=len(load_items)),
        known_finding=dict(pairs=len(kf_pairs), confused=confirmed, detail=kf_detail[:1]),
        fidelity=model_diag,
        samples=[dict(case=dict(cases[coq_idx[i]], ops=cases[coq_idx[i]]["ops"][:6]), res=gos[coq_idx[i]]["res"][:6]) for i in range(min(3, len(coq_idx)))],
        programs=len(coq_items), disagreements_checked=len(coq_items) + len(pick) + len(load_items),
        model_evaluations_in_coq=len(coq_items) + len(pick) + len(load_items),
        timing=dict(go_s=round(t_go, 1), coq_s=round(t_coq, 1), coq_jobs=len(JOB_TIMES), coq_job_max_s=max(JOB_TIMES.values() or [0]),
                    coq_cpu_estimate_s=round(total_cost / 1e6, 1), coq_job_times_s=sorted(JOB_TIMES.values())),
        exhaustive=False)
    return dict(violations=viol, known=known, coverage=cov)
