"""C05, specification tie: the Coq specification decoders (coq/theories/Spec/Format*.v) against the independent
Python decoder (tools/h5spec.py) on the structures of real files.

RecWalker is h5spec.Walker with every structure-level decoding step recorded: (kind, context, bytes, the
deviation tags Python raised while decoding exactly these bytes, the logical fields Python decoded).  Nothing in the
Python decoder's behaviour changes (the methods are wrapped, not replaced).

coq_check(structs) evaluates, for every (sampled) structure, Model.SpecTie.case_code: the tolerant Coq decoder must
accept with exactly Python's tag set and fields, the strict Coq decoder must accept iff the tag set is empty.
"""
import collections, concurrent.futures as cf, re
import vlib, h5spec

# tag -> code (Spec/Parse.v tag_code)
TAGS = {"sb-crc32": 1, "ohdr-no-checksum": 2, "fixed-props-malformed": 3, "float-props-malformed": 4, "float64-bias-127": 5,
        "string-extra-prop-byte": 6, "pipeline-v2-with-v1-layout": 7, "refcount-msg-no-version": 8, "extlink-value-layout": 9,
        "fheap-hdr-crc32": 10, "fheap-addr-0-not-undef": 11, "fhdb-trailing-crc32": 12, "btree2-crc32": 13, "gcol-free-size": 14,
        "btree1-node-over-capacity": 15, "snod-over-capacity": 16, "heap-name-offset-0": 17, "attrinfo-type-0x0f": 18,
        "dataset-no-fillvalue-msg": 19, "softlink-stored-as-object": 20, "chunk-dims-no-elem-dim": 21, "chunk-btree-addr-0": 22,
        "compound-v3-layout": 23, "enum-v3-layout": 24}
TAGNAME = {v: k for k, v in TAGS.items()}

# kind -> (code in Model/SpecTie.v obs, tags decidable from the bytes of one structure of that kind)
KINDS = {
    "superblock": (1, {"sb-crc32"}),
    "ohdr1": (2, set()),
    "ohdr1-cont": (3, set()),
    "ohdr2": (4, {"ohdr-no-checksum"}),
    "msg-dataspace": (5, set()),
    "msg-datatype": (6, {"fixed-props-malformed", "float-props-malformed", "float64-bias-127", "string-extra-prop-byte",
                         "compound-v3-layout", "enum-v3-layout"}),
    "msg-layout": (7, set()),
    "msg-pipeline": (8, {"pipeline-v2-with-v1-layout"}),
    "msg-attribute": (9, {"fixed-props-malformed", "float-props-malformed", "float64-bias-127", "string-extra-prop-byte",
                          "compound-v3-layout", "enum-v3-layout"}),
    "msg-attrinfo": (10, set()),
    "msg-link": (11, {"extlink-value-layout"}),
    "msg-symtab": (12, set()),
    "msg-refcount": (13, {"refcount-msg-no-version"}),
    "msg-fillvalue": (14, set()),
    "lheap-hdr": (15, set()),
    "btree1": (16, {"btree1-node-over-capacity"}),
    "snod": (17, {"snod-over-capacity", "heap-name-offset-0"}),
    "gcol": (18, {"gcol-free-size"}),
    "fheap-hdr": (19, {"fheap-hdr-crc32", "fheap-addr-0-not-undef"}),
    "fheap-dblock": (20, {"fhdb-trailing-crc32"}),
    "btree2-hdr": (21, {"btree2-crc32"}),
    "btree2-leaf": (22, {"btree2-crc32"}),
    "ohdr2-cont": (23, {"ohdr-no-checksum"}),
    "msg-mtime": (24, set()),
    "msg-cont": (25, set()),
}


# ----------------------------------------------------------------------------- val literals

def VN(n):
    return "VN %d" % n

_RAW = [b""]       # the bytes of the structure whose expected value is being printed (see resolve in Model/SpecTie.v)

def VB(b):
    b = bytes(b)
    if len(b) >= 6:
        i = _RAW[0].find(b)
        if i >= 0:
            return "VL [VB []; VL []; VN %d; VN %d]" % (i, len(b))          # = the slice [i, i+len) of the structure's bytes
    return 'VB (unhex "%s")' % b.hex() if len(b) else "VB []"

def VL(xs):
    return "VL [" + "; ".join(xs) + "]"

def VOPT(x):
    return VL([]) if x is None else VL([x])

def VNL(xs):
    return VL([VN(x) for x in xs])

def VBOOL(b):
    return VN(1 if b else 0)


def v_dtype(t, tags, raw):
    """the projection Model.SpecTie.v_dtype prints, from the Python decoder's dict"""
    c, s = t["cls"], t["size"]
    if c == 0:
        prec = 8 * s if t.get("malformed", "fixed-props-malformed" in tags) else t["precision"]
        return VL([VN(0), VN(s), VBOOL(t["signed"]), VN(1 if t["order"] == "BE" else 0), VN(prec)])
    if c == 1:
        return VL([VN(1), VN(s), VN(1 if t["order"] == "BE" else 0)])
    if c == 3:
        return VL([VN(3), VN(s), VN(t["pad"]), VN(t["cset"])])
    if c == 5:
        tl = t["bits"] & 0xFF
        return VL([VN(5), VN(s), VB(t["tagraw"] if "tagraw" in t else raw[8:8 + tl])])
    if c == 6:
        return VL([VN(6), VN(s), VL([VL([VB(m["name"]), VN(m["off"]), v_dtype(m["dt"], tags, b"")]) for m in t["members"]])])
    if c == 8:
        return VL([VN(8), VN(s), v_dtype(t["base"], tags, b""), VL([VL([VB(nm), VB(v)]) for nm, v in t["emembers"]])])
    if c == 10:
        return VL([VN(10), VN(s), VNL(t["adims"]), v_dtype(t["base"], tags, b"")])
    if c == 7:
        return VL([VN(7), VN(s), VN(t["bits"])])
    if c == 9:
        return VL([VN(9), VN(s), VN(1 if t["vlen"] == "string" else 0), v_dtype(t["base"], tags, raw[8:])])
    raise KeyError(c)


# ----------------------------------------------------------------------------- recording walker

class RecWalker(h5spec.Walker):
    def __init__(self, data):
        super().__init__(data)
        self.structs = []
        self.probe = False      # reference files: also decode every message of every framed header (the Python walker stops at the
                                # first message type it does not implement, before it looks at the others)
        self._pad = 0

    def rec(self, kind, ctx, raw, dev0, fields, where="", tags=None):
        code, mine = KINDS[kind]
        if tags is None:
            tags = {t for t, _, _ in self.dev[dev0:]}
        if isinstance(tags, list):
            tags = [t for t in tags if t in mine]      # datatypes: the deviations in the order met, one per nested description (as the Coq decoder lists them)
        else:
            tags = sorted(set(tags) & mine, key=lambda t: TAGS[t])
        self.structs.append(dict(kind=kind, ctx=[int(x) for x in ctx], bytes=bytes(raw), tags=tags, fields=fields, where=str(where)[:80]))

    def rej(self, kind, ctx, raw, e, where=""):
        self.structs.append(dict(kind=kind, ctx=[int(x) for x in ctx], bytes=bytes(raw), tags=[], fields=None, reject=True, error=str(e)[:300],
                                 where=str(where)[:80]))

    def wrapped(self, kind, ctx, raw, where, call, fields):
        """run the Python decoder's own method; record what it decided about exactly these bytes"""
        d0 = len(self.dev)
        try:
            res = call()
        except h5spec.SpecError as e:
            self.rej(kind, ctx, raw, e, where)
            raise
        tags = {t for t, _, _ in self.dev[d0:]}
        tl = [t for t, _, _ in self.dev[d0:]] if kind in ("msg-datatype", "msg-attribute") else tags
        self.rec(kind, ctx, raw, d0, (lambda: fields(res, tags)), where, tags=tl)      # fields are built only for sampled structures
        return res

    # -- level 0
    def superblock(self):
        d0 = len(self.dev)
        sb = super().superblock()
        size = next(e[1] for e in self.extents if e[2] == "superblock")
        e = sb.get("root_entry")
        und = (1 << (8 * self.O)) - 1
        f = [VN(sb["version"]), VN(self.O), VN(self.L), VN(sb["leafK"]), VN(sb["intK"]), VN(sb["istoreK"]), VN(sb["flags"]),
             VN(sb["base"]), VN(und), VN(sb["eof"]), VN(und), VN(sb["root"]), VOPT(None if e is None else v_entry(e))]
        self.rec("superblock", [], self.b[0:size], d0, f, "superblock")
        return sb

    # -- object headers
    def ohdr(self, addr, owner):
        e0, d0 = len(self.extents), len(self.dev)
        b = self.b
        try:
            hd = super().ohdr(addr, owner)
        except h5spec.SpecError as e:
            # the header chunk as far as its own prefix delimits it
            if bytes(b[addr:addr + 4]) == b"OHDR" and addr + 6 <= self.n:
                fl = b[addr + 5]
                p = addr + 6 + (16 if fl & 0x20 else 0) + (4 if fl & 0x10 else 0)
                w = 1 << (fl & 3)
                end = min(self.n, p + w + int.from_bytes(b[p:p + w], "little"))
                self.rej("ohdr2", [], b[addr:end], e, "%s@%d" % (owner, addr))
            elif addr + 16 <= self.n and b[addr] == 1:
                end = min(self.n, addr + 16 + int.from_bytes(b[addr + 8:addr + 12], "little"))
                self.rej("ohdr1", [], b[addr:end], e, "%s@%d" % (owner, addr))
            raise
        for s, e, kind, _ in self.extents[e0:]:
            inside = [m for m in hd["msgs"] if s < m[3] <= e]
            ml = (lambda inside=inside: VL([VL([VN(t), VN(fl), VB(body)]) for t, fl, body, off in inside]))
            if kind == "ohdr1":
                nm, rc, hs = self.u(addr + 2, 2), self.u(addr + 4, 4), self.u(addr + 8, 4)
                self.rec("ohdr1", [], b[s:e], d0, (lambda nm=nm, rc=rc, hs=hs, ml=ml: [VN(nm), VN(rc), VN(hs), ml()]), "%s@%d" % (owner, addr))
            elif kind == "ohdr1-cont":
                self.rec("ohdr1-cont", [], b[s:e], d0, (lambda ml=ml: [ml()]), "%s@%d" % (owner, s))
            elif kind in ("ohdr2", "ohdr2-cont"):
                fl = b[addr + 5]
                has_ck = e - s >= 8 and int.from_bytes(b[e - 4:e], "little") == h5spec.lookup3(b[s:e - 4]) and \
                    any(c[1] == s and c[0] == kind for c in self.checks)
                tags = set() if has_ck else {"ohdr-no-checksum"}
                if kind == "ohdr2":
                    w = 1 << (fl & 3)
                    p = addr + 6 + (16 if fl & 0x20 else 0) + (4 if fl & 0x10 else 0)
                    self.rec("ohdr2", [], b[s:e], d0, (lambda fl=fl, c0=self.u(p, w), ml=ml: [VN(fl), VN(c0), ml()]), "%s@%d" % (owner, addr), tags=tags)
                else:
                    self.rec("ohdr2-cont", [1 if fl & 4 else 0], b[s:e], d0, (lambda ml=ml: [ml()]), "%s@%d" % (owner, s), tags=tags)
        pad = 1 if hd["v1pad"] else 0
        self._pad = pad
        if self.probe:
            for t, fl, body, off in hd["msgs"]:
                wh = "%s msg %#x" % (owner, t)
                try:
                    if fl & 2:
                        continue            # shared message: the body is a reference
                    if t == 0x01:
                        self.dataspace(body, wh, bool(pad))
                    elif t == 0x03:
                        self.datatype(body, wh, bool(pad))
                    elif t == 0x08:
                        self.layout(body, wh)
                    elif t == 0x0B:
                        self.pipeline(body, wh)
                    elif t == 0x06:
                        self.link_msg(body, wh)
                    elif t == 0x0C:
                        self.attribute(body, wh, v1pad=bool(pad))
                except Exception:
                    pass
        for t, fl, body, off in hd["msgs"]:
            # messages the Python walker reads inline (h5spec._obj): the same rule, restated here
            wh = "%s msg %#x" % (owner, t)
            if t == 0x11 and len(body) == 2 * self.O:
                self.rec("msg-symtab", [self.O, pad], body, len(self.dev), [VN(int.from_bytes(body[:self.O], "little")), VN(int.from_bytes(body[self.O:], "little"))], wh)
            elif t == 0x16 and len(body) == 5 and body[0] == 0:
                self.rec("msg-refcount", [pad], body, len(self.dev), [VN(int.from_bytes(body[1:5], "little"))], wh)
            elif t == 0x16 and len(body) == 4:
                self.rec("msg-refcount", [pad], body, len(self.dev), [VN(int.from_bytes(body, "little"))], wh, tags={"refcount-msg-no-version"})
            elif t == 0x05 and len(body) >= 4 and body[0] in (1, 2, 3):
                fv = body
                defined = bool(fv[3]) if fv[0] < 3 else bool(fv[1] & 0x20)
                hassize = (fv[0] == 1 or defined)
                at = 4 if fv[0] < 3 else 2
                if hassize and (len(fv) < at + 4 or not (0 <= len(fv) - (at + 4 + int.from_bytes(fv[at:at + 4], "little")) < (8 if pad else 1))):
                    continue
                self.rec("msg-fillvalue", [pad], body, len(self.dev), [VN(fv[0]), VBOOL(defined)], wh)
            elif t == 0x12 and len(body) == 8 and body[0] == 1:
                self.rec("msg-mtime", [pad], body, len(self.dev), [VN(int.from_bytes(body[4:8], "little"))], wh)
        return hd

    # -- messages
    def datatype(self, d, where, pad_ok=False):
        return self.wrapped("msg-datatype", [1 if pad_ok else 0], d, where, lambda: super(RecWalker, self).datatype(d, where, pad_ok),
                            lambda t, tags: [v_dtype(t, tags, d)])

    def dataspace(self, d, where, pad_ok=False):
        return self.wrapped("msg-dataspace", [self.L, 1 if pad_ok else 0], d, where, lambda: super(RecWalker, self).dataspace(d, where, pad_ok),
                            lambda r, tags: [VN(r["kind"]), VNL(r["dims"]), VOPT(None if r["maxdims"] is None else VNL(r["maxdims"]))])

    def layout(self, d, where):
        def f(r, tags):
            if r["cls"] == "compact":
                return [VN(0), VB(r["data"])]
            if r["cls"] == "contiguous":
                return [VN(1), VN(r["addr"]), VN(r["size"])]
            if r["nd"] != d[2]:
                raise KeyError("nd")          # the Python decoder's "literal reading" of the dimensionality field
            return [VN(2), VN(r["addr"]), VNL(r["dims"])]
        return self.wrapped("msg-layout", [self.O, self.L], d, where, lambda: super(RecWalker, self).layout(d, where), f)

    def pipeline(self, d, where):
        return self.wrapped("msg-pipeline", [], d, where, lambda: super(RecWalker, self).pipeline(d, where),
                            lambda r, tags: [VL([VL([VN(fid), VN(fl), VNL(cd)]) for fid, fl, cd in r])])

    def link_msg(self, d, where):
        def f(r, tags):
            v = r["value"]
            val = VL([VN(0), VN(v)]) if r["kind"] == "hard" else VL([VN(1), VB(v)]) if r["kind"] == "soft" else VL([VN(64), VB(v[0]), VB(v[1])])
            return [VB(r["name"]), val]
        return self.wrapped("msg-link", [self.O], d, where, lambda: super(RecWalker, self).link_msg(d, where), f)

    def attribute(self, d, where, v1pad=False):
        ver = d[0] if len(d) else 0
        def f(a, tags):
            # the raw datatype bytes, to print an opaque tag (offsets as the specification gives them)
            ns, ts = int.from_bytes(d[2:4], "little"), int.from_bytes(d[4:6], "little")
            r8 = (lambda x: (x + 7) // 8 * 8) if ver == 1 else (lambda x: x)
            p = (9 if ver == 3 else 8) + r8(ns)
            return [VB(a["name"]), v_dtype(a["dt"], tags, d[p:p + ts]), VNL(a["dims"]), VN(a["nelem"]), VB(a["data"])]
        return self.wrapped("msg-attribute", [self.L, 1 if v1pad else 0], d, where, lambda: super(RecWalker, self).attribute(d, where, v1pad), f)

    def dense_attrs(self, d, owner, msgtype):
        O = self.O
        if len(d) >= 2 and d[0] == 0 and not (d[1] & ~3) and len(d) == 2 + (2 if d[1] & 1 else 0) + 2 * O + (O if d[1] & 2 else 0):
            fl = d[1]
            p = 2 + (2 if fl & 1 else 0)
            f = [VN(fl), VOPT(VN(int.from_bytes(d[2:4], "little")) if fl & 1 else None), VN(int.from_bytes(d[p:p + O], "little")),
                 VN(int.from_bytes(d[p + O:p + 2 * O], "little")), VOPT(VN(int.from_bytes(d[p + 2 * O:p + 3 * O], "little")) if fl & 2 else None)]
            self.rec("msg-attrinfo", [O], d, len(self.dev), f, owner)
        # the Python decoder tries the specification's heap offsets first and then the library's: keep what was decoded successfully
        mark = len(self.structs)
        try:
            return super().dense_attrs(d, owner, msgtype)
        finally:
            tail = self.structs[mark:]
            del self.structs[mark:]
            seen = set()
            for s in tail:
                k = (s["kind"], s["bytes"])
                if not s.get("reject") and k not in seen:
                    seen.add(k)
                    self.structs.append(s)

    # -- level 1
    def local_heap(self, addr, owner):
        O, L = self.O, self.L
        raw = self.b[addr:addr + 8 + 2 * L + O]
        return self.wrapped("lheap-hdr", [O, L], raw, "%s@%d" % (owner, addr), lambda: super(RecWalker, self).local_heap(addr, owner),
                            lambda r, tags: [VN(r["size"]), VN(self.u(addr + 8 + L, L)), VN(self.u(addr + 8 + 2 * L, O))])

    def btree1_node(self, addr, ntype, keysize, K, owner, kind):
        O, L = self.O, self.L
        nd = 0 if ntype == 0 else (keysize - 8) // 8
        n = self.u(addr + 6, 2) if addr + 8 <= self.n else 0
        raw = self.b[addr:addr + 8 + 2 * O + n * (keysize + O) + keysize]
        def f(r, tags):
            def key(k):
                if ntype == 0:
                    return VNL([int.from_bytes(k, "little")])
                return VNL([int.from_bytes(k[0:4], "little"), int.from_bytes(k[4:8], "little")] + [int.from_bytes(k[8 + 8 * i:16 + 8 * i], "little") for i in range(nd)])
            return [VN(r["level"]), VN(r["n"]), VN(r["left"]), VN(r["right"]), VL([key(k) for k in r["keys"]]), VNL(r["kids"])]
        return self.wrapped("btree1", [O, L, ntype, nd, K], raw, "%s@%d" % (owner, addr),
                            lambda: super(RecWalker, self).btree1_node(addr, ntype, keysize, K, owner, kind), f)

    def snod(self, addr, heap, owner):
        O = self.O
        n = self.u(addr + 6, 2) if addr + 8 <= self.n else 0
        raw = self.b[addr:addr + 8 + n * (2 * O + 24)]
        return self.wrapped("snod", [O, self.sb["leafK"]], raw, "%s@%d" % (owner, addr), lambda: super(RecWalker, self).snod(addr, heap, owner),
                            lambda ents, tags: [VL([v_entry(e) for e in ents])])

    def gcol(self, addr, owner):
        if hasattr(self, "gcols") and addr in self.gcols:
            return super().gcol(addr, owner)
        L = self.L
        size = self.u(addr + 8, L) if addr + 8 + L <= self.n else 0
        raw = self.b[addr:addr + size]
        return self.wrapped("gcol", [L], raw, "gcol@%d" % addr, lambda: super(RecWalker, self).gcol(addr, owner),
                            lambda objs, tags: [VN(size), VL([VL([VN(i), VB(o)]) for i, o in objs.items()])])

    def fractal_heap(self, addr, owner):
        O, L = self.O, self.L
        size = 5 + 4 + 1 + 4 + 12 * 0 + (3 * O) + (12 * L) + 2 + 2 + 2 + 2 + 4     # fields + checksum (unfiltered heap)
        raw = self.b[addr:addr + size]
        names = ("idlen", "filtlen", "flags", "maxobj", "nexthuge", "hugebt", "free", "fsaddr", "mansize", "manalloc", "iter", "nman", "hugesize",
                 "nhuge", "tinysize", "ntiny", "width", "start", "maxdirect", "maxheap", "startrows", "root", "currows")
        # the header is judged on its own bytes: record it even when a block below it fails
        d0 = len(self.dev)
        try:
            h = super().fractal_heap(addr, owner)
        except h5spec.SpecError:
            raise
        hdr_tags = {t for t, wh, _ in self.dev[d0:] if t in ("fheap-hdr-crc32", "fheap-addr-0-not-undef")}
        self.rec("fheap-hdr", [O, L], raw, d0, [VN(h[k]) for k in names], "%s@%d" % (owner, addr), tags=hdr_tags)
        return h

    def direct_block(self, h, addr, hoff, size, owner):
        raw = self.b[addr:addr + size]
        d0 = len(self.dev)
        nb = len(h["blocks"])
        return self.wrapped("fheap-dblock", [self.O, h["addr"], h["offsz"], hoff, h["flags"]], raw, "%s@%d" % (owner, addr),
                            lambda: super(RecWalker, self).direct_block(h, addr, hoff, size, owner),
                            lambda r, tags: [VN(h["blocks"][nb][3])])

    def btree2(self, addr, owner):
        O, L = self.O, self.L
        raw = self.b[addr:addr + 22 + O + L]
        d0, c0 = len(self.dev), len(self.checks)
        bt = super().btree2(addr, owner)
        b = self.b
        nodesize, depth = self.u(addr + 6, 4), self.u(addr + 12, 2)
        root, nroot, total = self.u(addr + 16, O), self.u(addr + 16 + O, 2), self.u(addr + 18 + O, L)
        algo = {c[1]: c[2] for c in self.checks[c0:] if c[0] in ("btree2-hdr", "btree2-leaf")}
        f = [VN(bt["type"]), VN(nodesize), VN(bt["recsize"]), VN(depth), VN(b[addr + 14]), VN(b[addr + 15]), VN(root), VN(nroot), VN(total)]
        self.rec("btree2-hdr", [O, L], raw, d0, f, "%s@%d" % (owner, addr), tags={"btree2-crc32"} if algo.get(addr) == "crc32" else set())
        if nroot:
            self.rec("btree2-leaf", [bt["type"], nroot, bt["recsize"]], b[root:root + nodesize], d0, (lambda recs=bt["recs"]: [VL([VB(r) for r in recs])]), "%s@%d" % (owner, root),
                     tags={"btree2-crc32"} if algo.get(root) == "crc32" else set())
        return bt


def v_entry(e):
    return VL([VN(e["name_off"]), VN(e["obj"]), VN(e["cache"]), VN(e.get("btree", 0)), VN(e.get("heap", 0)), VN(e.get("link_off", 0))])


def walk(path, probe=False):
    """h5spec.walk with the structures recorded (same result dict plus 'structs')"""
    data = open(path, "rb").read()
    w = RecWalker(data)
    w.probe = probe
    w.run()
    tree = dict(root=(w.sb.get("root")), objects=w.objects)
    return dict(tree=tree, extents=list(w.extents), deviations=list(w.dev), errors=list(w.errors), sb=dict(w.sb, root_entry=None),
                size=len(data), checks=list(w.checks), data=data, structs=w.structs)


# ----------------------------------------------------------------------------- Coq evaluation

def fields_of(s):
    """build (once) the expected field list of a structure; None when the tie has no projection for it"""
    f = s["fields"]
    if callable(f):
        _RAW[0] = s["bytes"]
        try:
            f = f()
        except KeyError:
            f = None
        _RAW[0] = b""
        s["fields"] = f
    return f


def expected_val(s):
    if s.get("reject"):
        return VL([VN(1)])
    return VL([VN(0), VNL([TAGS[t] for t in s["tags"]]), VL(fields_of(s))])


def case_term(s):
    _RAW[0] = b""
    return '(%d, %s, "%s"%%string, %s)' % (KINDS[s["kind"]][0], vlib.cNlist(s["ctx"]), s["bytes"].hex(), expected_val(s))


HEADER = "From HV Require Import Base.Prelude Base.Outcome Base.Bytes Spec.Parse Model.SpecTie.\n"


def _eval_part(args):
    k, part = args
    v = [HEADER]
    for j in range(0, len(part), 1500):
        sub = part[j:j + 1500]
        v.append("Definition cs_%d : list spec_case := [%s].\n" % (j, ";\n".join(case_term(s) for s in sub)))
        v.append("Definition r_%d := Eval vm_compute in map case_code cs_%d.\nPrint r_%d.\n" % (j, j, j))
    out = vlib.coq_eval("".join(v), "c05spec_%d" % k)
    got = []
    for j in range(0, len(part), 1500):
        got += vlib.parse_nlist(out, "r_%d" % j)
    return got


def coq_codes(structs, workers=12):
    """-> list of case_code per structure (0 good, 1 tolerant differs, 2 strict differs, 3 both)"""
    if not structs:
        return []
    order = sorted(range(len(structs)), key=lambda i: -len(structs[i]["bytes"]))
    buckets = [order[k::workers] for k in range(workers)]              # long structures are dealt out evenly
    buckets = [b for b in buckets if b]
    with cf.ThreadPoolExecutor(workers) as ex:
        res = list(ex.map(_eval_part, [(k, [structs[i] for i in b]) for k, b in enumerate(buckets)]))
    out = [0] * len(structs)
    for b, r in zip(buckets, res):
        for i, c in zip(b, r):
            out[i] = c
    return out


def coq_show(s):
    """the Coq observations of one structure, printed (for a violation report)"""
    v = HEADER + 'Definition bs := unhex "%s".\n' % s["bytes"].hex()
    v += "Eval vm_compute in (obs %d %s tolerant bs).\nEval vm_compute in (obs %d %s strict bs).\n" % (
        KINDS[s["kind"]][0], vlib.cNlist(s["ctx"]), KINDS[s["kind"]][0], vlib.cNlist(s["ctx"]))
    out = vlib.coq_eval(v, "c05spec_show")
    return re.sub(r"\s+", " ", out)[:3000]


def class_key(s):
    return (s["kind"], len(s["bytes"]), tuple(s["tags"]), tuple(s["ctx"]))


def sample(structs, rng, budget, maxlen=6000, maxlong=10):
    """every distinct (kind, length, tags, context) class once, then a uniform random sample up to the budget;
    at most `maxlong` structures of more than 1000 bytes per kind (Coq reads about 10 kB of literals per second)"""
    structs = [s for s in structs if len(s["bytes"]) <= maxlen]
    rng.shuffle(structs)
    seen, first, rest = set(), [], []
    nlong = collections.Counter()
    for s in structs:
        if len(s["bytes"]) > 1000:
            if nlong[s["kind"]] >= maxlong:
                continue
            nlong[s["kind"]] += 1
        k = class_key(s)
        if k in seen:
            rest.append(s)
        else:
            seen.add(k)
            first.append(s)
    if len(first) > budget:
        first = first[:budget]
    room = budget - len(first)
    if room > 0 and rest:
        first += rest[:room]
    first = [s for s in first if s.get("reject") or fields_of(s) is not None]
    return first, len(seen)
