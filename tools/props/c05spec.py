"""C05, specification tie: the Coq specification decoders (coq/theories/Spec/Format*.v) against the independent
Python decoder (tools/h5spec.py) on the structures of real files.

RecWalker is h5spec.Walker with every structure-level decoding step recorded: (kind, context, bytes, the
deviation tags Python raised while decoding exactly these bytes, the logical fields Python decoded).  Nothing in the
Python decoder's behaviour changes (the methods are wrapped, not replaced).

coq_check(structs) evaluates, for every (sampled) structure, Model.SpecTie.case_code: the tolerant Coq decoder must
accept with exactly Python's tag set and fields, the strict Coq decoder must accept iff the tag set is empty.
"""
import collections, concurrent.futures as cf, re
import vlib, h5spec

# tag -> code (Spec/Parse.v tag_code)
TAGS = {"sb-crc32": 1, "ohdr-no-checksum": 2, "fixed-props-malformed": 3, "float-props-malformed": 4, "float64-bias-127": 5,
        "string-extra-prop-byte": 6, "pipeline-v2-with-v1-layout": 7, "refcount-msg-no-version": 8, "extlink-value-layout": 9,
        "fheap-hdr-crc32": 10, "fheap-addr-0-not-undef": 11, "fhdb-trailing-crc32": 12, "btree2-crc32": 13, "gcol-free-size": 14,
        "btree1-node-over-capacity": 15, "snod-over-capacity": 16, "heap-name-offset-0": 17, "attrinfo-type-0x0f": 18,
        "dataset-no-fillvalue-msg": 19, "softlink-stored-as-object": 20, "chunk-dims-no-elem-dim": 21, "chunk-btree-addr-0": 22}
TAGNAME = {v: k for k, v in TAGS.items()}

# kind -> (code in Model/SpecTie.v obs, tags decidable from the bytes of one structure of that kind)
KINDS = {
    "superblock": (1, {"sb-crc32"}),
}


# ----------------------------------------------------------------------------- val literals

def VN(n):
    return "VN %d" % n

def VB(b):
    return 'VB (unhex "%s")' % bytes(b).hex() if len(b) else "VB []"

def VL(xs):
    return "VL [" + "; ".join(xs) + "]"

def VOPT(x):
    return VL([]) if x is None else VL([x])

def VNL(xs):
    return VL([VN(x) for x in xs])


# ----------------------------------------------------------------------------- recording walker

class RecWalker(h5spec.Walker):
    def __init__(self, data):
        super().__init__(data)
        self.structs = []

    def rec(self, kind, ctx, raw, dev0, fields, where=""):
        code, mine = KINDS[kind]
        tags = sorted({t for t, _, _ in self.dev[dev0:]} & mine, key=lambda t: TAGS[t])
        self.structs.append(dict(kind=kind, ctx=list(ctx), bytes=bytes(raw), tags=tags, fields=fields, where=where))

    def superblock(self):
        d0 = len(self.dev)
        sb = super().superblock()
        size = next(e[1] for e in self.extents if e[2] == "superblock")
        e = sb.get("root_entry")
        O = self.O
        und = (1 << (8 * O)) - 1
        f = [VN(sb["version"]), VN(self.O), VN(self.L), VN(sb["leafK"]), VN(sb["intK"]), VN(sb["istoreK"]), VN(sb["flags"]),
             VN(sb["base"]), VN(und), VN(sb["eof"]), VN(und), VN(sb["root"]),
             VOPT(None if e is None else VL([VN(e["name_off"]), VN(e["obj"]), VN(e["cache"]), VN(e.get("btree", 0)), VN(e.get("heap", 0)),
                                            VN(e.get("link_off", 0))]))]
        self.rec("superblock", [], self.b[0:size], d0, f, "superblock")
        return sb


def walk(path):
    """h5spec.walk with the structures recorded (same result dict plus 'structs')"""
    data = open(path, "rb").read()
    w = RecWalker(data)
    w.run()
    tree = dict(root=(w.sb.get("root")), objects=w.objects)
    return dict(tree=tree, extents=list(w.extents), deviations=list(w.dev), errors=list(w.errors), sb=dict(w.sb, root_entry=None),
                size=len(data), checks=list(w.checks), data=data, structs=w.structs)


# ----------------------------------------------------------------------------- Coq evaluation

def expected_val(s):
    return VL([VN(0), VNL([TAGS[t] for t in s["tags"]]), VL(s["fields"])])


def case_term(s):
    return '(%d, %s, "%s"%%string, %s)' % (KINDS[s["kind"]][0], vlib.cNlist(s["ctx"]), s["bytes"].hex(), expected_val(s))


HEADER = "From HV Require Import Base.Prelude Base.Outcome Base.Bytes Spec.Parse Model.SpecTie.\n"


def _eval_part(args):
    k, part = args
    v = [HEADER]
    for j in range(0, len(part), 1500):
        sub = part[j:j + 1500]
        v.append("Definition cs_%d : list spec_case := [%s].\n" % (j, ";\n".join(case_term(s) for s in sub)))
        v.append("Definition r_%d := Eval vm_compute in map case_code cs_%d.\nPrint r_%d.\n" % (j, j, j))
    out = vlib.coq_eval("".join(v), "c05spec_%d" % k)
    got = []
    for j in range(0, len(part), 1500):
        got += vlib.parse_nlist(out, "r_%d" % j)
    return got


def coq_codes(structs, workers=8):
    """-> list of case_code per structure (0 good, 1 tolerant differs, 2 strict differs, 3 both)"""
    if not structs:
        return []
    n = max(1, (len(structs) + workers - 1) // workers)
    parts = [(k, structs[i:i + n]) for k, i in enumerate(range(0, len(structs), n))]
    with cf.ThreadPoolExecutor(workers) as ex:
        res = list(ex.map(_eval_part, parts))
    return [c for p in res for c in p]


def coq_show(s):
    """the Coq observations of one structure, printed (for a violation report)"""
    v = HEADER + 'Definition bs := unhex "%s".\n' % s["bytes"].hex()
    v += "Eval vm_compute in (obs %d %s tolerant bs).\nEval vm_compute in (obs %d %s strict bs).\n" % (
        KINDS[s["kind"]][0], vlib.cNlist(s["ctx"]), KINDS[s["kind"]][0], vlib.cNlist(s["ctx"]))
    out = vlib.coq_eval(v, "c05spec_show")
    return re.sub(r"\s+", " ", out)[:3000]


def class_key(s):
    return (s["kind"], len(s["bytes"]), tuple(s["tags"]), tuple(s["ctx"]))


def sample(structs, rng, budget, maxlen=20000):
    """every distinct (kind, length, tags, context) class once, then a uniform random sample up to the budget"""
    structs = [s for s in structs if len(s["bytes"]) <= maxlen]
    seen, first, rest = set(), [], []
    for s in structs:
        k = class_key(s)
        if k in seen:
            rest.append(s)
        else:
            seen.add(k)
            first.append(s)
    if len(first) > budget:
        first = rng.sample(first, budget)
    room = budget - len(first)
    if room > 0 and rest:
        first += rng.sample(rest, min(room, len(rest)))
    return first, len(seen)
