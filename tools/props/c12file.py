"""C12, whole-file tie of the END-TO-END theorem for variable-length data (coq/theories/Props/C12File.v): the byte image
`image_v2_vlen name base dims elems` (coq/theories/Model/FileImageVlen.v: the five root blocks, the 16-byte references, the dataset
header with the variable-length datatype message, the global heap collections of Model/GHeap.v run_close in address order) against the
COMPLETE file written by the library with

    fw := CreateForWrite(f, CreateTruncate, WithSuperblockVersion(2)); ds := fw.CreateDataset("/"+name, VLen<base>, dims);
    ds.Write(elems); fw.Close()

byte for byte (harness subcommand c12 with dump_file; Coq evaluates `image_vlen_case_ok` by vm_compute; the file travels as hex pieces
and runs of zeros).  Independent of the model, Python resolves every element on the library's file (reference at 2195+16i ->
collection -> object) and compares with what was written, compares with what the library's own heap readers resolved, and checks that
the file ends at the superblock's end-of-file address.
Generated: names of 1..255 bytes, all 7 base types, counts 1..300, 1-D and a few 2-D/3-D shapes, element lengths 0, 1, 7, 8, 9, around
4063..4081 (exact fill / roll-over / larger-than-minimum collection), one element > 4 KiB, random bytes including NUL."""
import concurrent.futures as cf, os, struct, time
import vlib
from props import c01file

BASES = ["string", "int32", "int64", "uint32", "uint64", "float32", "float64"]
WIDTH = dict(string=1, int32=4, int64=8, uint32=4, uint64=8, float32=4, float64=8)
CORR = ("Model.FileImageVlen.image_v2_vlen (superblock, local heap, symbol table node, group B-tree node, root object header, 16-byte "
        "references, dataset object header with the variable-length datatype, global heap collections of Model.GHeap.run_close) vs the "
        "whole file written by CreateForWrite/CreateDataset(VLen*)/Write/Close")
HEADER = "From HV Require Import Base.Prelude Model.FileImage Model.FileImageVlen.\n"
DATA_ADDR = 2195


def rbytes(rng, n):
    return bytes(rng.getrandbits(8) for _ in range(n))


def elem(rng, base, length):
    w = WIDTH[base]
    return rbytes(rng, length // w * w)


def split_dims(rng, count):
    """a shape whose product is count"""
    if count > 1 and rng.random() < 0.2:
        for a in rng.sample([2, 3, 4, 5, 6, 10], 6):
            if count % a == 0:
                if (count // a) % 2 == 0 and rng.random() < 0.4:
                    return [a, 2, count // a // 2]
                return [a, count // a]
    return [count]


def gen_cases(rng, tier):
    q = tier != "thorough"
    cases = []

    def add(name, base, elems, dims=None, kind=""):
        cases.append(dict(name=name, base=base, dims=dims or [len(elems)], elems=elems, kind=kind))

    add(b"v", "string", [b"hello", b"", b"world!!"], kind="fixed")
    add(b"one", "int32", [struct.pack("<3i", 1, -2, 3)], kind="fixed")
    add(b"x" * 255, "float64", [b"", struct.pack("<d", 1.5)], kind="fixed")
    # a first element of 4048 bytes is the largest for which createNewHeap keeps the minimum size (16 + 16+4048 + 16 = 4096);
    # 4064 bytes would fill a 4096-byte collection exactly but gets 8192; 8144 bytes need exactly 8192
    add(b"fill", "string", [rbytes(rng, 4048), b"a"], kind="edge")
    add(b"fill2", "string", [b"b", rbytes(rng, 4064 - 24), b"a"], kind="edge")   # second element fills the collection: freeSpace = 0
    add(b"fill3", "int64", [rbytes(rng, 8144), rbytes(rng, 8)], kind="big")
    # 170 objects of 24 bytes = 4080: full collection, the 171st rolls over
    add(b"roll", "string", [rbytes(rng, rng.choice([1, 7, 8])) for _ in range(171)], kind="many")
    for base in BASES:
        add(b"t_" + base.encode(), base, [elem(rng, base, l) for l in (0, 8, 16, 24, 40)], kind="types")
    n_edge, n_big, n_many, n_small = (10, 4, 5, 24) if q else (60, 30, 30, 120)
    for _ in range(n_edge):
        base = rng.choice(BASES)
        ls = [rng.choice([4048, 4049, 4056, 4064, 4065, rng.randint(4040, 4088)]) for _ in range(rng.choice([1, 2, 2, 3]))]
        ls += [rng.choice([0, 1, 7, 8, 9, 24]) for _ in range(rng.randint(0, 4))]
        rng.shuffle(ls)
        es = [elem(rng, base, l) for l in ls]
        add(c01file.rand_name(rng), base, es, split_dims(rng, len(es)), kind="edge")
    for _ in range(n_big):
        base = rng.choice(BASES)
        ls = [rng.choice([4097, 8137, 8144, 8145, 8152, 8153, rng.randint(4097, 13000)])] + [rng.choice([0, 1, 7, 8, 9, 100, 2000]) for _ in range(rng.randint(0, 5))]
        rng.shuffle(ls)
        es = [elem(rng, base, l) for l in ls]
        add(c01file.rand_name(rng), base, es, split_dims(rng, len(es)), kind="big")
    for _ in range(n_many):
        base = rng.choice(BASES)
        count = rng.choice([100, 170, 171, 255, 256, 300, rng.randint(50, 300)])
        es = [elem(rng, base, rng.choice([0, 0, 1, 7, 8, 9, 9, 16, 17, rng.randint(0, 40)])) for _ in range(count)]
        add(c01file.rand_name(rng), base, es, split_dims(rng, count), kind="many")
    for _ in range(n_small):
        base = rng.choice(BASES)
        count = rng.choice([1, 1, 2, 3, 4, 6, 8, 12, rng.randint(1, 40)])
        es = [elem(rng, base, rng.choice([0, 1, 7, 8, 9, 15, 16, 33, rng.randint(0, 300)])) for _ in range(count)]
        add(c01file.rand_name(rng), base, es, split_dims(rng, count), kind="small")
    return cases


def fparts(f, zrun=48, piece=1500):
    """[FH "hex"; FZ n; ...]: zero runs of at least zrun bytes are sent as a count"""
    parts, i, n, start = [], 0, len(f), 0

    def flush(a, b):
        for k in range(a, b, piece):
            parts.append('FH "%s"' % f[k:min(b, k + piece)].hex())
    while i < n:
        if f[i] == 0:
            j = i
            while j < n and f[j] == 0:
                j += 1
            if j - i >= zrun:
                flush(start, i)
                parts.append("FZ %d" % (j - i))
                start = j
            i = j
        else:
            i += 1
    flush(start, n)
    return "[" + "; ".join(parts) + "]"


def _eval(args):
    k, idx, cases, files = args
    terms = []
    for c, f in zip(cases, files):
        terms.append("(%s, %d, %s, [%s], %s)" % (c01file.lit(c["name"]), BASES.index(c["base"]), vlib.cNlist(c["dims"]),
                                                 "; ".join(c01file.lit(e) for e in c["elems"]), fparts(f)))
    v = [HEADER, "Definition cs : list (list string * N * list N * list (list string) * list fpart) := [\n%s].\n" % ";\n".join(terms),
         "Definition bad := Eval vm_compute in mismatches image_vlen_case_ok cs.\nPrint bad.\n"]
    out = vlib.coq_eval("".join(v), "c12file_%d" % k)
    return [idx[i] for i in vlib.parse_nlist(out, "bad")]


def py_gcol(f, addr):
    """objects of the collection at addr, parsed from the file without the model: {index: data}"""
    if f[addr:addr + 4] != b"GCOL" or f[addr + 4] != 1:
        return None, "no version 1 GCOL signature at %d" % addr
    size = struct.unpack_from("<Q", f, addr + 8)[0]
    if size < 16 or addr + size > len(f):
        return None, "collection at %d declares %d bytes, file has %d" % (addr, size, len(f))
    objs, p, end = {}, addr + 16, addr + size
    while p + 16 <= end:
        idx, _ref = struct.unpack_from("<HH", f, p)
        n = struct.unpack_from("<Q", f, p + 8)[0]
        if idx == 0:
            break
        if p + 16 + n > end:
            return None, "object %d of the collection at %d runs beyond the collection" % (idx, addr)
        objs[idx] = f[p + 16:p + 16 + n]
        p += 16 + (n + 7) // 8 * 8
    return objs, None


def py_spec(c, f, r):
    probs = []
    n = len(c["elems"])
    eof = struct.unpack_from("<Q", f, 28)[0]
    if eof != len(f):
        probs.append("superblock end-of-file address %d, file length %d" % (eof, len(f)))
    if f[80:80 + len(c["name"]) + 1] != c["name"] + b"\0":
        probs.append("the link name is not at the start of the root group's heap segment (80)")
    if f[DATA_ADDR + 16 * n:DATA_ADDR + 16 * n + 4] != b"OHDR":
        probs.append("no object header behind the %d references" % n)
    cache = {}
    for i, e in enumerate(c["elems"]):
        addr, idx, pad = struct.unpack_from("<QII", f, DATA_ADDR + 16 * i)
        if addr not in cache:
            cache[addr] = py_gcol(f, addr)
        objs, err = cache[addr]
        if err:
            probs.append("element %d: %s" % (i, err))
            break
        if objs.get(idx) != e:
            probs.append("element %d (%d bytes) resolves to %s through collection %d object %d" % (
                i, len(e), "nothing" if idx not in objs else "%d other bytes" % len(objs[idx]), addr, idx))
            break
    ds = (r.get("datasets") or [{}])[0]
    res = ds.get("resolved")
    if res is None:
        probs.append("the library's readers did not resolve the dataset after reopen: %s" % str({k: v for k, v in ds.items() if k.endswith("err")})[:300])
    elif res != [e.hex() for e in c["elems"]]:
        bad = [i for i, (a, b) in enumerate(zip(res, [e.hex() for e in c["elems"]])) if a != b]
        probs.append("the library's heap readers resolve element %s to something else than written" % (bad[:1] or ["count"]))
    dt = ds.get("dt") or {}
    if dt and (dt.get("class") != 9 or dt.get("size") != 16):
        probs.append("datatype read back: class %s size %s, expected variable length (9) of size 16" % (dt.get("class"), dt.get("size")))
    return probs


def wire_case(c, d):
    return dict(dir=d, sbver=2, dump_gcol=False, dump_file=True,
                datasets=[dict(name="d", name_hex=c["name"].hex(), base=c["base"], chunk=0, dims=c["dims"], elems=[e.hex() for e in c["elems"]])])


def run_unit(ctx):
    H, rng = ctx.harness, ctx.rng
    t0 = time.time()
    builddir = os.path.join(vlib.BUILD, "scratch")
    os.makedirs(builddir, exist_ok=True)
    cases = gen_cases(rng, ctx.tier)
    wire = [wire_case(c, builddir) for c in cases]
    res = vlib.run_harness_parallel(H, "c12", wire, workers=8)
    t_go = time.time() - t0
    viol, kept, files = [], [], []
    for c, w, r in zip(cases, wire, res):
        w = dict(w, dir="<scratch>")
        bad = r.get("panic") or r.get("create_err") or r.get("write_errs") or r.get("close_err") or r.get("open_err") or r.get("file_err")
        if bad or "file" not in r:
            viol.append(dict(what="c12file: the library refused or failed an admissible create/write/close/reopen of a variable-length dataset: %s" % str(bad or r)[:300],
                             failing_input=w, impl={k: v for k, v in r.items() if k != "file"}))
            continue
        f = bytes.fromhex(r["file"])
        probs = py_spec(c, f, r)
        if probs:
            viol.append(dict(what="c12file: " + probs[0], failing_input=w, impl=dict(file=r["file"][:6000], datasets=str(r.get("datasets"))[:2000]), problems=probs))
            continue
        kept.append((c, w))
        files.append(f)
    # Coq: chunks of bounded volume
    parts, cur, vol = [], [], 0
    for i, ((c, _), f) in enumerate(zip(kept, files)):
        v = len(f.replace(b"\0" * 48, b"")) + sum(len(e) for e in c["elems"]) + 2000
        if cur and vol + v > 60000:
            parts.append(cur)
            cur, vol = [], 0
        cur.append(i)
        vol += v
    if cur:
        parts.append(cur)
    jobs = [(k, idx, [kept[i][0] for i in idx], [files[i] for i in idx]) for k, idx in enumerate(parts)]
    t1 = time.time()
    with cf.ThreadPoolExecutor(max_workers=10) as ex:
        bad = sorted(i for r in ex.map(_eval, jobs) for i in r)
    t_coq = time.time() - t1
    for i in bad[:3]:
        c, w = kept[i]
        small = sum(len(e) for e in c["elems"]) < 20000
        viol.append(dict(what="c12file: the file written by the library differs from Model.FileImageVlen.image_v2_vlen", case=w if small else dict(w, datasets="(large)"),
                         impl=dict(file=files[i].hex()[:20000]), nofail=True, correspondence=CORR))
    ncols = [f.count(b"GCOL\x01\0\0\0") for f in files]
    distinct = {(c["name"], c["base"], tuple(c["dims"]), tuple(c["elems"])) for c, _ in kept}
    lens = sorted({len(e) for c, _ in kept for e in c["elems"]})
    samples = [dict(name=c["name"].hex(), base=c["base"], dims=c["dims"], element_lengths=[len(e) for e in c["elems"]][:12], file_len=len(f))
               for (c, _), f in list(zip(kept, files))[:3]]
    return dict(violations=viol, known=[], evaluations=len(cases), distinct=len(distinct), samples=samples,
                rule="whole file compared byte for byte with image_v2_vlen; distinct = distinct (name, base type, dims, element list)",
                bases=sorted({c["base"] for c in cases}), kinds={k: sum(1 for c in cases if c["kind"] == k) for k in sorted({c["kind"] for c in cases})},
                counts=sorted({len(c["elems"]) for c in cases}), ranks=sorted({len(c["dims"]) for c in cases}),
                element_lengths=lens[:60], max_element=max(lens) if lens else 0,
                collections_per_file=sorted(set(ncols)), files_with_rollover=sum(1 for x in ncols if x > 1),
                file_bytes=sum(len(f) for f in files), seconds=dict(go=round(t_go, 1), coq=round(t_coq, 1), wall=round(time.time() - t0, 1)))
