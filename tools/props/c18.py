"""C18 - independent handles and background rebalancing are race-free and stop cleanly.  PARTIAL.

Static half (the "translator" tie, every run):
  tools/locktable (Go, go/packages + go/types) re-extracts from the CURRENT source every read/write site of
  the fields of the anchored shared structs, with function, role (constructor / foreground API / background
  goroutine) and the mutexes certainly held there; this module renders it as a Coq `table`, and coqc checks
  `locktable_ok (fun _ => false) table = true` by vm_compute and applies theorem table_sound
  (Props/C18.v: C18_table_sound): every pool of threads built from these sites - any number of foreground
  and background threads, any interleaving, any length - has no reachable race.  An access without a
  common lock (and not read-only / atomic-only / constructor) makes the table fail => VIOLATION (after the
  race detector has been asked for a concrete schedule), unless listed in tools/c18_confined.json (reviewed
  exceptions) or in an open KNOWN_FINDINGS entry.  The same verdict is recomputed independently in Python.
  Package-level variables of the library written outside init() are flagged the same way.
  The extractor also emits the protocol skeletons of Start/Stop/loop of both workers and of the tree-level
  wrappers WritableBTreeV2.{Enable,Stop,Is...Enabled,Get...Progress} of incremental rebalancing; they are compared
  with tools/c18_protocol_shape.json: equal to `patched` => the positive theorems of Model/Lifecycle.v apply;
  equal to `as_found` / a `refuted_variants` entry => the refuted protocol: a failing lifecycle test (preferably the
  one named in `refutations.*.replayed_by`) is the replay of the Coq trace, otherwise no-failing-input-found with the
  Coq trace in the evidence; equal to none => the transcription is out of date: dynamic tests decide, else
  no-failing-input-found naming the correspondence.

  Pooled buffers (added after seeded change C18-e): the same extractor (tools/locktable/poolcheck.go) checks, for every
  function of the library, that a buffer of the process-wide byte-buffer pool (internal/utils GetBuffer/ReleaseBuffer)
  is released at most once on every path (no explicit release beside a pending `defer`, no two releases), is not used
  after its release and does not escape through `return` while a release is pending: a buffer put back twice is handed
  to two goroutines working on independent handles.  A finding is attached to the failing dynamic test
  (TestVerifC18_FaultyOpensBesideHealthyReaders: [pool-alias] / [result-diff] / race report) when there is one,
  otherwise it is reported as no-failing-input-found.

Dynamic half (search / correspondence): the overlay tests harness/overlay/**/zz_verif_c18_test.go are
  compiled with -race against the current tree and run with several GOMAXPROCS values: independent
  handles vs the sequential result, foreground API vs the background workers at microsecond intervals,
  concurrent and repeated Stop, goroutine accounting, Stop watchdogs, buffer-pool aliasing.
  A DATA RACE report (classified by the pair of library functions), a result difference, a leaked goroutine,
  a Stop timeout or a panic is a VIOLATION with test + seed + GOMAXPROCS as replay.
"""
import concurrent.futures as cf
import json, os, re, subprocess, time
import vlib

TRUSTED = [
    "C18: Coq does not model the Go memory model or scheduler; race freedom is proved for the abstract interleaving "
    "semantics of Model/Conc.v instantiated with the access table that tools/locktable extracts syntactically from the "
    "current source (blind spots: reflection, unsafe, aliases of a field's address, accesses outside the anchored structs)",
    "C18: constructor accesses (New*, With* option closures, composite literals) are assumed to happen before the object is shared",
    "C18: the start/stop protocols are hand-written counter abstractions of Start/Stop/loop (Model/Lifecycle.v); critical "
    "sections under the object's mutex are single steps; scheduler fairness is not modelled (progress = enabledness + measure)",
    "C18: the tree-level system (c) counts a goroutine as a worker until it has executed `ir.running = false`; a goroutine that has only "
    "its deferred ticker.Stop()/close(stoppedChan) left can coexist with the goroutine of a newer rebalancer (C18_tree_exiting_overlap_example)",
    "C18: the pooled-buffer analysis (tools/locktable/poolcheck.go) is syntactic and intraprocedural: buffers stored in struct fields, "
    "released by a callee, or aliased other than by plain assignment / slicing are not followed; it has no Coq counterpart",
    "C18: the Go race detector and runtime.NumGoroutine are the search half (schedules explored, not all schedules)",
]
ASSUMPTIONS = ["sync.Mutex / RWMutex / WaitGroup / channels / sync.atomic behave as documented (Go memory model)"]

MOD = "github.com/scigolib/hdf5"
PKGS = [("internal/structures", "structures"), ("internal/rebalancing", "rebalancing"), (".", "hdf5")]
LT_DIR = os.path.join(vlib.VERIF, "tools", "locktable")
CONFINED = os.path.join(vlib.VERIF, "tools", "c18_confined.json")
PROPOSED = os.path.join(vlib.VERIF, "notes", "c18-known-findings-proposed.json")
SHAPES = os.path.join(vlib.VERIF, "tools", "c18_protocol_shape.json")
# a test that kills the test binary on a defective tree runs in its own process anyway (one process per test)


# ----------------------------------------------------------------------------- known findings
def known_entries():
    ks = list(vlib.known_findings("C18"))
    ids = {k.get("id") for k in ks}
    if os.path.exists(PROPOSED):
        for e in json.load(open(PROPOSED)).get("findings", []):
            if e.get("property") == "C18" and e.get("status") == "open" and e.get("id") not in ids:
                ks.append(e)
    return ks


def match_location(ks, loc):
    for k in ks:
        if loc in k.get("match", {}).get("locations", []):
            return k
    return None


def match_functions(ks, funcs, key="race_functions"):
    """A report is known when every library function it names belongs to one entry's function set."""
    fs = set(funcs)
    for k in ks:
        allowed = set(k.get("match", {}).get(key, []))
        if fs and fs <= allowed:
            return k
    return None


# ----------------------------------------------------------------------------- static half
def build_locktable():
    out = os.path.join(vlib.BUILD, "locktable")
    with vlib._Lock("locktable"):
        p = vlib.sh(["go", "build", "-o", out, "."], cwd=LT_DIR, env=vlib.GOENV, timeout=600)
    if p.returncode != 0:
        raise RuntimeError("tools/locktable does not build: " + (p.stdout + p.stderr)[-3000:])
    return out


def extract(binp):
    p = vlib.sh([binp, vlib.REPO], env=vlib.GOENV, timeout=600)
    if p.returncode != 0:
        return None, (p.stderr or p.stdout)[-4000:]
    return json.loads(p.stdout), ""


def role_id(roles, r):
    if r not in roles:
        roles[r] = len(roles) + 1          # 0 = constructor
    return roles[r]


def render_table(entries, locs, locks, roles):
    rows = []
    for e in entries:
        rid = 0 if e["ctor"] else role_id(roles, e["role"])
        rows.append("mkA %d %s %d [%s] [%s]" % (
            locs[e["loc"]], {"R": "KR", "W": "KW", "A": "KA"}[e["kind"]], rid,
            ";".join(str(locks[m]) for m in e["held_w"]), ";".join(str(locks[m]) for m in e["held_r"])))
    return rows


def py_table_ok(entries):
    """Independent re-implementation of locktable_ok (single = none). Returns list of per-entry booleans."""
    by = {}
    for e in entries:
        if not e["ctor"]:
            by.setdefault(e["loc"], []).append(e)
    prot = {}
    for loc, es in by.items():
        kinds = {e["kind"] for e in es}
        if kinds == {"R"}:
            prot[loc] = ("ro",)
        elif kinds == {"A"}:
            prot[loc] = ("atomic",)
        else:
            e0 = es[0]
            m = None
            for c in e0["held_w"] + e0["held_r"]:
                if all((c in e["held_w"]) or (e["kind"] == "R" and c in e["held_r"]) for e in es):
                    m = c
                    break
            prot[loc] = ("lock", m) if m is not None else None
    res = []
    for e in entries:
        if e["ctor"]:
            res.append(True)
            continue
        p = prot.get(e["loc"])
        if p is None:
            res.append(False)
        elif p[0] == "ro":
            res.append(e["kind"] == "R")
        elif p[0] == "atomic":
            res.append(e["kind"] == "A")
        else:
            res.append((p[1] in e["held_w"]) or (e["kind"] == "R" and p[1] in e["held_r"]))
    return res, prot


def static_half(ctx, viol, known, cov, ks):
    binp = build_locktable()
    data, err = extract(binp)
    cov["side_obligations"] = cov.get("side_obligations", 0) + 2
    if data is None:
        viol.append(dict(what="the access-table extractor no longer runs on the source (anchored struct renamed or package does not type-check)",
                         nofail=True, correspondence="tools/locktable vs " + vlib.REPO, detail=err))
        return None
    confined = json.load(open(CONFINED)).get("entries", []) if os.path.exists(CONFINED) else []
    excused_keys = {(c["field"], c["function"]) for c in confined}
    entries, excused = [], []
    for a in data["accesses"]:
        if (a["loc"], a["func"]) in excused_keys:
            excused.append(a)
            continue
        for r in a["roles"]:
            e = dict(a)
            e["role"] = r
            entries.append(e)
    locs, locks, roles = {}, {}, {}
    for e in entries:
        locs.setdefault(e["loc"], len(locs) + 1)
        for m in e["held_w"] + e["held_r"]:
            locks.setdefault(m, len(locks) + 1)
    rows = render_table(entries, locs, locks, roles)
    chunks = [rows[i:i + 400] for i in range(0, len(rows), 400)] or [[]]
    v = ["(* generated by tools/props/c18.py from %s - do not edit *)\n" % vlib.REPO,
         "From HV Require Import Base.Prelude Model.Conc Proofs.Conc.\n",
         "(* locations: %s *)\n(* locks: %s *)\n(* roles: 0=constructor %s *)\n" % (
             " ".join("%d=%s" % (i, n) for n, i in locs.items()), " ".join("%d=%s" % (i, n) for n, i in locks.items()),
             " ".join("%d=%s" % (i, n) for n, i in roles.items()))]
    for i, c in enumerate(chunks):
        v.append("Definition table_%d : table := [%s].\n" % (i, ";\n  ".join(c)))
    v.append("Definition table : table := %s.\n" % " ++ ".join("table_%d" % i for i in range(len(chunks))))
    v.append("Definition nobody_single (_ : nat) : bool := false.\n")
    v.append("Definition verdict := Eval vm_compute in locktable_ok nobody_single table.\nPrint verdict.\n")
    v.append("Definition entry_verdicts := Eval vm_compute in map (fun e => if entry_ok (prot_of nobody_single table) e then 1%N else 0%N) table.\nPrint entry_verdicts.\n")
    gen_text = "".join(v)
    sound = ("Theorem table_race_free : forall ths, conforms nobody_single table ths ->\n"
             "  forall s, reachable (init_state ths) s -> ~ race s.\n"
             "Proof. intros ths Hc. apply (table_sound nobody_single table ths); [vm_compute; reflexivity | exact Hc]. Qed.\n"
             "Print Assumptions table_race_free.\n")
    out = vlib.coq_eval(gen_text, "LockTable")
    m = re.search(r"verdict\s*=\s*(true|false)", out)
    if not m:
        raise RuntimeError("cannot parse the Coq verdict: " + out[-2000:])
    coq_ok = m.group(1) == "true"
    per_entry = [x == 1 for x in vlib.parse_nlist(out, "entry_verdicts")]
    py_entry, prot = py_table_ok(entries)
    cov["evaluations"] += len(entries)
    cov["lock_table"] = dict(sites=len(data["accesses"]), entries=len(entries), locations=len(locs), mutexes=sorted(locks),
                             roles=sorted(roles), functions_scanned=data["functions"], goroutines=data["goroutines"],
                             entry_locks_inferred=data["entry_locks"], excused_by_c18_confined=len(excused),
                             unanchored_fields_touched_by_background=data.get("unanchored_background_fields", []),
                             protection={loc: (list(p) if p else None) for loc, p in sorted(prot.items())},
                             coq_verdict=coq_ok)
    if per_entry != py_entry:
        viol.append(dict(what="Coq and the independent Python evaluation of the lock table disagree", nofail=True,
                         correspondence="Model.Conc.locktable_ok vs tools/props/c18.py:py_table_ok",
                         detail=[e for e, a, b in zip(entries, per_entry, py_entry) if a != b][:5]))
    proof_ok = False
    if coq_ok:
        out2 = vlib.coq_eval(gen_text + sound, "LockTableSound")
        proof_ok = "Closed under the global context" in out2
        if not proof_ok:
            viol.append(dict(what="table_race_free for the regenerated table does not check closed", nofail=True,
                             correspondence="C18_table_sound applied to Gen/LockTable.v", detail=out2[-2000:]))
    cov["side_discharged"] = cov.get("side_discharged", 0) + (1 if coq_ok else 0) + (1 if proof_ok else 0)
    # unprotected locations -> findings / violations
    bad_locs = {}
    for e, ok in zip(entries, per_entry):
        if not ok:
            bad_locs.setdefault(e["loc"], [])
    for e in entries:
        if e["loc"] in bad_locs and not e["ctor"]:
            bad_locs[e["loc"]].append(e)
    static_bad = []
    for loc, es in sorted(bad_locs.items()):
        writers = sorted({e["func"] for e in es if e["kind"] != "R"})
        unlocked = sorted({"%s %s %s" % (e["kind"], e["func"], e["pos"]) for e in es if not e["held_w"] and not (e["kind"] == "R" and e["held_r"])})
        funcs = sorted({e["func"] for e in es})
        k = match_location(ks, loc)
        rec = dict(location=loc, writers=writers, unlocked_sites=unlocked[:12], functions=funcs,
                   sites=[dict(kind=e["kind"], func=e["func"], pos=e["pos"], role=e["role"], held_w=e["held_w"], held_r=e["held_r"]) for e in es][:40])
        if k:
            known.append("%s: no common lock for %s (unlocked: %s) [%s]" % (k["id"], loc, "; ".join(unlocked[:3]), "static table"))
        else:
            static_bad.append(rec)
    # package-level variables
    pv_bad = []
    pvs = data["pkgvars"]
    for v_ in pvs:
        if v_["writes_outside_init"]:
            key = "%s.%s" % (v_["pkg"], v_["name"])
            if (key, "*") in excused_keys or all((key, w["func"]) in excused_keys for w in v_["writes_outside_init"]):
                continue
            k = match_location(ks, key)
            if k:
                known.append("%s: package-level variable %s written outside init" % (k["id"], key))
            else:
                pv_bad.append(dict(variable=key, type=v_["type"], writes=v_["writes_outside_init"]))
    cov["package_level_vars"] = dict(total=len(pvs), by_class={c: sum(1 for x in pvs if x["class"] == c) for c in ("sync", "error-sentinel", "data")},
                                     data_vars=[dict(name=x["pkg"] + "." + x["name"], type=x["type"], writes_outside_init=len(x["writes_outside_init"]), reads=x["reads"])
                                                for x in pvs if x["class"] == "data"])
    # protocol skeletons vs the transcriptions of Model/Lifecycle.v: per group `patched` is the shape the positive
    # theorems are proved for; `as_found` and every entry of `refuted_variants` are shapes whose transcription is refuted
    shape_bad = []
    golden = json.load(open(SHAPES))["groups"]
    cov["side_obligations"] += len(golden)
    variants = {}
    for g, spec in sorted(golden.items()):
        cur = {f: data.get("protocols", {}).get(f) for f in spec["functions"]}
        refuted = {}
        if spec.get("as_found"):
            refuted["as found (Lifecycle fixed=false)"] = spec["as_found"]
        for name, sk in sorted(spec.get("refuted_variants", {}).items()):
            refuted[name] = sk
        hit = next((name for name, sk in refuted.items() if cur == sk), None)
        if cur == spec["patched"]:
            variants[g] = "patched (the shape Model/Lifecycle.v proves the positive theorems for)"
            cov["side_discharged"] += 1
        elif hit:
            variants[g] = "%s: refuted" % hit
            kid = spec.get("known_finding_when_as_found") if hit.startswith("as found") else spec.get("known_finding_when_refuted", {}).get(hit)
            k = next((x for x in ks if kid and x.get("id") == kid), None)
            if k:
                known.append("%s: Start/Stop/loop of the %s worker have the shape that Model/Lifecycle.v refutes [protocol skeleton]" % (k["id"], g))
            else:
                ref = spec.get("refutations", {}).get(hit, {})
                what = "the %s protocol functions have the refuted shape `%s` of Model/Lifecycle.v" % (g, hit)
                if ref:
                    what += " (%s: %s)" % (ref.get("theorem"), ref.get("meaning"))
                shape_bad.append(dict(group=g, variant=hit, what=what, refutation=ref, nofail=False,
                                      changed={f: dict(current=cur[f], proved=spec["patched"][f]) for f in spec["functions"] if cur[f] != spec["patched"][f]}))
        else:
            variants[g] = "unknown"
            diff = {f: dict(current=cur[f], patched=spec["patched"][f]) for f in spec["functions"] if cur[f] != spec["patched"][f]}
            shape_bad.append(dict(group=g, what="the synchronisation skeleton of %s no longer matches any transcription in Model/Lifecycle.v" % ", ".join(sorted(diff)), diff=diff, nofail=True))
    cov["protocol_shapes"] = variants
    # pooled-buffer discipline (tools/locktable/poolcheck.go)
    pool_bad = []
    cov["side_obligations"] += 1
    pool = data.get("pool")
    if not pool or not pool.get("api_found") or not pool.get("pool_call_sites"):
        pool_bad.append(dict(kind="extractor", what="the pooled-buffer analysis no longer finds utils.GetBuffer / utils.ReleaseBuffer (or any call of them) "
                                  "in the source: the buffer pool was renamed or replaced and the analysis is out of date", finding=pool))
    else:
        for f in pool["findings"]:
            k = match_location(ks, "pool:" + f["func"])
            if k:
                known.append("%s: pooled buffer %s in %s: %s at %s [static table]" % (k["id"], f["var"], f["func"], f["kind"], f["pos"]))
            else:
                pool_bad.append(dict(kind=f["kind"], finding=f,
                                     what="pooled buffer `%s` in %s: %s at %s (%s)" % (f["var"], f["func"], f["kind"], f["pos"], f["note"])))
        if not pool["findings"]:
            cov["side_discharged"] += 1
    cov["pool_discipline"] = dict(functions_with_pool=(pool or {}).get("functions_with_pool"), pool_call_sites=(pool or {}).get("pool_call_sites"),
                                  bodies_scanned=(pool or {}).get("bodies_scanned"), findings=(pool or {}).get("findings"))
    return dict(static_bad=static_bad, pv_bad=pv_bad, shape_bad=shape_bad, pool_bad=pool_bad, table_v=gen_text, entries=len(entries))


# ----------------------------------------------------------------------------- dynamic half
RACE_HDR = re.compile(r"^(?:Previous )?(?:[Rr]ead|[Ww]rite|[Aa]tomic [a-z]+) at 0x[0-9a-f]+ by (?:main )?goroutine", re.M)


def norm_func(fr):
    """github.com/scigolib/hdf5/internal/structures.(*T).m.func1() -> structures.(T).m"""
    fr = fr.strip()
    fr = re.sub(r"\(\)$", "", fr)
    fr = re.sub(r"(\.func\d+|\.gowrap\d+|\.\d+)+$", "", fr)
    if not fr.startswith(MOD):
        return None
    rest = fr[len(MOD):].lstrip("/")
    if rest.startswith("."):
        rest = "hdf5" + rest
    else:
        rest = rest.split("/")[-1]
    return rest.replace("(*", "(")


def parse_races(text):
    """-> list of dict(pair=(f1,f2), stacks=[...], raw=...)"""
    out = []
    for blk in text.split("WARNING: DATA RACE")[1:]:
        blk = blk.split("==================")[0]
        heads = [m.start() for m in RACE_HDR.finditer(blk)]
        accs = []
        for i, h in enumerate(heads[:2]):
            end = heads[i + 1] if i + 1 < len(heads) else (blk.find("\nGoroutine", h) if blk.find("\nGoroutine", h) > 0 else len(blk))
            lines = blk[h:end].splitlines()[1:]
            frames = []
            for j in range(0, len(lines) - 1, 2):
                fn, loc = lines[j].strip(), lines[j + 1].strip()
                if not fn:
                    break
                frames.append((fn, loc))
            lib = None
            for fn, loc in frames:
                if "_test.go" in loc:
                    continue
                n = norm_func(fn)
                if n:
                    lib = n
                    break
            if lib is None:
                tf = [fn for fn, loc in frames if "_test.go" in loc]
                lib = "test:" + (tf[0].split("/")[-1] if tf else (frames[0][0] if frames else "?"))
            accs.append(lib)
        while len(accs) < 2:
            accs.append("?")
        out.append(dict(pair=tuple(sorted(accs)), raw=("WARNING: DATA RACE" + blk)[:3500]))
    return out


def overlay_for_tests(d):
    ov = os.path.join(d, "overlay.json")
    vlib.overlay_json(ov)
    return ov


def build_tests(d):
    """go test -c -race for the three packages; returns {pkgname: (binary, pkgdir)} and build log on failure."""
    ov = overlay_for_tests(d)
    bins = {}

    def one(pk):
        path, name = pk
        binp = os.path.join(d, "c18_%s.test" % name)
        p = vlib.sh(["go", "test", "-c", "-race", "-tags", "verif", "-overlay", ov, "-o", binp, "./" + path],
                    cwd=vlib.REPO, env=vlib.GOENV, timeout=1500)
        return name, path, binp, p
    with cf.ThreadPoolExecutor(3) as ex:
        for name, path, binp, p in ex.map(one, PKGS):
            if p.returncode != 0 or not os.path.exists(binp):
                raise vlib.HarnessBuildError("go test -c -race ./%s failed:\n%s" % (path, (p.stdout + p.stderr)[-4000:]))
            bins[name] = (binp, os.path.join(vlib.REPO, path))
    return bins


def list_tests(binp, cwd):
    p = vlib.sh([binp, "-test.list", "TestVerifC18"], cwd=cwd, timeout=120)
    return [l.strip() for l in p.stdout.splitlines() if l.startswith("TestVerifC18")]


def run_one(job):
    binp, cwd, test, procs, seed, iters, tmo = job[:7]
    env = dict(os.environ, GOMAXPROCS=str(procs), VERIF_C18_SEED=str(seed), VERIF_C18_ITERS=str(iters),
               GORACE="halt_on_error=0 history_size=3")
    if len(job) > 7 and job[7] is not None:
        env["VERIF_C18_SWEEP"] = str(job[7])       # quick tier: the processes of a run share the sweep over the cut lengths
    else:
        env.pop("VERIF_C18_SWEEP", None)
    t0 = time.time()
    try:
        p = subprocess.run([binp, "-test.run", "^%s$" % test, "-test.count=1", "-test.v", "-test.timeout", "%ds" % tmo],
                           cwd=cwd, env=env, capture_output=True, text=True, timeout=tmo + 30)
        out, rc = p.stdout + p.stderr, p.returncode
    except subprocess.TimeoutExpired as e:
        out, rc = ((e.stdout or b"").decode("utf8", "replace") if isinstance(e.stdout, bytes) else (e.stdout or "")) + "\n[harness-timeout]", -9
    return dict(test=test, procs=procs, seed=seed, iters=iters, rc=rc, out=out, wall=time.time() - t0, sweep=env.get("VERIF_C18_SWEEP"))


def classify(res, ks):
    """-> (violations, known_lines) for one test process."""
    viol, known = [], []
    out = res["out"]
    replay = dict(test=res["test"], GOMAXPROCS=res["procs"], VERIF_C18_SEED=res["seed"], VERIF_C18_ITERS=res["iters"],
                  VERIF_C18_SWEEP=res.get("sweep"),
                  command="go test -tags verif -overlay <overlay.json> -race -count=1 -run '^%s$' (package of the test) with the env above" % res["test"])
    seen = set()
    for r in parse_races(out):
        if r["pair"] in seen:
            continue
        seen.add(r["pair"])
        k = match_functions(ks, [f for f in r["pair"] if not f.startswith("test:")] or list(r["pair"]))
        if k:
            known.append("%s: data race %s / %s (%s, GOMAXPROCS=%d)" % (k["id"], r["pair"][0], r["pair"][1], res["test"], res["procs"]))
        else:
            viol.append(dict(what="data race between %s and %s (go test -race, %s, GOMAXPROCS=%d)" % (r["pair"][0], r["pair"][1], res["test"], res["procs"]),
                             failing_input=replay, race_pair=list(r["pair"]), report=r["raw"]))
    # panics (the test's own goroutines recover and report "[panic]"; a library goroutine kills the binary)
    pan = re.search(r"^panic: (.*)$", out, re.M)
    fatal = re.search(r"^fatal error: (.*)$", out, re.M)
    msgs = re.findall(r"^\s+\S+_test\.go:\d+: (\[[a-z-]+\].*)$", out, re.M)
    if pan or fatal:
        what = (pan or fatal).group(0)
        tail = out[(pan or fatal).start():][:3000]
        funcs = [n for n in (norm_func(l) for l in re.findall(r"^(%s\S*)\(" % re.escape(MOD), tail, re.M)) if n]
        msgs.append("[panic] %s in %s" % (what, ", ".join(funcs[:3])))
    for mline in msgs:
        cls = mline[1:mline.index("]")]
        k = None
        for cand in ks:
            for pat in cand.get("match", {}).get("failures", []):
                if pat.get("class") == cls and pat.get("test", res["test"]) == res["test"] and re.search(pat.get("message", ""), mline):
                    k = cand
        if k:
            known.append("%s: %s (%s, GOMAXPROCS=%d)" % (k["id"], mline[:160], res["test"], res["procs"]))
        else:
            viol.append(dict(what="%s: %s (GOMAXPROCS=%d, seed %d)" % (res["test"], mline[:200], res["procs"], res["seed"]),
                             failing_input=replay, failure_class=cls, output_tail=out[-3000:]))
    if res["rc"] != 0 and not msgs and not seen:
        viol.append(dict(what="%s failed without a classified message (rc=%s, GOMAXPROCS=%d)" % (res["test"], res["rc"], res["procs"]),
                         failing_input=replay, failure_class="unclassified", output_tail=out[-3000:]))
    return viol, known


def suite_race_search(d, ks):
    """thorough tier: the library's own tests of the anchored packages under -race (extra search)."""
    ov = os.path.join(d, "overlay.json")
    p = vlib.sh(["go", "test", "-race", "-count=1", "-tags", "verif", "-overlay", ov, "-timeout", "20m",
                 "./internal/structures/", "./internal/rebalancing/", "./internal/utils/", "."],
                cwd=vlib.REPO, env=dict(vlib.GOENV, GORACE="halt_on_error=0"), timeout=1500)
    out = p.stdout + p.stderr
    races = parse_races(out)
    return races, len(re.findall(r"^ok\s", out, re.M)), out


def dynamic_half(ctx, viol, known, cov, ks):
    d = vlib.scratch()
    t0 = time.time()
    bins = build_tests(d)
    cov["race_build_s"] = round(time.time() - t0, 1)
    quick = ctx.tier == "quick"
    procs = [1, 2, 4, 16] if quick else [1, 2, 3, 4, 8, 16, 32]
    iters = 20 if quick else 60         # 20 is the tests' own default
    rounds = 1 if quick else 3
    jobs = []
    tests = {}
    for name, (binp, cwd) in bins.items():
        tests[name] = list_tests(binp, cwd)
        for t in tests[name]:
            for rnd in range(rounds):
                for ip, pc in enumerate(procs):
                    jobs.append((binp, cwd, t, pc, ctx.seed + 1000 * rnd + pc, iters, 240 if quick else 600,
                                 (ip + ctx.seed) % 2 if quick else None))
    if not any(tests.values()):
        viol.append(dict(what="no TestVerifC18 tests found in the overlay build", nofail=True, correspondence="harness/overlay/**/zz_verif_c18_test.go"))
        return
    workers = max(2, min(8, (os.cpu_count() or 4) // 2))
    t1 = time.time()
    with cf.ThreadPoolExecutor(workers) as ex:
        results = list(ex.map(run_one, jobs))
    cov["race_run_s"] = round(time.time() - t1, 1)
    nfail = 0
    allk = []
    seen_viol = set()
    for r in results:
        v, k = classify(r, ks)
        allk += k
        if v:
            nfail += 1
        for x in v:
            keyv = (x.get("failure_class"), tuple(x.get("race_pair", [])), r["test"])
            if keyv in seen_viol:
                continue
            seen_viol.add(keyv)
            viol.append(x)
    # one KNOWN-FINDING line per (id, description without the run parameters)
    agg = {}
    for line in allk:
        base = re.sub(r" \(TestVerifC18\w*, GOMAXPROCS=\d+\)$", "", line)
        base = re.sub(r"\b(seed|round|stoppers|iteration)[= ]\d+", r"\1=*", base)      # run parameters are in the evidence, not in the line
        base = re.sub(r"(\[result-diff\][^:]*:[^:]*:? ?\w+).*", r"\1 ...", base)
        agg[base] = agg.get(base, 0) + 1
    for base, n in sorted(agg.items()):
        known.append("%s [reproduced in %d test processes]" % (base, n))
    cov["evaluations"] += len(results)
    cov["dynamic"] = dict(tests=tests, processes=len(results), gomaxprocs=procs, iters=iters, rounds=rounds,
                          failing_processes=nfail, slowest=sorted(((round(r["wall"], 1), r["test"], r["procs"]) for r in results), reverse=True)[:5])
    if not quick:
        races, okpk, out = suite_race_search(d, ks)
        unk = []
        for r in races:
            if not match_functions(ks, [f for f in r["pair"] if not f.startswith("test:")] or list(r["pair"])):
                unk.append(r)
        cov["suite_under_race"] = dict(packages_ok=okpk, race_reports=len(races), unlisted=len(unk))
        seen = set()
        for r in unk:
            if r["pair"] in seen:
                continue
            seen.add(r["pair"])
            viol.append(dict(what="data race between %s and %s (library's own test suite under -race)" % r["pair"],
                             failing_input=dict(command="go test -race -count=1 ./internal/structures/ ./internal/rebalancing/ ./internal/utils/ ."),
                             race_pair=list(r["pair"]), report=r["raw"]))


# ----------------------------------------------------------------------------- entry point
def run(ctx):
    viol, known = [], []
    cov = dict(evaluations=0)
    ks = known_entries()
    st = static_half(ctx, viol, known, cov, ks)
    nviol_before = len(viol)
    dynamic_half(ctx, viol, known, cov, ks)
    dyn = viol[nviol_before:]
    if st:
        # an unexplained unprotected access: the race detector was asked for a schedule (dynamic_half);
        # a matching race report is the replay, otherwise the table itself is the (no-failing-input) replay
        for rec in st["static_bad"]:
            hit = None
            for x in dyn:
                if x.get("race_pair") and any(f in rec["functions"] for f in x["race_pair"]):
                    hit = x
                    break
            if hit:
                hit["static_table"] = rec
                hit["what"] += "; the access table has no common lock for %s" % rec["location"]
            else:
                viol.append(dict(what="no common lock / confinement for %s: unlocked %s" % (rec["location"], "; ".join(rec["unlocked_sites"][:3])),
                                 nofail=True, correspondence="locktable_ok (Gen/LockTable.v regenerated from the source) = true, theorem C18_table_sound",
                                 case=rec))
        for rec in st["shape_bad"]:
            lifecycle = [x for x in dyn if x.get("failure_class") in ("panic", "stop-timeout", "goroutine-leak")]
            replayers = rec.get("refutation", {}).get("replayed_by", [])
            hit = next((x for x in lifecycle if (x.get("failing_input") or {}).get("test") in replayers), None) or next(iter(lifecycle), None)
            if hit:
                hit["protocol_shape"] = rec
                hit["what"] += "; " + rec["what"]
            else:
                viol.append(dict(what=rec["what"], nofail=True, case=rec,
                                 correspondence="tools/c18_protocol_shape.json (golden skeletons of the code Model/Lifecycle.v transcribes) vs tools/locktable on the current source; theorems C18_inc_*, C18_smart_*, C18_tree_*"))
        for rec in st["pool_bad"]:
            # a buffer that is in the pool twice: the faulty-opens test is the search for a failing input
            hit = (next((x for x in dyn if x.get("failure_class") == "pool-alias"), None)
                   or next((x for x in dyn if (x.get("failing_input") or {}).get("test") == "TestVerifC18_FaultyOpensBesideHealthyReaders"), None)
                   or next((x for x in dyn if x.get("failure_class") == "result-diff"), None))
            if hit and rec["kind"] != "extractor":
                hit.setdefault("pool_discipline", []).append(rec)
                if "pooled buffer" not in hit["what"]:
                    hit["what"] += "; static analysis: " + rec["what"]
            else:
                viol.append(dict(what=rec["what"], nofail=True, case=rec,
                                 correspondence="tools/locktable/poolcheck.go on the current source: every buffer of the shared byte-buffer pool is "
                                                "released at most once on every path and not used or returned afterwards"))
        for rec in st["pv_bad"]:
            viol.append(dict(what="package-level variable %s is written outside init (%s)" % (rec["variable"], rec["writes"][0]["func"]),
                             nofail=True, correspondence="package-level state of the library is immutable after init", case=rec))
    # one KNOWN-FINDING line per finding id; the individual confirmations go to the evidence
    by_id = {}
    for line in known:
        kid, _, rest = line.partition(": ")
        by_id.setdefault(kid, []).append(rest)
    cov["known_detail"] = {k: v for k, v in by_id.items()}
    known = []
    for kid, items in sorted(by_id.items()):
        st_n = sum(1 for x in items if "[static table]" in x or "package-level" in x)
        races = [x for x in items if x.startswith("data race")]
        fails = [x for x in items if x.startswith("[")]
        parts = []
        if any("[protocol skeleton]" in x for x in items):
            parts.append("Start/Stop/loop have the shape refuted in Model/Lifecycle.v")
        if st_n:
            parts.append("%d shared field(s) without a common lock in the regenerated lock table" % st_n)
        if races:
            parts.append("%d distinct race pair(s) under -race, e.g. %s" % (len(races), re.sub(r" \[reproduced.*", "", races[0])[10:]))
        if fails:
            parts.append("%d failure class(es), e.g. %s" % (len(fails), re.sub(r" \[reproduced.*", "", fails[0])[:110]))
        known.append("%s re-confirmed: %s" % (kid, "; ".join(parts)))
    for k in ks:
        if k["id"] not in by_id:
            cov.setdefault("known_not_reproduced", []).append(k["id"])
    lt = cov.get("lock_table", {})
    cov.update(dict(
        distinct_nontrivial=lt.get("locations", 0) + cov.get("dynamic", {}).get("processes", 0),
        rule="static: one evaluation per (access site, role) entry of the regenerated lock table, distinct = shared locations with a "
             "protection verdict; dynamic: one evaluation per (test, GOMAXPROCS, seed) process of the -race overlay tests",
        samples=[dict(lock_table_protection=dict(list(lt.get("protection", {}).items())[:6])),
                 dict(dynamic_slowest=cov.get("dynamic", {}).get("slowest"))],
        input_distribution=dict(gomaxprocs=cov.get("dynamic", {}).get("gomaxprocs"), tests=cov.get("dynamic", {}).get("tests"),
                                background_intervals="1us..1ms (see the overlay tests)", seed=ctx.seed),
        exhaustive=False,
        schedules_note="all interleavings are covered only by the Coq theorems over the abstract model; the race detector explores the schedules that occur",
    ))
    return dict(violations=viol, known=known, coverage=cov)


def replay(ctx, path):
    """Re-run the test process named in a replay file (up to 5 attempts: the schedule is not reproducible
    bit for bit), or re-evaluate the lock table when the replay is a static one. Returns the failures."""
    rep = json.load(open(path))
    det = rep.get("detail", {})
    fi = det.get("failing_input") or {}
    ks = [] if os.environ.get("VERIF_C18_IGNORE_KNOWN") else known_entries()
    fails = []
    if fi.get("test"):
        d = vlib.scratch()
        bins = build_tests(d)
        for name, (binp, cwd) in bins.items():
            if fi["test"] in list_tests(binp, cwd):
                for attempt in range(5):
                    r = run_one((binp, cwd, fi["test"], int(fi.get("GOMAXPROCS", 4)), int(fi.get("VERIF_C18_SEED", 1)) + attempt,
                                 int(fi.get("VERIF_C18_ITERS", 1)), 600))
                    v, _ = classify(r, ks)
                    if v:
                        fails = v
                        break
        for f in fails:
            print("REPRODUCED: " + f["what"])
    else:
        viol, known, cov = [], [], dict(evaluations=0)
        st = static_half(ctx, viol, known, cov, ks)
        fails = viol + (st["static_bad"] + st["pv_bad"] + st["pool_bad"] if st else [])
        for f in fails:
            print("REPRODUCED (static): " + (f.get("what") or f.get("location") or f.get("variable")))
    if not fails:
        print("not reproduced")
    return fails
