"""C15 - the fractal heap returns exactly the bytes stored under each live id.

Tie: generated insert / get / overwrite / delete / store+load histories are replayed on the real
WritableFractalHeap (harness subcommand c15) and on the Coq model (Model/FHeap.v, evaluated by coqc
vm_compute through Model/FHeapTie.case_code): every returned id / byte string / ok-err class, the header
counters after every operation, the bytes of every serialised header and direct block, and the answers of
the two read-only readers (structures.FractalHeap.ReadObject and the minimal reader of core's dense
attribute path) on the final file are compared.

Independently of the model a Python oracle (a dict id -> bytes, a volume counter) judges the Go outputs
directly against the property text; it also decides the class of a history:
  in-domain            total inserted volume <= usable size of one direct block, overwrite/delete address live ids
  multi-block          an insert does not fit the first direct block: it succeeds in memory, every later write-out is
                       refused                                              (KNOWN_FINDINGS C15-multi-block)
  dead-id              overwrite/delete of an id that is not live           (KNOWN_FINDINGS C15-dead-id)
  offset-wrap          block size above 64 KiB and an object beyond offset 65535 (KNOWN_FINDINGS C15-offset-wrap)
"""
import hashlib, json, resource, time, zlib
import vlib

try:      # coqc (a child process) needs a deep stack for 64 KiB byte lists
    resource.setrlimit(resource.RLIMIT_STACK, (resource.RLIM_INFINITY, resource.RLIM_INFINITY))
except (ValueError, OSError):
    pass

TRUSTED = ["C15: superblock context fixed to 8-byte offsets/lengths, little endian (the only one the writer produces); "
           "hash/crc32 re-implemented bitwise in Base/Crc32.v and compared on every serialised header and block",
           "C15: Go map iteration order in insertViaIndirect is modelled as a free choice; histories in which more than "
           "one child block could take an object are not compared with the model (multi-block class only)"]
ASSUMPTIONS = ["heaps are created by NewWritableFractalHeap and reloaded into a fresh heap of the same block size, as all callers do"]

MAXOBJ = 65536
OVERHEAD = 19           # prefix 15 + checksum 4 (the repaired capacity rule)
CAP = "cap_new"
COUNTS = {"quick": (700, 8), "thorough": (20000, 140)}   # random histories: small blocks, blocks >= 16 KiB


def usable(bs):
    return bs - OVERHEAD if bs >= OVERHEAD else 0


def dec_id(idb):
    """(offset, length) as the 8-byte id encodes them (offset 2 bytes, length up to 3 bytes, little endian)."""
    return int.from_bytes(idb[1:3], "little"), int.from_bytes(idb[3:6], "little")


# ----------------------------------------------------------------------------- generator

BS_SMALL = [64, 64, 65, 83, 100, 128, 255, 256, 257, 300, 512, 1000, 1024, 2048, 4096]
BS_BIG = [16384, 65535, 65536]
KINDS = ["below", "below", "at", "at", "near", "above", "above1", "misuse", "errors"]


def gen_sizes(rng, target, maxpiece):
    """object sizes summing exactly to target (target >= 1)."""
    out, left = [], target
    while left > 0:
        r = rng.random()
        if r < 0.15:
            n = 1
        elif r < 0.3:
            n = left
        elif r < 0.65:
            n = rng.randint(1, max(1, min(left, 24)))
        else:
            n = rng.randint(1, left)
        n = max(1, min(n, left, maxpiece))
        out.append(n)
        left -= n
    return out


def rbytes(rng, n):
    """object contents: random bytes when short; a constant or a ramp when long (compact in the Coq case file)"""
    r = rng.random()
    if n > 48 or r < 0.2:
        b = rng.randrange(1, 256)
        return bytes([b]) * n if rng.random() < 0.5 else bytes((b + i) & 0xFF for i in range(n))
    if r < 0.3:
        return bytes(n)                       # an all-zero object (indistinguishable from a deleted range)
    return bytes(rng.randrange(256) for _ in range(n))


def gen_case(rng, bs, kind):
    """Return (case dict for the harness, kind)."""
    u = usable(bs)
    ops = []
    live, dead = {}, []            # insert-op index -> size ; dead insert indices
    vol = 0

    def ins(n, data=None):
        nonlocal vol
        d = rbytes(rng, n) if data is None else data
        ops.append({"op": "ins", "data": d.hex()})
        return len(ops) - 1

    def sprinkle(p_sl=0.12):
        """a few non-insert operations on the current state"""
        for _ in range(rng.choice([0, 0, 1, 1, 2, 3])):
            r = rng.random()
            if r < p_sl:
                ops.append({"op": "sl"})
            elif live and r < 0.45:
                k = rng.choice(list(live))
                ops.append({"op": "get", "ref": k})
            elif live and r < 0.7:
                k = rng.choice(list(live))
                n = live[k]
                if rng.random() < 0.75:
                    ops.append({"op": "ovw", "ref": k, "data": rbytes(rng, n).hex()})
                else:                                  # different size: must fail and change nothing
                    m = rng.choice([n + 1, max(0, n - 1), 0, n + rng.randint(1, 9)])
                    if m == n:
                        m = n + 1
                    ops.append({"op": "ovw", "ref": k, "data": rbytes(rng, m).hex()})
            elif live and r < 0.85:
                k = rng.choice(list(live))
                ops.append({"op": "del", "ref": k})
                dead.append(k)
                del live[k]
            elif dead and r < 0.93:
                ops.append({"op": "get", "ref": rng.choice(dead)})        # get of a dead id: no expectation, no change
            else:
                ops.append({"op": "sl"})

    if kind in ("below", "at", "near", "above", "above1", "misuse"):
        if kind == "below":
            target = rng.randint(1, max(1, u - 1))
        elif kind in ("at", "above1", "misuse"):
            target = u
        elif kind == "near":
            target = max(1, u - rng.randint(1, 4))
        else:
            target = u                       # fill the first block, the overflow comes below
        if kind == "misuse":
            target = rng.randint(1, u)
        sizes = gen_sizes(rng, target, MAXOBJ)
        if len(sizes) > 40:
            sizes = sizes[:39] + [target - sum(sizes[:39])]
            if sizes[-1] > MAXOBJ or sizes[-1] <= 0:
                sizes = gen_sizes(rng, target, MAXOBJ)[:40]
        for n in sizes:
            k = ins(n)
            live[k] = n
            vol += n
            sprinkle()
        if kind == "near":
            # the remaining room is u - target in [1,4]; an object of exactly that size still fits
            if rng.random() < 0.5:
                k = ins(u - vol)
                live[k] = u - vol
                vol = u
        if kind == "above1":
            # first block exactly full; one more byte must not be lost whatever happens
            ops.append({"op": "sl"}) if rng.random() < 0.5 else None
            k = ins(1)
            live[k] = 1
            sprinkle(0.3)
        if kind == "above":
            extra = rng.choice([1, 2, OVERHEAD, bs // 2, bs, bs + 1, 2 * bs])
            for n in gen_sizes(rng, min(extra, 4 * MAXOBJ), min(MAXOBJ, max(1, bs))):
                k = ins(n)
                live[k] = n
                if rng.random() < 0.3:
                    ops.append({"op": "get", "ref": k})
            if rng.random() < 0.5:
                ops.append({"op": "sl"})
        if kind == "misuse" and (dead or live):
            # delete / overwrite of ids that are no longer live, then ordinary operations
            if not dead:
                k = rng.choice(list(live))
                ops.append({"op": "del", "ref": k})
                dead.append(k)
                del live[k]
            k = rng.choice(dead)
            if rng.random() < 0.6:
                ops.append({"op": "del", "ref": k})
            else:
                ops.append({"op": "ovw", "ref": k, "data": rbytes(rng, 1).hex()})
            sprinkle()
    else:  # errors: empty / oversized inserts, malformed ids, around a few good objects
        for _ in range(rng.randint(1, 4)):
            n = rng.randint(1, max(1, u // 6))
            k = ins(n)
            live[k] = n
            vol += n
        bad = rng.choice(["empty", "empty", "badid", "badid", "big"])
        if bad == "empty":
            ops.append({"op": "ins", "data": ""})
        elif bad == "big":
            ops.append({"op": "ins", "data": (b"\x07" * (MAXOBJ + rng.choice([1, 2, 100]))).hex()})
        else:
            good = b"\x00" + (0).to_bytes(2, "little") + (1).to_bytes(3, "little") + b"\0\0"
            forged = rng.choice([b"", good[:7], good + b"\0", bytes([0x40]) + good[1:], bytes([0x10]) + good[1:],
                                 bytes([0x20]) + good[1:], b"\x00" + (60000).to_bytes(2, "little") + good[3:]])
            ops.append({"op": rng.choice(["get", "get", "ovw", "del"]), "id": forged.hex(), "data": "aa"})
            if ops[-1]["op"] != "ovw":
                del ops[-1]["data"]
        sprinkle()
        if rng.random() < 0.5:
            k = ins(rng.randint(1, max(1, u // 6)))
            live[k] = 1
    # read everything that is live at the end, in memory and through the two readers
    final_refs = sorted(live)
    for k in final_refs:
        ops.append({"op": "get", "ref": k})
    case = {"bs": bs, "ops": ops, "final_refs": final_refs}
    if bs > 4096:
        case["nobytes"] = True
    return case


# ----------------------------------------------------------------------------- independent oracle

def judge(case, res):
    """Judge the Go outputs against the property text with a dict.  Returns dict(cls, problems, facts, ids)."""
    bs, ops = case["bs"], case["ops"]
    u = usable(bs)
    live = {}                 # id hex -> bytes
    ever = {}                 # insert op index -> id hex (as returned by Go)
    vol = 0
    cls = "in-domain"
    problems = []             # property violated on an in-domain prefix
    facts = {"failed_insert_changed_state": 0, "load_failed": 0, "store_refused": 0, "dead_delete_ok": 0, "count_wrong": 0,
             "nondet": 0, "wrapped": 0, "overflow_insert_ok": 0, "bigger_than_block_ok": 0, "modify_other_block_failed": 0}

    def rid(op):
        if "ref" in op:
            return ever.get(op["ref"])
        return op.get("id")

    for i, (op, r) in enumerate(zip(ops, res["ops"])):
        if r.get("skip"):
            continue
        k = op["op"]
        indom = cls == "in-domain"
        before_cls = cls
        if k == "ins":
            d = bytes.fromhex(op["data"])
            if len(d) == 0 or len(d) > MAXOBJ:
                if indom and (r["ok"] or not r["same"]):
                    problems.append((i, "an insert of %d bytes must fail and change nothing" % len(d)))
            elif vol + len(d) > u and cls == "in-domain" and r["ok"] and r["st"][6] == 0:
                # the known multi-block class starts with a transition to an indirect root; an object that is
                # accepted into the first direct block beyond its usable size is a different matter
                problems.append((i, "an insert of %d bytes at fill level %d was accepted into the first direct block, usable size %d "
                                    "(block size %d - prefix 15 - checksum 4)" % (len(d), vol, u, bs)))
                ever[i] = r["id"]
                live[r["id"]] = d
                vol += len(d)
            elif vol + len(d) > u or cls == "multi-block":
                cls = "multi-block" if cls in ("in-domain", "multi-block") else cls
                if r["ok"]:
                    ever[i] = r["id"]
                    live[r["id"]] = d
                    facts["overflow_insert_ok"] += 1
                    if len(d) > u:
                        facts["bigger_than_block_ok"] += 1
                elif not r["same"]:
                    facts["failed_insert_changed_state"] += 1
            else:
                if not r["ok"]:
                    if indom:
                        problems.append((i, "an insert that fits (%d + %d <= %d) failed" % (vol, len(d), u)))
                else:
                    idb = bytes.fromhex(r["id"])
                    ever[i] = r["id"]
                    off, n = dec_id(idb)
                    if indom:
                        if len(idb) != 8 or n != len(d):
                            problems.append((i, "id %s does not carry the object length %d" % (r["id"], len(d))))
                        if r["id"] in live:
                            problems.append((i, "id %s returned twice while live" % r["id"]))
                        if off + n > u:
                            if bs > 65536 + OVERHEAD:
                                cls = "offset-wrap"
                            else:
                                problems.append((i, "object range [%d,%d) leaves the usable block space %d" % (off, off + n, u)))
                        for lid, ld in live.items():
                            lo, ln = dec_id(bytes.fromhex(lid))
                            if not (lo + ln <= off or off + n <= lo):
                                if bs > 65536 + OVERHEAD:
                                    cls = "offset-wrap"
                                    facts["wrapped"] += 1
                                else:
                                    problems.append((i, "byte range of new id %s overlaps live id %s" % (r["id"], lid)))
                                break
                    live[r["id"]] = d
                    vol += len(d)
        elif k == "get":
            idh = rid(op)
            if not r.get("same", True):
                problems.append((i, "a get changed the heap state")) if indom else None
            if idh in live and cls in ("in-domain",):
                if not r["ok"] or bytes.fromhex(r["data"]) != live[idh]:
                    problems.append((i, "get of live id %s returned %s, stored %s" % (
                        idh, (r.get("data") or r.get("err"))[:80], live[idh].hex()[:80])))
            elif idh in live and cls == "multi-block":
                if not r["ok"] or bytes.fromhex(r["data"]) != live[idh]:
                    facts.setdefault("inmem_get_wrong", 0)
                    facts["inmem_get_wrong"] += 1
        elif k == "ovw":
            idh = rid(op)
            d = bytes.fromhex(op["data"])
            if idh in live:
                if len(d) == len(live[idh]):
                    if r["ok"]:
                        live[idh] = d
                    elif indom:
                        problems.append((i, "same-size overwrite of live id %s failed" % idh))
                    elif cls == "multi-block":
                        facts["modify_other_block_failed"] += 1
                else:
                    if indom and (r["ok"] or not r["same"]):
                        problems.append((i, "overwrite with a different size must fail and change nothing"))
            else:
                malformed = idh is None or len(idh) != 16 or (int(idh[:2], 16) & 0xF0) != 0
                if malformed:
                    if indom and (r["ok"] or not r["same"]):
                        problems.append((i, "overwrite through a malformed id must fail and change nothing"))
                elif cls == "in-domain":
                    cls = "dead-id"
        elif k == "del":
            idh = rid(op)
            if idh in live:
                if r["ok"]:
                    del live[idh]
                elif indom:
                    problems.append((i, "delete of live id %s failed" % idh))
                elif cls == "multi-block":
                    facts["modify_other_block_failed"] += 1
            else:
                malformed = idh is None or len(idh) != 16 or (int(idh[:2], 16) & 0xF0) != 0
                if malformed:
                    if indom and (r["ok"] or not r["same"]):
                        problems.append((i, "delete through a malformed id must fail and change nothing"))
                else:
                    if cls == "in-domain":
                        cls = "dead-id"
                    if r["ok"]:
                        facts["dead_delete_ok"] += 1
        elif k == "sl":
            if not r["ok"]:
                if indom:
                    problems.append((i, "store/load failed (%s): %s" % (r.get("stage"), r.get("err"))))
                elif r.get("stage") == "store":
                    facts["store_refused"] += 1
                else:
                    facts["load_failed"] += 1
        # header accounting after every operation
        st = r["st"]
        count, free = len(live), bs - sum(len(v) for v in live.values())
        if cls == "in-domain" and before_cls == "in-domain":
            if st[0] != count or st[1] != free:
                problems.append((i, "header reports count=%d free=%d, the map has count=%d free=%d" % (st[0], st[1], count, free)))
            if r.get("ok") is False and k != "sl" and not r.get("same", True):
                problems.append((i, "a failing %s changed the heap state" % k))
        elif st[0] != count or st[1] != free % (1 << 64):
            facts["count_wrong"] += 1
    # final store: nothing lost to prefix / checksum; both readers agree with the map
    lost = []
    if res["store"].get("ok"):
        blk = bytes.fromhex(res["store"]["blk"])
        byid = {e["id"]: e for e in (res.get("readers") or [])}
        for idh, d in live.items():
            off, n = dec_id(bytes.fromhex(idh))
            inblk = blk[15 + off:15 + off + n] == d and 15 + off + n <= len(blk) - 4
            e = byid.get(idh)
            ro = e and e["ro"]["ok"] and bytes.fromhex(e["ro"]["data"]) == d
            co = e and e["core"]["ok"] and bytes.fromhex(e["core"]["data"]) == d
            if not inblk or (e is not None and not (ro and co)):
                lost.append((idh, inblk, bool(ro), bool(co)))
        if cls == "in-domain" and len(byid) < len(live):
            problems.append((len(ops), "harness did not read every live id back"))
    elif cls == "in-domain":
        problems.append((len(ops), "final store failed: %s" % res["store"].get("err")))
    else:
        facts["store_refused"] += 1
    if lost:
        if cls == "in-domain":
            idh, inblk, ro, co = lost[0]
            problems.append((len(ops), "after write-out the bytes of live id %s are %s (ReadObject ok=%s, dense-attribute reader ok=%s)" % (
                idh, "in the block" if inblk else "NOT in the serialised block", ro, co)))
        else:
            facts["lost_after_store"] = len(lost)
    return dict(cls=cls, problems=problems, facts=facts, ids=ever, nlive=len(live))


# ----------------------------------------------------------------------------- Coq transport

def cb(h):
    """Coq term for a byte string given in hex: literal when short, rep/ramp pattern when long."""
    b = bytes.fromhex(h)
    n = len(b)
    if n > 48:
        if b == bytes([b[0]]) * n:
            return "(rep %d %d)" % (b[0], n)
        if all(b[i] == (b[0] + i) & 0xFF for i in range(n)):
            return "(ramp %d %d)" % (b[0], n)
    if n <= 1000:
        return '(unhex "%s")' % h
    return "(" + " ++ ".join('unhex "%s"' % h[i:i + 2000] for i in range(0, len(h), 2000)) + ")"


def crc(h):
    return zlib.crc32(bytes.fromhex(h or "")) & 0xFFFFFFFF


def dg(h):
    """digest (length, CRC-32) of a byte string given in hex"""
    b = bytes.fromhex(h or "")
    return "%d %d" % (len(b), zlib.crc32(b) & 0xFFFFFFFF)


def coq_case(name, case, res):
    """tcase literal: the history with the ids Go returned, and every Go observable (digests)."""
    ops, obs = [], []
    ids = {}
    for i, (op, r) in enumerate(zip(case["ops"], res["ops"])):
        if r.get("skip"):
            continue
        k = op["op"]
        if k == "ins" and r["ok"]:
            ids[i] = r["id"]
        idh = ids.get(op["ref"]) if "ref" in op else op.get("id", "")
        if k == "ins":
            ops.append("Ins %s 0" % cb(op["data"]))
        elif k == "get":
            ops.append("Get %s" % cb(idh))
        elif k == "ovw":
            ops.append("Ovw %s %s" % (cb(idh), cb(op["data"])))
        elif k == "del":
            ops.append("Del %s" % cb(idh))
        else:
            ops.append("SL")
        obs.append("mkObs %s %s %s %s %d %d" % (
            vlib.cbool(bool(r.get("ok"))), dg(r.get("id") or r.get("data")), vlib.cbool(bool(r.get("same", True))),
            vlib.cNlist(r["st"]), crc(r.get("hdr", "")), r.get("blkcrc", 0)))
    st = res["store"]
    readers = []
    for e in res.get("readers") or []:
        readers.append("mkRObs %s %s %s %s %s" % (
            cb(e["id"]), vlib.cbool(e["ro"]["ok"]), dg(e["ro"].get("data")), vlib.cbool(e["core"]["ok"]), dg(e["core"].get("data"))))
    return "Definition %s : tcase := mkCase %d [%s] [%s] %s %d %d [%s].\n" % (
        name, case["bs"], "; ".join(ops), "; ".join(obs), vlib.cbool(bool(st.get("ok"))), crc(st.get("hdr", "")),
        st.get("blkcrc", 0), "; ".join(readers))


def shape(case):
    return hashlib.sha256(json.dumps([case["bs"]] + [(o["op"], len(o.get("data", "")) // 2, o.get("ref", o.get("id"))) for o in case["ops"]]).encode()).hexdigest()[:16]


def trim(case, upto):
    """the history cut after op index upto (replay payload)"""
    c = dict(case)
    c["ops"] = case["ops"][:upto + 1]
    c["final_refs"] = [k for k in case.get("final_refs", []) if k <= upto]
    return c


# ----------------------------------------------------------------------------- replay of one stored case

def replay(ctx):
    """python3 tools/check.py C15 --replay replay/C15-<seed>.json : re-run the stored history on Go and on the model."""
    rp = json.load(open(ctx.replay))
    det = rp.get("detail", rp)
    case = det.get("failing_input") or det.get("case") or det
    res = vlib.run_harness(ctx.harness, "c15", [case])[0]
    viol = []
    print("history (bs=%d):" % case["bs"])
    for i, (o, r) in enumerate(zip(case["ops"], res.get("ops", []))):
        print("  #%d %-3s %-28s -> %s  st=%s" % (i, o["op"], (o.get("data", "")[:24] + ("..." if len(o.get("data", "")) > 24 else "")) or str(o.get("ref", o.get("id", ""))),
                                            {k: (v[:32] if isinstance(v, str) else v) for k, v in r.items() if k in ("ok", "id", "data", "err", "same", "skip")}, r.get("st")))
    if "panic" in res:
        print("implementation panicked:", res["panic"])
        return dict(violations=[dict(what="heap operation panicked", failing_input=case, impl=res)], known=[], coverage=dict(evaluations=1))
    v = judge(case, res)
    print("oracle class:", v["cls"], " problems:", v["problems"], " facts:", {k: n for k, n in v["facts"].items() if n})
    out = vlib.coq_eval("From HV Require Import Base.Prelude Model.FHeap Model.FHeapTie.\n" + coq_case("c0", case, res)
                        + "Definition codes_0 := Eval vm_compute in map (case_code %s) [c0].\nPrint codes_0.\n" % CAP, "c15replay")
    code = vlib.parse_nlist(out, "codes_0")[0]
    print("model vs implementation: %s; Coq specification: %s" % (
        {0: "all observables equal", 1: "an operation result / header field / serialised byte differs", 2: "final store or readers differ"}.get(code % 4, "?")
        + (" (history has a map-order dependent insert)" if code % 8 >= 4 else ""),
        {0: "history outside its domain", 1: "model outputs equal the specification's", 2: "model outputs differ from the specification's"}[code // 8]))
    for i, msg in v["problems"][:1]:
        viol.append(dict(what="bs=%d op#%d: %s" % (case["bs"], i, msg), failing_input=trim(case, i)))
    if code % 4 and not viol:
        viol.append(dict(what="implementation and Coq model disagree on the replayed history", case=case, nofail=True,
                         correspondence="Model.FHeap vs fractalheap_write.go"))
    return dict(violations=viol, known=[], coverage=dict(evaluations=1, distinct_nontrivial=1, rule="replay of one stored history", samples=[case]))


# ----------------------------------------------------------------------------- run

def run(ctx):
    H, rng = ctx.harness, ctx.rng
    t0 = time.time()
    quick = ctx.tier == "quick"
    n_small, n_big = COUNTS["quick" if quick else "thorough"]
    cases, kinds = [], []
    if getattr(ctx, "replay", None):
        return replay(ctx)
    # boundary enumeration: every block size of the pool x fill level u-2 .. u+1 with one and with two objects
    for bs in sorted(set(BS_SMALL)):
        u = usable(bs)
        for tot in (u - 2, u - 1, u, u + 1):
            for split in (None, 1, tot // 2):
                if split is not None and not (0 < split < tot):
                    continue
                sizes = [tot] if split is None else [split, tot - split]
                ops = [{"op": "ins", "data": bytes(((7 * j + i) % 251) + 1 for i in range(n)).hex()} for j, n in enumerate(sizes)]
                ops.append({"op": "sl"})
                ops += [{"op": "get", "ref": j} for j in range(len(sizes))]
                cases.append({"bs": bs, "ops": ops, "final_refs": list(range(len(sizes)))})
                kinds.append("boundary")
    for _ in range(n_small):
        bs = rng.choice(BS_SMALL)
        kind = rng.choice(KINDS)
        cases.append(gen_case(rng, bs, kind))
        kinds.append(kind)
    for _ in range(n_big):
        bs = rng.choice(BS_BIG)
        kind = rng.choice(["below", "at", "near", "above1", "errors"])
        cases.append(gen_case(rng, bs, kind))
        kinds.append(kind + "-big")
    # the 512 KiB heap of dense groups: objects beyond offset 65535 (outside the block sizes the theorems cover)
    wrap_case = {"bs": 524288, "nobytes": True, "ops": [{"op": "ins", "data": (b"\x01" * 40000).hex()}, {"op": "ins", "data": (b"\x02" * 40000).hex()},
                                                         {"op": "ins", "data": (b"\x03" * 10).hex()}, {"op": "get", "ref": 2}], "final_refs": []}
    results = vlib.run_harness_parallel(H, "c15", cases, workers=16)
    wrap_res = vlib.run_harness(H, "c15", [wrap_case])[0]

    viol, known = [], []
    classes, kind_hist, bs_hist, oplen_hist, opmix = {}, {}, {}, {}, {}
    fact_tot = {}
    verdicts = []
    for idx, (case, res) in enumerate(zip(cases, results)):
        if "panic" in res or "harness_error" in res:
            viol.append(dict(what="heap operation panicked: %s" % str(res.get("panic") or res.get("harness_error"))[:200],
                             failing_input=case, impl=res))
            verdicts.append(None)
            continue
        v = judge(case, res)
        verdicts.append(v)
        classes[v["cls"]] = classes.get(v["cls"], 0) + 1
        kind_hist[kinds[idx]] = kind_hist.get(kinds[idx], 0) + 1
        bs_hist[case["bs"]] = bs_hist.get(case["bs"], 0) + 1
        b = min(len(case["ops"]) // 10 * 10, 100)
        oplen_hist[b] = oplen_hist.get(b, 0) + 1
        for o, r in zip(case["ops"], res["ops"]):
            key = o["op"] + ("" if r.get("skip") else (":ok" if r.get("ok") else ":err"))
            opmix[key] = opmix.get(key, 0) + 1
        for k, n in v["facts"].items():
            fact_tot[k] = fact_tot.get(k, 0) + (1 if n else 0)
        if v["problems"]:
            i, msg = v["problems"][0]
            viol.append(dict(what="bs=%d op#%d: %s" % (case["bs"], i, msg), failing_input=trim(case, i),
                             impl=dict(ops=res["ops"][max(0, i - 2):i + 1], final=res.get("final")),
                             spec="python oracle (dict id -> bytes): " + msg, kind=kinds[idx]))
    # ---- model vs implementation, and the Coq specification on the same histories
    order = [i for i, v in enumerate(verdicts) if v is not None]
    labels, files = [], []
    # block sizes above 4 KiB cost seconds per history in Coq: one file each, so that they run in parallel
    groups = [[i] for i in order if cases[i]["bs"] > 4096]
    small = [i for i in order if cases[i]["bs"] <= 4096]
    groups += [small[c0:c0 + 40] for c0 in range(0, len(small), 40)]
    for g, idxs in enumerate(groups):
        vparts = ["From HV Require Import Base.Prelude Model.FHeap Model.FHeapTie.\n"]
        names = []
        for i in idxs:
            vparts.append(coq_case("c%d" % i, cases[i], results[i]))
            names.append("c%d" % i)
        lab = "codes_%d" % g
        vparts.append("Definition %s := Eval vm_compute in map (case_code %s) [%s].\nPrint %s.\n" % (lab, CAP, ";".join(names), lab))
        labels.append((lab, idxs))
        files.append("".join(vparts))
    import concurrent.futures as cf
    with cf.ThreadPoolExecutor(14) as ex:
        outs = list(ex.map(lambda kv: vlib.coq_eval(kv[1], "c15cases_%d" % kv[0]), enumerate(files)))
    out = "\n".join(outs)
    nondet = 0
    model_checked = 0
    spec_in = 0
    for lab, idxs in labels:
        codes = vlib.parse_nlist(out, lab)
        for i, code in zip(idxs, codes):
            cc, sc = code % 8, code // 8
            v = verdicts[i]
            if cc >= 4:
                nondet += 1             # Go's map order decides; not comparable (multi-block class only)
                if v["cls"] == "in-domain":
                    viol.append(dict(what="model reports a nondeterministic insert inside one direct block", case=cases[i], nofail=True,
                                     correspondence="Model.FHeap.insert_choices"))
                continue
            model_checked += 1
            if cc != 0:
                bad = dict(what="implementation and Coq model disagree (%s) on a %s history, bs=%d" % (
                    "operation results / header fields / serialised bytes" if cc == 1 else "final store or read-only readers", v["cls"], cases[i]["bs"]),
                    case=cases[i], impl=dict(final=results[i].get("final"), store={k: (x if not isinstance(x, str) else x[:400]) for k, x in results[i]["store"].items()}),
                    kind=kinds[i])
                if not v["problems"]:
                    bad["nofail"] = True
                    bad["correspondence"] = "Model.FHeap (insert/get/overwrite/delete/store/load, ro_read, core_read) vs internal/structures/fractalheap_write.go; theorems C15_refines / C15_persist / C15_no_byte_lost"
                else:
                    bad["failing_input"] = trim(cases[i], v["problems"][0][0])
                viol.append(bad)
            # classification must agree: the Coq spec accepts exactly the in-domain histories (get of a dead id is
            # outside the Coq spec's domain but inside the oracle's: no expectation)
            if sc == 2:
                viol.append(dict(what="Coq model output differs from the Coq specification on a history the specification covers",
                                 case=cases[i], nofail=True, correspondence="theorem C15_refines"))
            if sc == 1:
                spec_in += 1
                if v["cls"] != "in-domain":
                    viol.append(dict(what="Coq specification covers a history the oracle classifies as %s" % v["cls"], case=cases[i], nofail=True,
                                     correspondence="Model.FHeap.spec_step vs tools/props/c15.py judge"))
    # ---- known findings: re-confirm each class or report it
    kf = {k["id"]: k for k in vlib.known_findings("C15")}
    def finding(fid, confirmed, line, witness):
        if not confirmed:
            return
        if fid in kf:
            known.append(line + " (%s)" % fid)
        else:
            viol.append(dict(what=line, failing_input=witness))
    mb = [i for i, v in enumerate(verdicts) if v and v["cls"] == "multi-block"]
    F = lambda i, k: verdicts[i]["facts"].get(k, 0)
    mb_bad = [i for i in mb if F(i, "overflow_insert_ok") or F(i, "failed_insert_changed_state")]
    mb_lost = [i for i in mb if F(i, "lost_after_store") or F(i, "load_failed")]
    if mb_lost:      # since 5ec600b a multi-block heap must never reach the file
        viol.append(dict(what="a heap that outgrew one direct block was written out and objects are unreadable afterwards",
                         failing_input=cases[mb_lost[0]]))
    finding("C15-multi-block", bool(mb_bad),
            "total volume exceeds one direct block: in %d/%d such histories the insert that does not fit succeeds in memory (indirect root) "
            "instead of failing; write-out is then refused (ErrHeapFull) in %d; a failing insert changed the state in %d; an object larger "
            "than a block was accepted in %d; overwrite/delete of an id outside the first block failed in %d; map-order dependent inserts in %d" % (
                len([i for i in mb if F(i, "overflow_insert_ok")]), len(mb), len([i for i in mb if F(i, "store_refused")]),
                len([i for i in mb if F(i, "failed_insert_changed_state")]), len([i for i in mb if F(i, "bigger_than_block_ok")]),
                len([i for i in mb if F(i, "modify_other_block_failed")]), nondet),
            cases[mb_bad[0]] if mb_bad else None)
    dd = [i for i, v in enumerate(verdicts) if v and v["cls"] == "dead-id"]
    dd_bad = [i for i in dd if verdicts[i]["facts"]["dead_delete_ok"] and verdicts[i]["facts"]["count_wrong"]]
    finding("C15-dead-id", bool(dd_bad),
            "delete of an id that is no longer live succeeds and decrements the object count / adds free space again: %d/%d such histories" % (len(dd_bad), len(dd)),
            cases[dd_bad[0]] if dd_bad else None)
    wr = wrap_res["ops"]
    wrapped = (not ("panic" in wrap_res)) and wr[3].get("ok") and wr[3].get("data") != (b"\x03" * 10).hex()
    finding("C15-offset-wrap", bool(wrapped),
            "block size 524288 (dense groups): the id of an object at offset 80000 wraps to offset 14464 (2-byte offsets); get returns other bytes",
            wrap_case)
    cov = dict(
        evaluations=len(cases) + 1,
        distinct_nontrivial=len({shape(c) for c in cases}),
        rule="one evaluation = one history replayed on the Go heap, judged by the Python oracle, and replayed on the Coq model with every "
             "observable compared (ids, bytes, ok/err, header counters after each op, serialised header/block bytes or their CRC, both "
             "read-only readers on the final file); distinct = distinct (block size, op kinds, sizes, targets) shapes",
        samples=[dict(kind=kinds[i], bs=cases[i]["bs"], ops=[(o["op"], len(o.get("data", "")) // 2) for o in cases[i]["ops"]][:12],
                      cls=verdicts[i]["cls"] if verdicts[i] else None) for i in (0, len(cases) // 3, len(cases) // 2, len(cases) - 1)],
        classes=classes, kinds=kind_hist, block_sizes=bs_hist, history_length_hist=oplen_hist, op_outcomes=opmix,
        fact_histories=fact_tot, model_compared=model_checked, nondeterministic_skipped=nondet, coq_spec_in_domain=spec_in,
        programs=len(cases), disagreements_checked=model_checked, gen_wall_s=round(time.time() - t0, 1))
    return dict(violations=viol, known=known, coverage=cov)
