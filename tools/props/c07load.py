"""C07 loader tie: hdf5.Open on constructed classic-format group graphs (real files) against Model/RobustLoad.v.

For every graph the Go side (verifharness c07load) reports class, objects in the loaded tree (File.Walk), File.loadCount and the
number of marked group B-trees; the Coq model `open (alist_graph ...)` must give the same value (vm_compute, value-exact).
The two switches of the model are read from the tree under test (source text AND a behavioural probe, which must agree):
  keep_mark  : does loadChildren delete the visitedBTrees mark again (seeded change C07-c)?           /repo: kept
  count_all  : are cycle placeholders and groups loaded through cached addresses counted against maxLoads
               (notes/fixes/c07-count-every-object.patch)?                                            /repo today: no
Independent oracle (Python, on the Go outputs only): the bound of the theorem that applies to the switch setting the SOURCE
claims -- C07_open_work_bounded  F*(maxLoads+|U|+2)+1  as it is, C07_open_repaired_file_bound  size/8+1026  when repaired.
An Open that builds more objects than that violates C07 (memory proportional to the file size): VIOLATION with the file as
failing input.  That is what seeded change C07-c does on the diamond family (theorem C07_load_unmarked_exponential)."""
import collections, os, re, struct
import vlib
from props import c11

HDR = ("From HV Require Import Base.Prelude Base.Outcome Base.Bytes Model.CodecTie Model.RobustTerm Model.RobustLoad.\n")
FINDING = "C07-cached-group-loads-uncounted"
U64 = 0xFFFFFFFFFFFFFFFF
OHDR, INTK = 40, 16
TREE = 24 + (2 * INTK + 1) * 8 + 2 * INTK * 8
HEAPH = 32


def E(tg, ct=1, cg=None, zero_bt=False, bad=False):
    return dict(tg=tg, ct=ct, cg=tg if cg is None else cg, zero_bt=zero_bt, bad=bad)


class Layout:
    """groups[i] = entries of group i (root = 0); share[i] = the group whose symbol table node AND heap group i's B-tree uses
    (share[i] = i: its own).  One v1 object header + one B-tree leaf per group, heap + SNOD only for owners."""

    def __init__(self, groups, share=None):
        self.groups = groups
        self.share = share or list(range(len(groups)))
        maxe = max([len(g) for g in groups] + [1])
        self.leafk = max(4, (maxe + 1) // 2)
        self.heapd = 8 * (maxe + 2)
        self.snod_sz = 8 + 2 * self.leafk * 40
        pos = 96
        self.oh, self.tree, self.heap, self.snod = {}, {}, {}, {}
        for i in range(len(groups)):
            self.oh[i], self.tree[i] = pos, pos + OHDR
            pos += OHDR + TREE
            if self.share[i] == i:
                self.heap[i] = pos
                self.snod[i] = pos + HEAPH + self.heapd
                pos += HEAPH + self.heapd + self.snod_sz
        self.size = pos

    def heap_of(self, i):
        return self.heap[self.share[i]]

    def entries_of(self, i):
        return self.groups[self.share[i]]

    def image(self):
        buf = bytearray(self.size)
        buf[0:8] = b"\x89HDF\r\n\x1a\n"
        buf[13], buf[14] = 8, 8
        struct.pack_into("<HH", buf, 16, self.leafk, INTK)
        struct.pack_into("<QQQQ", buf, 24, 0, U64, len(buf), U64)
        struct.pack_into("<QQI", buf, 56, 0, self.oh[0], 1)
        struct.pack_into("<QQ", buf, 80, self.tree[0], self.heap_of(0))
        for i, links in enumerate(self.groups):
            o = self.oh[i]
            buf[o] = 1
            struct.pack_into("<HII", buf, o + 2, 1, 1, 24)
            struct.pack_into("<HH", buf, o + 16, 0x0011, 16)
            struct.pack_into("<QQ", buf, o + 24, self.tree[i], self.heap_of(i))
            t = self.tree[i]
            buf[t:t + 4] = b"TREE"
            struct.pack_into("<QQ", buf, t + 8, U64, U64)
            own = self.entries_of(i)
            if own:
                struct.pack_into("<H", buf, t + 6, 1)
                struct.pack_into("<QQQ", buf, t + 24, 0, self.snod[self.share[i]], 8 * len(own))
            if self.share[i] != i:
                continue
            h, hd = self.heap[i], self.heap[i] + HEAPH
            buf[h:h + 4] = b"HEAP"
            struct.pack_into("<QQQ", buf, h + 8, self.heapd, 1, hd)
            sn = self.snod[i]
            buf[sn:sn + 4] = b"SNOD"
            buf[sn + 4] = 1
            struct.pack_into("<H", buf, sn + 6, len(links))
            for j, e in enumerate(links):
                nm = ("n%x" % j).encode()[:7]
                buf[hd + 8 * (j + 1):hd + 8 * (j + 1) + len(nm)] = nm
                p = sn + 8 + 40 * j
                addr = self.size + 4096 if e["bad"] else self.oh[e["tg"]]
                struct.pack_into("<QQI", buf, p, 8 * (j + 1), addr, e["ct"])
                if e["ct"] == 1:
                    struct.pack_into("<QQ", buf, p + 24, 0 if e["zero_bt"] else self.tree[e["cg"]], self.heap_of(e["cg"]))
        return bytes(buf)

    # ---- the same graph for the model
    def coq_graph(self):
        objs = ";".join("(%d, OStab %d %d)" % (self.oh[i], self.tree[i], self.heap_of(i)) for i in range(len(self.groups)))
        ent = {}
        for i in set(self.share):
            es = []
            for j, e in enumerate(self.groups[i]):
                addr = self.size + 4096 if e["bad"] else self.oh[e["tg"]]
                cbt = (0 if e["zero_bt"] else self.tree[e["cg"]]) if e["ct"] == 1 else 0
                chp = self.heap_of(e["cg"]) if e["ct"] == 1 else 0
                es.append("BE (SE %d %d %s %d %d %d)" % (addr, j + 1, "false" if e["bad"] else "true", e["ct"], cbt, chp))
            ent[i] = "[" + ";".join(es) + "]"
        defs = "".join("Definition ents_%%(tag)s_%d : list bentry := %s.\n" % (i, ent[i]) for i in sorted(ent))
        bts = ";".join("(%d, (%d, ents_%%(tag)s_%d))" % (self.tree[i], self.heap_of(i), self.share[i]) for i in range(len(self.groups)))
        return defs, "(alist_graph [%s] [%s])" % (objs, bts)

    def max_loads(self):
        return self.size // 8 + 1024

    def fan(self):
        return max([len(g) for g in self.groups] + [1])

    def asis_bound(self):
        """C07_open_work_bounded with U = the B-tree addresses of the file, F = the largest entry count"""
        return self.fan() * (self.max_loads() + len(self.groups) + 2) + 1

    def repaired_bound(self):
        """C07_open_repaired_file_bound"""
        return self.max_loads() + 2


def diamond(levels, fan, ct=1):
    return [[E(i + 1, ct) for _ in range(fan)] for i in range(levels)] + [[]]


def comb(k):
    return Layout([[E(j, 1) for j in range(k)]] + [[] for _ in range(k - 1)], share=[0] * k)


def families(rng, quick):
    out = [("diamond2x2_ct1", Layout(diamond(2, 2, 1))), ("comb3", comb(3))]      # the two probes first
    for ct in (1, 0):
        for n in (1, 5, 60):
            out.append(("chain%d_ct%d" % (n, ct), Layout([[E(i + 1, ct)] for i in range(n)] + [[]])))
        for n in (2, 3, 6, 10, 12):
            if (n, ct) != (2, 1):
                out.append(("diamond%dx2_ct%d" % (n, ct), Layout(diamond(n, 2, ct))))
        out.append(("diamond5x3_ct%d" % ct, Layout(diamond(5, 3, ct))))
        out.append(("diamond4x8_ct%d" % ct, Layout(diamond(4, 8, ct))))
        out.append(("cycle2_ct%d" % ct, Layout([[E(1, ct)], [E(0, ct)]])))
        out.append(("cycle3_back_ct%d" % ct, Layout([[E(1, ct)], [E(2, ct)], [E(0, ct), E(1, ct), E(2, ct)]])))
        out.append(("self_ct%d" % ct, Layout([[E(0, ct), E(0, ct)]])))
        out.append(("cross_ct%d" % ct, Layout([[E(1, ct), E(2, ct)], [E(2, ct), E(3, ct)], [E(1, ct), E(3, ct)], []])))
        out.append(("skip12_ct%d" % ct, Layout([[E(min(i + 1, 12), ct), E(min(i + 2, 12), ct)] for i in range(12)] + [[]])))
    # the depth limit applies to loadObject only
    out.append(("chain1100_ct0", Layout([[E(i + 1, 0)] for i in range(1100)] + [[]])))
    out.append(("chain1100_ct1", Layout([[E(i + 1, 1)] for i in range(1100)] + [[]])))
    out.append(("diamond14x2_ct1", Layout(diamond(14, 2, 1))))
    # mixed cache types, cached addresses of ANOTHER group, cache type 1 without B-tree address, soft links, unreadable addresses
    out.append(("mixed", Layout([[E(1, 1), E(1, 0), E(2, 1, cg=1), E(2, 2)], [E(2, 0), E(2, 1)], [E(0, 1, zero_bt=True), E(1, 1)]])))
    out.append(("bad_entry", Layout([[E(1, 1), E(1, 1, bad=True), E(1, 1)], []])))
    out.append(("bad_entry_deep", Layout([[E(1, 0), E(2, 1)], [E(2, 1)], [E(0, 0), E(0, 0, bad=True)]])))
    out.append(("shared_snod", Layout([[E(1, 1), E(2, 1), E(1, 0)], [], []], share=[0, 0, 2])))
    for k in (2, 10, 30):
        out.append(("comb%d" % k, comb(k)))
    for r in range(24 if quick else 200):
        n = rng.randrange(2, 10)
        gs = []
        for i in range(n):
            es = []
            for _ in range(rng.choice([0, 1, 1, 2, 2, 3, 5])):
                tg = rng.randrange(n)
                es.append(E(tg, rng.choice([0, 1, 1, 1, 2]), cg=tg if rng.random() < 0.85 else rng.randrange(n),
                            zero_bt=rng.random() < 0.06, bad=rng.random() < 0.02))
            gs.append(es)
        share = list(range(n))
        if rng.random() < 0.3:
            a, b = rng.randrange(n), rng.randrange(n)
            if a != b and share[b] == b and not any(s == a for k2, s in enumerate(share) if k2 != a):
                share[a] = b
        out.append(("random%d" % r, Layout(gs, share=share)))
    return out


def _limits():
    import resource
    resource.setrlimit(resource.RLIMIT_AS, (4 << 30, 4 << 30))
    resource.setrlimit(resource.RLIMIT_CORE, (0, 0))


def run_guarded(H, paths, total_s=90, per_case_s=15, stop_after=2):
    """all cases in one process under RLIMIT_AS 4 GiB and a wall limit; when that process dies or hangs, case by case (in
    order), each with its own limit; after `stop_after` dead cases the rest is not run (class `skipped`)"""
    import json, subprocess
    data = "".join(json.dumps(dict(path=p)) + "\n" for p in paths)
    try:
        pr = subprocess.run([H, "c07load"], input=data, capture_output=True, text=True, timeout=total_s, preexec_fn=_limits)
        lines = [l for l in pr.stdout.splitlines() if l.strip()]
        if pr.returncode == 0 and len(lines) == len(paths):
            return [json.loads(l) for l in lines]
    except subprocess.TimeoutExpired:
        pass
    out, dead = [], 0
    for p in paths:
        if dead >= stop_after:
            out.append(dict(c="skipped"))
            continue
        try:
            pr = subprocess.run([H, "c07load"], input=json.dumps(dict(path=p)) + "\n", capture_output=True, text=True,
                                timeout=per_case_s, preexec_fn=_limits)
            if pr.returncode == 0 and pr.stdout.strip():
                out.append(json.loads(pr.stdout.splitlines()[0]))
                continue
            out.append(dict(c="fatal", e="Go fatal error, exit %d: %s" % (pr.returncode, " | ".join(pr.stderr.splitlines()[:3])[:400])))
        except subprocess.TimeoutExpired:
            out.append(dict(c="timeout", e="Open did not return within %d s" % per_case_s))
        dead += 1
    return out


def source_switches():
    """what the source text says (None = cannot tell)"""
    try:
        g = open(os.path.join(vlib.REPO, "group.go")).read()
        f = open(os.path.join(vlib.REPO, "file.go")).read()
    except OSError:
        return None, None
    m = re.search(r"func \(g \*Group\) loadChildren\(\) error \{(.*?)\n}\n", g, re.S)
    body = m.group(1) if m else ""
    keep = None if not m else not re.search(r"delete\(\s*g\.file\.visitedBTrees", body)
    mc = re.search(r"func loadGroupWithCachedSymbolTable\(.*?\{(.*?)\n}\n", g, re.S)
    me = re.search(r"func \(f \*File\) enterLoad\(.*?\{(.*?)\n}\n", f, re.S)
    count_all = None
    if mc and me:
        cached_counts = bool(re.search(r"countLoad\(|loadCount\+\+|enterLoad\(", mc.group(1)))
        eb = me.group(1)
        i_cycle = eb.find("f.loading[address] {")
        i_count = min([x for x in (eb.find("countLoad("), eb.find("loadCount++")) if x >= 0] or [-1])
        count_all = cached_counts and 0 <= i_count < i_cycle
    return keep, count_all


def keep_witness(name, L, p):
    """a failing input must outlive the scratch directory"""
    keepfile = os.path.join(vlib.VERIF, "build", "c07load_witness_%s.h5" % name)
    try:
        os.makedirs(os.path.dirname(keepfile), exist_ok=True)
        with open(keepfile, "wb") as f:
            f.write(L.image())
        return keepfile
    except OSError:
        return p


def tie(ctx, viol, cov):
    H, rng = ctx.harness, ctx.rng
    quick = ctx.tier != "thorough"
    d = os.path.join(vlib.scratch(), "c07load")
    os.makedirs(d, exist_ok=True)
    fams = families(rng, quick)
    paths = []
    for name, L in fams:
        p = os.path.join(d, name + ".h5")
        with open(p, "wb") as f:
            f.write(L.image())
        paths.append(p)
    res = run_guarded(H, paths)
    byname = {name: (L, r, p) for (name, L), r, p in zip(fams, res, paths)}

    # ---- the switches: behavioural probe and source text
    pr_d, pr_c = byname["diamond2x2_ct1"][1], byname["comb3"][1]
    probe_keep = {5: True, 7: False}.get((pr_d.get("v") or [None])[0])
    probe_count = None if pr_c.get("c") != "ok" else pr_c["v"][1] > 0
    src_keep, src_count = source_switches()
    keep = probe_keep if probe_keep is not None else (src_keep if src_keep is not None else True)
    count_all = probe_count if probe_count is not None else bool(src_count)
    claimed_keep = True if src_keep is None else src_keep          # the bound the code has to meet: what its source claims
    claimed_count = bool(src_count)

    # ---- independent oracle on the Go outputs
    hist = collections.Counter()
    nviol = 0
    for name, (L, r, p) in byname.items():
        hist[r["c"]] += 1
        if r["c"] in ("panic", "fatal", "timeout"):
            keepfile = keep_witness(name, L, p)
            viol.append(dict(what="loader: Go %s on the %d-byte constructed group graph %s (%d group B-trees, at most %d entries each): %s" % (
                                 r["c"], L.size, name, len(L.groups), L.fan(), (r.get("e") or "")[:300]),
                             failing_input=dict(file=keepfile, graph=name, size=L.size, groups=[[(e["tg"], e["ct"]) for e in g] for g in L.groups][:20])))
            continue
        if r["c"] != "ok":
            continue
        walked = r["v"][0]
        bound = L.repaired_bound() if (claimed_count and count_all) else L.asis_bound()
        if walked > bound and nviol < 2:
            nviol += 1
            keepfile = keep_witness(name, L, p)
            viol.append(dict(
                what="Open built %d objects from the %d-byte file %s (%d group B-trees, at most %d entries each): more than the bound %d of "
                     "theorem %s; loadCount stayed %d, so maxLoads never applied%s" % (
                         walked, L.size, name, len(L.groups), L.fan(), bound,
                         "C07_open_repaired_file_bound" if (claimed_count and count_all) else "C07_open_work_bounded", r["v"][1],
                         "" if keep else "; loadChildren takes the visitedBTrees mark back (model: keep_mark = false, theorem "
                                         "C07_load_unmarked_exponential: 2^n objects from n+1 B-trees)"),
                failing_input=dict(file=keepfile, graph=name, size=L.size, groups=[[(e["tg"], e["ct"]) for e in g] for g in L.groups][:20]),
                implementation=r, bound=bound))

    # ---- value-exact comparison with the model under the switches of the tree
    exprs, defs = [], []
    for k, (name, (L, r, p)) in enumerate(byname.items()):
        if r["c"] not in ("ok", "err"):
            continue
        if not keep and not (r["c"] == "ok" and r["v"][0] <= 10000):
            continue            # without the mark the model does the same exponential work as the code
        dtext, gexpr = L.coq_graph()
        defs.append(dtext % dict(tag="g%d" % k))
        gexpr = gexpr % dict(tag="g%d" % k)
        go = "VL [VN 0; VN %d; VN %d; VN %d]" % tuple(r["v"]) if r["c"] == "ok" else "VL [VN 1]"
        exprs.append((name, "val_eqb (lres_val (open %s %s %s %d (N.to_nat %d) (OStab %d %d))) (%s)" % (
            gexpr, "true" if keep else "false", "true" if count_all else "false", L.max_loads(), 1030 + len(L.groups),
            L.tree[0], L.heap_of(0), go)))
    text = HDR + "".join(defs) + "Definition cases : list bool := [%s].\nDefinition bad := Eval vm_compute in mismatches id_bool cases.\nPrint bad.\n" % (
        ";\n".join(e for _, e in exprs))
    out = vlib.coq_eval(text, "c07load")
    bad = vlib.parse_nlist(out, "bad")
    for b in bad[:3]:
        name = exprs[b][0]
        L, r, p = byname[name]
        viol.append(dict(what="loader: hdf5.Open and Model/RobustLoad.v (keep_mark=%s, count_all=%s) disagree on group graph %s" % (keep, count_all, name),
                         nofail=True, correspondence="Model.RobustLoad open vs hdf5.Open (objects walked, loadCount, marked B-trees); theorems C07_open_*",
                         case=dict(graph=name, groups=[[(e["tg"], e["ct"], e["cg"], e["zero_bt"], e["bad"]) for e in g] for g in L.groups][:30], share=L.share[:30]),
                         impl=r, coq_expr=exprs[b][1][:1500]))
    if probe_keep is not None and src_keep is not None and probe_keep != src_keep:
        viol.append(dict(what="loader: the source of loadChildren and the behaviour of Open disagree about the visitedBTrees mark (source keeps it: %s, probe: %s)" % (src_keep, probe_keep),
                         nofail=True, correspondence="tools/props/c07load.py source_switches vs probe diamond2x2_ct1"))

    # ---- the quadratic family at a size where it matters (closed form: theorem C07_open_cached_path_quadratic)
    finding = None
    K = 400 if quick else 1000
    Lc = comb(K)
    pc = os.path.join(d, "comb%d.h5" % K)
    with open(pc, "wb") as f:
        f.write(Lc.image())
    rc = run_guarded(H, [pc], total_s=60, per_case_s=60)[0] if nviol == 0 and not any(r["c"] in ("fatal", "timeout") for r in res) else dict(c="skipped")
    if rc["c"] == "skipped":
        pass
    elif not count_all:
        if rc["c"] == "ok" and rc["v"][0] == K * K + 1 and rc["v"][1] == 0:
            finding = dict(id=FINDING, file_bytes=Lc.size, btrees=K, objects_built=rc["v"][0], load_count=rc["v"][1], max_loads=Lc.max_loads(),
                           bytes_allocated=rc.get("alloc"), ms=rc.get("ms"),
                           note="PROPOSED FINDING %s: groups loaded through cached symbol table addresses (and the placeholders for links back to an "
                                "enclosing group) are not counted against maxLoads; n B-tree nodes sharing one symbol table node of n entries give n*n+1 "
                                "objects (theorem C07_open_cached_path_quadratic, value-exact here); repair: notes/fixes/c07-count-every-object.patch "
                                "(then theorem C07_open_repaired_file_bound applies: objects <= size/8 + 1026)" % FINDING)
        elif rc["c"] in ("panic", "fatal", "timeout"):
            viol.append(dict(what="loader: Go %s on comb%d: %s" % (rc["c"], K, (rc.get("e") or "")[:300]), failing_input=dict(file=keep_witness("comb%d" % K, Lc, pc), size=Lc.size)))
        else:
            viol.append(dict(what="loader: comb%d: Go %r differs from the closed form n*n+1 objects, loadCount 0 of theorem C07_open_cached_path_quadratic" % (K, rc.get("v") or rc.get("c")),
                             nofail=True, correspondence="C07_open_cached_path_quadratic vs hdf5.Open", impl=rc))
    else:
        # repaired: Open must stop at maxLoads (an error) or stay below the linear bound, and must not allocate like n*n objects
        if rc["c"] in ("panic", "fatal", "timeout"):
            viol.append(dict(what="loader: Go %s on comb%d: %s" % (rc["c"], K, (rc.get("e") or "")[:300]), failing_input=dict(file=keep_witness("comb%d" % K, Lc, pc), size=Lc.size)))
        elif rc["c"] == "ok" and rc["v"][0] > Lc.repaired_bound():
            viol.append(dict(what="Open built %d objects from the %d-byte file comb%d: more than size/8 + 1026 (theorem C07_open_repaired_file_bound)" % (rc["v"][0], Lc.size, K),
                             failing_input=dict(file=pc, size=Lc.size), implementation=rc))
        elif rc.get("alloc", 0) > (64 << 20) + 64 * Lc.size:
            viol.append(dict(what="Open allocated %d bytes for the %d-byte file comb%d (gate 64 MiB + 64 x size)" % (rc["alloc"], Lc.size, K),
                             failing_input=dict(file=pc, size=Lc.size), implementation=rc))
    cov["loader_model"] = dict(
        graphs=len(fams), compared=len(exprs), mismatches=len(bad), outcomes=dict(hist),
        switches=dict(keep_mark=keep, count_all=count_all, source=dict(keep_mark=src_keep, count_all=src_count),
                      probe=dict(keep_mark=probe_keep, count_all=probe_count)),
        oracle="objects walked <= %s" % ("size/8 + 1026 (C07_open_repaired_file_bound)" if (claimed_count and count_all) else
                                         "F*(maxLoads+|U|+2)+1 (C07_open_work_bounded)"),
        largest=sorted([(r["v"][0], n) for n, (L, r, p) in byname.items() if r["c"] == "ok"], reverse=True)[:4],
        samples=[dict(graph=n, go=byname[n][1].get("v") or byname[n][1]["c"]) for n in ("diamond12x2_ct1", "cycle2_ct0", "chain1100_ct0", "mixed", "comb30")],
        comb=dict(k=K, go=rc.get("v") or rc.get("c"), alloc=rc.get("alloc"), size=Lc.size), proposed_finding=finding)
    return len(exprs) + 1, finding
