"""C13 (unit level) - DatasetWriter.Resize as a rewrite of the stored object header: Go library vs Model/Resize.v.

run_unit(ctx) generates resizable datasets (ranks 1-4, fixed / unlimited maxima, three superblock versions, several
element types) and operation lists through the creating handle: Resize requests (inside the maximum, exactly at it,
one beyond it, a zero extent, another rank, 2^64-1 on unlimited dimensions) interleaved with attribute writes /
deletions, hard links to the dataset and full data writes (all of which rewrite the same object header).  The harness
subcommand `c13unit` reports around every Resize the file bytes from the object header on, the byte ranges of the whole
file that changed, the result and the handle fields.

Three judges per Resize call:
  (a) the Coq model (Model/ResizeTie.v check_case: result class, header image after the call byte for byte, dims,
      dataSize, chunks per dimension), evaluated by coqc/vm_compute on a generated cases file;
  (b) an independent Python oracle of the property text: accepted iff same rank, no zero extent, every extent within the
      declared maximum; an accepted call changes only the 8*rank extent bytes of the dataspace message (file length
      unchanged, every other message byte-identical, maxima unchanged) and the header decodes to the new extents; a
      refused call changes no byte of the file and leaves the handle's dims alone;
  (c) at the end of each case the shape decoded from the last image = the last accepted request;
  (d) the hypotheses of the theorems of Props/C13Header.v (handle_ok, stored - decided by Model/ResizeTie.v stored_ok, sound by
      C13H_stored_ok_sound) hold for every image the implementation has in front of a Resize call.
Go violating (b)/(c) is a VIOLATION with the operation list (cut after the failing call) as failing input; model != Go
with the oracle satisfied is reported as nofail (correspondence Model/Resize.v vs dataset_write.go Resize).

Stand-alone:  python3 tools/props/c13unit.py [quick|thorough] [seed]
"""
import json, os, struct, sys, time

sys.path.insert(0, os.path.dirname(os.path.dirname(os.path.abspath(__file__))))
import vlib

U = 18446744073709551615
ESZ = {"int8": 1, "uint8": 1, "int16": 2, "uint16": 2, "int32": 4, "uint32": 4, "float32": 4, "int64": 8, "uint64": 8,
       "float64": 8}
TRUSTED = ["C13-unit: the harness reads the file back with os.ReadFile around every Resize (the low-level writer is "
           "unbuffered); the Python object-header / dataspace parser of tools/props/c13unit.py is the independent oracle"]


# ----------------------------------------------------------------------------- generator

def gen_case(rng, k):
    rank = rng.choice([1, 1, 2, 2, 3, 3, 4])
    dims = [rng.choice([1, 2, 3, 5, 8, 13]) for _ in range(rank)]
    chunk = [max(1, min(d, rng.choice([1, 2, 3, 4, d]))) for d in dims]
    maxd = [rng.choice([U, U, d, d + rng.choice([1, 4, 9]), rng.choice([2 ** 32, 2 ** 63, U - 1, U - 9])]) for d in dims]
    if k % 7 == 0:
        maxd = [U] * rank
    if k % 11 == 0:
        maxd = list(dims)
    dt = rng.choice(sorted(ESZ))
    ops, cur, nattr, nlink = [], list(dims), 0, 0
    for _ in range(rng.choice([2, 4, 6, 9, 14])):
        r = rng.random()
        if r < 0.62:
            ops.append({"op": "resize", "dims": gen_request(rng, cur, maxd)})
            if accepted(cur, maxd, ops[-1]["dims"]):
                cur = list(ops[-1]["dims"])
        elif r < 0.80:
            t = rng.random()
            if t < 0.5:
                ops.append({"op": "attr", "name": "a%d" % rng.randint(0, 3), "kind": "i32", "val": "%08x" % rng.getrandbits(32)})
            elif t < 0.8:
                ops.append({"op": "attr", "name": "s%d" % rng.randint(0, 2), "kind": "str",
                            "val": bytes(rng.choice(b"abcxyz") for _ in range(rng.choice([1, 3, 9, 30]))).hex()})
            else:
                ops.append({"op": "attr", "name": "v%d" % rng.randint(0, 1), "kind": "[]i32",
                            "val": bytes(rng.getrandbits(8) for _ in range(4 * rng.choice([1, 2, 5]))).hex()})
            nattr += 1
        elif r < 0.86:
            ops.append({"op": "delattr", "name": rng.choice(["a0", "a1", "s0", "v0", "zz"])})
        elif r < 0.92:
            nlink += 1
            ops.append({"op": "hardlink", "path": "/l%d" % nlink})
        else:
            ops.append({"op": "write"})
    if not any(o["op"] == "resize" for o in ops):
        ops.append({"op": "resize", "dims": gen_request(rng, cur, maxd)})
    return {"sb": rng.choice([0, 2, 3]), "dtype": dt, "dims": dims, "chunk": chunk, "maxdims": maxd, "ops": ops}


def gen_request(rng, cur, maxd):
    return [min(U, x) for x in gen_request0(rng, cur, maxd)]          # uint64 arguments


def gen_request0(rng, cur, maxd):
    t = rng.random()
    rank = len(cur)
    if t < 0.07:                                  # another rank
        return (cur + [1]) if rng.random() < 0.5 or rank == 1 else cur[:-1]
    if t < 0.09:
        return []
    nd = []
    for c, m in zip(cur, maxd):
        hi = m if m != U else c + 7
        nd.append(rng.choice([1, c, rng.randint(1, max(1, min(hi, c + 7))), max(1, min(hi, c + 7)),
                              m if m != U else rng.choice([U, 2 ** 63, 2 ** 32 + 1, c + 100])]))
    if t < 0.22:                                  # exactly at the maximum in every dimension
        return [m if m != U else rng.choice([U, c]) for c, m in zip(cur, maxd)]
    if t < 0.36:                                  # one beyond the maximum in one dimension
        fixed = [i for i, m in enumerate(maxd) if m != U]
        if fixed:
            i = rng.choice(fixed)
            nd[i] = min(U, maxd[i] + rng.choice([1, 1, 5]))        # U - 1 + 1 = U is beyond the maximum U - 1 (not Unlimited)
        return nd
    if t < 0.44:                                  # a zero extent
        nd[rng.randrange(rank)] = 0
        return nd
    return nd


def accepted(cur, maxd, new):
    return len(new) == len(cur) and all(n > 0 for n in new) and all(m == U or n <= m for n, m in zip(new, maxd))


# ----------------------------------------------------------------------------- independent parser (oracle side)

def parse_header(img):
    """version 2 object header as the library writes it -> (flags, [(type, data_offset, data)], end) or None"""
    if len(img) < 7 or img[:4] != b"OHDR" or img[4] != 2 or img[5] & 0x37:
        return None
    chunk = img[6]
    off, end, msgs = 7, 7 + chunk, []
    while off < end:
        if off + 4 > len(img):
            return None
        ty, size = img[off], img[off + 1] | img[off + 2] << 8
        if off + 4 + size > len(img):
            return None
        msgs.append((ty, off + 4, bytes(img[off + 4:off + 4 + size])))
        off += 4 + size
    if off != end:
        return None
    return img[5], msgs, end


def parse_dataspace(d):
    if len(d) < 8 or d[0] != 1:
        return None
    rank, flags = d[1], d[2]
    need = 8 + 8 * rank * (2 if flags & 1 else 1)
    if len(d) != need:
        return None
    dims = list(struct.unpack("<%dQ" % rank, d[8:8 + 8 * rank]))
    maxd = list(struct.unpack("<%dQ" % rank, d[8 + 8 * rank:need])) if flags & 1 else None
    return dims, maxd


def shape_of(img):
    h = parse_header(img)
    if h is None:
        return None
    for ty, off, data in h[1]:
        if ty == 1:
            s = parse_dataspace(data)
            return None if s is None else (s[0], s[1], off, h)
    return None


def oracle_step(case, addr, cur, step, op):
    """-> (list of findings, new current dims)"""
    f = []
    new, maxd = op["dims"], case["maxdims"]
    res = step["res"]
    want = accepted(cur, maxd, new)
    if res.get("panic"):
        return ["Resize(%s) panicked: %s" % (new, res["panic"][:120])], cur
    before, after = bytes.fromhex(step.get("before", "")), bytes.fromhex(step.get("after", ""))
    if res.get("ok") and not want:
        f.append("Resize(%s) accepted although it is outside the declared maximum %s / rank %d / has a zero extent" % (new, maxd, len(cur)))
    if not res.get("ok") and want:
        f.append("Resize(%s) refused (%s) although it is within the declared maximum %s" % (new, res.get("err", "")[:100], maxd))
    if not res.get("ok"):
        if step.get("changed") or before != after or step["fsize"][0] != step["fsize"][1]:
            f.append("refused Resize(%s) changed the file: %s" % (new, step.get("changed")))
        if step.get("dims") != cur:
            f.append("refused Resize(%s) changed the handle's dims: %s -> %s" % (new, cur, step.get("dims")))
        return f, cur
    # accepted
    sb, sa = shape_of(before), shape_of(after)
    if sb is None or sa is None:
        f.append("object header %s Resize(%s) does not parse (version 2 header with a version 1 dataspace message expected)" % (
            "before" if sb is None else "after", new))
        return f, new
    rank = len(new)
    lo, hi = addr + sb[2] + 8, addr + sb[2] + 8 + 8 * rank
    for s, l in step.get("changed") or []:
        if s < lo or s + l > hi:
            f.append("accepted Resize(%s) changed bytes [%d,%d) outside the extents of the dataspace message [%d,%d)" % (new, s, s + l, lo, hi))
            break
    if step["fsize"][0] != step["fsize"][1]:
        f.append("accepted Resize(%s) changed the file length %s" % (new, step["fsize"]))
    if sa[0] != new:
        f.append("after Resize(%s) the stored extents are %s" % (new, sa[0]))
    if sa[1] != sb[1] or sa[1] != maxd:
        f.append("after Resize(%s) the stored maximum extents are %s (before %s, declared %s)" % (new, sa[1], sb[1], maxd))
    mb = [(t, o, d) for t, o, d in sb[3][1] if t != 1]
    ma = [(t, o, d) for t, o, d in sa[3][1] if t != 1]
    if mb != ma or sb[3][0] != sa[3][0] or sb[3][2] != sa[3][2] or len(sb[3][1]) != len(sa[3][1]):
        f.append("Resize(%s) changed a message other than the dataspace message (types/offsets/data before %s after %s)" % (
            new, [(t, o, len(d)) for t, o, d in sb[3][1]], [(t, o, len(d)) for t, o, d in sa[3][1]]))
    if step.get("dims") != new:
        f.append("after accepted Resize(%s) the handle's dims are %s" % (new, step.get("dims")))
    return f, new


# ----------------------------------------------------------------------------- Coq side

def coq_case(case, out):
    steps = []
    for op, st in zip(case["ops"], out["steps"]):
        if op["op"] != "resize":
            continue
        code = 0 if st["res"].get("ok") else (2 if st["res"].get("panic") else 1)
        steps.append("{| rs_new := %s; rs_before := \"%s\"; rs_after := \"%s\"; rs_code := %d; rs_dims := %s; rs_datasize := %d; rs_chunks := %s |}" % (
            vlib.cNlist(op["dims"]), st.get("before", ""), st.get("after", ""), code, vlib.cNlist(st.get("dims") or []),
            st.get("datasize", 0), vlib.cNlist(st.get("chunks") or [])))
    return "{| rc_dims := %s; rc_maxd := %s; rc_chunk := %s; rc_esize := %d; rc_steps := [%s] |}" % (
        vlib.cNlist(case["dims"]), vlib.cNlist(case["maxdims"]), vlib.cNlist(case["chunk"]), out["esize"], ";\n ".join(steps))


def coq_judge(cases, outs, tag):
    """-> (set of indices (into cases) on which check_case is false, set of indices on which hyp_case is false)"""
    import concurrent.futures as cf
    bad, badhyp = set(), set()
    idx = [i for i, o in enumerate(outs) if o.get("create", {}).get("ok") and o.get("steps") is not None]
    step = max(10, min(150, (len(idx) + 7) // 8))
    parts = [idx[k:k + step] for k in range(0, len(idx), step)]

    def one(kp):
        k, part = kp
        text = ("From HV Require Import Base.Prelude Model.Resize Model.ResizeTie.\n"
                "Definition cs : list rcase := [\n%s].\n"
                "Definition bad := Eval vm_compute in mismatches check_case cs.\nPrint bad.\n"
                "Definition badhyp := Eval vm_compute in mismatches hyp_case cs.\nPrint badhyp.\n" % ";\n".join(coq_case(cases[i], outs[i]) for i in part))
        o = vlib.coq_eval(text, "c13unit_%s_%d" % (tag, k))
        return [part[j] for j in vlib.parse_nlist(o, "bad")], [part[j] for j in vlib.parse_nlist(o, "badhyp")]
    with cf.ThreadPoolExecutor(8) as ex:
        for r, rh in ex.map(one, enumerate(parts)):
            bad.update(r); badhyp.update(rh)
    return bad, badhyp


# ----------------------------------------------------------------------------- driver

def judge_case(case, out):
    """-> (findings, index of the first failing op or None, number of resize calls, accepted, refused)"""
    if not out.get("create", {}).get("ok"):
        return ["creating the resizable dataset failed: %s" % str(out.get("create"))[:200]], 0, 0, 0, 0
    cur, nres, nacc, nref = list(case["dims"]), 0, 0, 0
    last_img = None
    for i, (op, st) in enumerate(zip(case["ops"], out["steps"])):
        if op["op"] != "resize":
            if st["res"].get("panic"):
                return ["%s panicked: %s" % (op["op"], st["res"]["panic"][:120])], i, nres, nacc, nref
            continue
        nres += 1
        f, cur = oracle_step(case, out["addr"], cur, st, op)
        nacc += bool(st["res"].get("ok")); nref += not st["res"].get("ok")
        last_img = st.get("after")
        if f:
            return f, i, nres, nacc, nref
    if last_img is not None:
        s = shape_of(bytes.fromhex(last_img))
        if s is None or s[0] != cur or s[1] != case["maxdims"]:
            return ["after the whole list the stored shape is %s, the last accepted request is %s (maxima %s)" % (
                None if s is None else (s[0], s[1]), cur, case["maxdims"])], len(case["ops"]) - 1, nres, nacc, nref
    return [], None, nres, nacc, nref


def run_unit(ctx):
    H, rng = ctx.harness, ctx.rng
    builddir = os.path.join(vlib.VERIF, "build")
    os.makedirs(builddir, exist_ok=True)
    n = 2500 if ctx.tier == "thorough" else 260
    cases = [dict(gen_case(rng, k), dir=builddir) for k in range(n)]
    # fixed corner cases, present at every seed: a Write after a Resize to a shape whose byte size does not fit in uint64 (the
    # handle's dataSize wraps; before /repo 0e100da writeChunkedData panicked slicing the buffer - found by the seed sweep at
    # VERIF_SEED=5) and to a shape that just fits
    W = {"op": "write"}
    cases += [dict(c, dir=builddir) for c in (
        {"sb": 0, "dtype": "uint32", "dims": [8, 2, 1, 13], "chunk": [2, 2, 1, 2], "maxdims": [U - 9, 2, U, U - 1],
         "ops": [{"op": "resize", "dims": [U - 9, 2, 2, U - 1]}, W, {"op": "resize", "dims": [8, 2, 1, 13]}, W]},
        {"sb": 2, "dtype": "float64", "dims": [4, 4], "chunk": [2, 2], "maxdims": [U, U],
         "ops": [{"op": "resize", "dims": [2 ** 32, 2 ** 32]}, W, {"op": "resize", "dims": [2 ** 61, 1]}, W, {"op": "resize", "dims": [4, 6]}, W]},
        {"sb": 3, "dtype": "uint8", "dims": [5], "chunk": [5], "maxdims": [U],
         "ops": [{"op": "resize", "dims": [U]}, W, {"op": "resize", "dims": [U - 1]}, W, {"op": "resize", "dims": [7]}, W]})]
    outs = vlib.run_harness_parallel(H, "c13unit", cases, workers=8)
    violations, n_eval, n_acc, n_ref = [], 0, 0, 0
    distinct, opmix, classes = set(), {}, {}
    oracle_bad = set()
    for i, (c, o) in enumerate(zip(cases, outs)):
        if "steps" not in o:
            violations.append(dict(what="C13 unit: harness failed on a case: %s" % str(o)[:300], failing_input=c, nofail=True,
                                   correspondence="harness/c13unit"))
            oracle_bad.add(i)
            continue
        f, at, nres, nacc, nref = judge_case(c, o)
        n_eval += nres; n_acc += nacc; n_ref += nref
        cur = list(c["dims"])
        for op, st in zip(c["ops"], o["steps"]):
            opmix[op["op"]] = opmix.get(op["op"], 0) + 1
            if op["op"] == "resize":
                new = op["dims"]
                cls = ("rank" if len(new) != len(cur) else "zero" if 0 in new else
                       "beyond" if any(m != U and x > m for x, m in zip(new, c["maxdims"])) else
                       "at-max" if any(m != U and x == m for x, m in zip(new, c["maxdims"])) else
                       "huge" if any(x >= 2 ** 32 for x in new) else "inside")
                classes[cls + (":ok" if st["res"].get("ok") else ":err")] = classes.get(cls + (":ok" if st["res"].get("ok") else ":err"), 0) + 1
                distinct.add((tuple(cur), tuple(c["maxdims"]), tuple(new)))
                if st["res"].get("ok"):
                    cur = list(new)
        if f:
            oracle_bad.add(i)
            small = dict(c, ops=c["ops"][:at + 1])
            small.pop("dir", None)
            violations.append(dict(what="C13 unit: Resize at object header level violates the property: %s" % f[0][:300],
                                   failing_input=small, findings=f[:6],
                                   implementation=dict(addr=o.get("addr"), step=(o["steps"][at] if o.get("steps") and at is not None and at < len(o["steps"]) else None))))
    t0 = time.time()
    model_bad, hyp_bad = coq_judge(cases, outs, ctx.tier)
    coq_s = time.time() - t0
    for i in sorted(model_bad - oracle_bad)[:3]:
        c = dict(cases[i]); c.pop("dir", None)
        violations.append(dict(what="C13 unit: Coq model (Model/Resize.v) and Go disagree on a Resize call although the Python oracle is satisfied "
                                    "(result class / header image after the call / dims / dataSize / chunks per dimension)",
                               nofail=True, correspondence="Model/Resize.v resize vs dataset_write.go (*DatasetWriter).Resize; theorems C13H_*",
                               case=c, implementation=[dict(res=s["res"], dims=s.get("dims"), datasize=s.get("datasize"), chunks=s.get("chunks"),
                                                            before=s.get("before"), after=s.get("after"))
                                                       for s in outs[i]["steps"] if s.get("is_resize")][:8]))
    for i in sorted(hyp_bad - oracle_bad - model_bad)[:3]:
        c = dict(cases[i]); c.pop("dir", None)
        violations.append(dict(what="C13 unit: a header image the implementation has in front of a Resize call does not satisfy the hypotheses of "
                                    "Props/C13Header.v (stored_ok / handle_ok false): the theorems do not cover this call",
                               nofail=True, correspondence="Model/ResizeTie.v stored_ok (C13H_stored_ok_sound) vs the object header the library wrote",
                               case=c, implementation=[dict(res=s["res"], before=s.get("before")) for s in outs[i]["steps"] if s.get("is_resize")][:8]))
    samples = []
    for c, o in list(zip(cases, outs))[:2]:
        samples.append(dict(sb=c["sb"], dtype=c["dtype"], dims=c["dims"], chunk=c["chunk"], maxdims=c["maxdims"], ops=c["ops"][:6],
                            results=[("ok" if s["res"].get("ok") else "err") for s in (o.get("steps") or [])][:6]))
    return dict(violations=violations, known=[], evaluations=n_eval, distinct=len(distinct), samples=samples,
                detail=dict(cases=len(cases), resize_calls=n_eval, accepted=n_acc, refused=n_ref, op_mix=opmix, request_classes=classes,
                            model_mismatch_cases=len(model_bad), hypotheses_false_cases=len(hyp_bad), oracle_failing_cases=len(oracle_bad), coq_seconds=round(coq_s, 1)))


if __name__ == "__main__":
    class Ctx:
        pass
    ctx = Ctx()
    ctx.tier = sys.argv[1] if len(sys.argv) > 1 else "quick"
    if len(sys.argv) > 2:
        os.environ["VERIF_SEED"] = sys.argv[2]
    ctx.seed, ctx.rng = vlib.seed_for("C13unit")
    ctx.harness = vlib.build_harness()
    t0 = time.time()
    try:
        u = run_unit(ctx)
    finally:
        vlib.cleanup()
    print(json.dumps(dict(violations=u["violations"][:3], evaluations=u["evaluations"], distinct=u["distinct"], detail=u["detail"]), indent=1, default=str)[:6000])
    print("wall %.1fs" % (time.time() - t0))
    sys.exit(1 if u["violations"] else 0)
