"""Unit-level tie for C01 / C13: chunk extraction + placement, element encoding + widening.

`run_unit(ctx)` is called by tools/props/c01.py and c13.py (the history-level checks).

For every generated case the real Go code (harness subcommand `c01unit`: writer.ChunkCoordinator
GetChunkCoordinate / GetChunkOffset / GetChunkSize / ExtractPaddedChunkData, the reader's
copyChunkToArray, convertToFloat64, convertToStrings, the writer's element encoders) and the Coq model
(Model/Chunk.v, Model/Elem.v through the predicates of Model/ChunkTie.v, evaluated by coqc/vm_compute)
are run on the same input and compared byte for byte; independently the specification is evaluated on
the Go outputs by a Python oracle (tiling = identity, chunk = padded box of the data, resize =
histlib.resize_arr, conversion = histlib.widen) so a disagreement can be classified.

Theorems of Props/C01.v, Props/C13.v this tie connects to the code: C01_chunk_tiling,
C01_order_irrelevant, C01_int_roundtrip, C01_string_roundtrip, C13_read_after_resize,
C13_read_after_resizes / C13_shrink_grow_refuted; chunk index: C01_index_roundtrip, C01_index_refused_unchanged,
C01_index_lookup, C01_chunked_end_to_end (Model/ChunkIndex.v with the repair switch read from the source tree).
"""
import itertools, os, re, struct, time
import vlib
import histlib

LAST_INDEX_COVERAGE = {}
# The capacity boundary (65535 / 65536 entries).  Measured: the list-based model reader is quadratic in the node size
# (rd_le / slice_from skip from the start of the 1.5 MB node for every key), a 65535-entry node does not finish
# under vm_compute in 10 minutes - in no tier.  So: Go runs all three long cases in both tiers (milliseconds) and is
# checked against the Python specification (65535 entries written and read back value-exact; a foreign full node
# parses; 65536 entries refused with file and allocator untouched); the MODEL is evaluated on the refusal (linear:
# write_index_st only counts) and on the per-entry loop up to 300 (quick) / 3000 (thorough) entries; the step from
# there to every n <= 65535 is theorem C01_index_roundtrip, not evaluation.
LONG_IN_QUICK = True

EXT = [1, 2, 3, 5, 7, 8, 13, 16, 17, 31]
ESZ = [1, 2, 4, 8, 3]
DT = {  # name -> (class, size, class bit field as the writer's registry records it)
    "int8": (0, 1, 8), "int16": (0, 2, 8), "int32": (0, 4, 8), "int64": (0, 8, 8),
    "uint8": (0, 1, 0), "uint16": (0, 2, 0), "uint32": (0, 4, 0), "uint64": (0, 8, 0),
    "float32": (1, 4, 0), "float64": (1, 8, 0),
}
INT_EXTREMES = {
    "int8": [0, 1, -1, 127, -128], "uint8": [0, 1, 255, 128],
    "int16": [0, 1, -1, 32767, -32768], "uint16": [0, 1, 65535, 32768],
    "int32": [0, 1, -1, 2**31 - 1, -2**31], "uint32": [0, 1, 2**32 - 1, 2**31, 2**31 + 1],
    "int64": [0, 1, -1, 2**63 - 1, -2**63, 2**53 + 1, -(2**53) - 1, 2**53 + 3, 2**62 + 2**9, 2**62 + 2**9 + 1],
    "uint64": [0, 1, 2**64 - 1, 2**63, 2**53 + 1, 2**63 + 1, 2**63 + 2**10, 2**63 + 2**10 + 1, 2**64 - 2**10],
}
F64_SPECIAL = [0x0, 0x8000000000000000, 0x7FF0000000000000, 0xFFF0000000000000, 0x7FF0000000000001, 0x7FF8000000000000,
               0xFFF8000000000001, 0x1, 0x000FFFFFFFFFFFFF, 0x3FF0000000000000, 0x7FEFFFFFFFFFFFFF]
F32_SPECIAL = [0x0, 0x80000000, 0x7F800000, 0xFF800000, 0x7F800001, 0x7FC00000, 0x7FC00001, 0xFFC00001, 0x1,
               0x007FFFFF, 0x00800000, 0x3F800000, 0x7F7FFFFF, 0x00400000, 0x80000001]


def prod(xs):
    p = 1
    for x in xs:
        p *= x
    return p


# ----------------------------------------------------------------------------- generators

def chunk_choices(d):
    primes = [2, 3, 5, 7, 11, 13]
    return sorted(set([1, d, max(1, d // 2), max(1, d - 1), d + 1, d + 3, 2, 3, 4] + primes))


def gen_shape(rng, maxelems, maxpadded):
    while True:
        rank = rng.choice([1, 1, 2, 2, 2, 3, 3, 4, 4])
        pool = EXT if rank <= 2 else (EXT[:6] * 3 + EXT[6:] if rank == 3 else EXT[:4] * 3 + EXT[4:6])
        dims = [rng.choice(pool) for _ in range(rank)]
        if prod(dims) > maxelems:
            continue
        cdims = [rng.choice(chunk_choices(d)) for d in dims]
        padded = prod(((d + c - 1) // c) * c for d, c in zip(dims, cdims))
        if padded <= maxpadded:
            return dims, cdims


def boundary_shapes():
    """small complete family: every (d, c) with d,c <= 4 for rank 1, and a rank-2 sweep"""
    out = []
    for d in range(1, 6):
        for c in range(1, 7):
            out.append(([d], [c]))
    for d0, d1, c0, c1 in itertools.product([1, 2, 3], [1, 3, 4], [1, 2], [2, 3]):
        out.append(([d0, d1], [c0, c1]))
    return out


def gen_tile_cases(rng, n, maxelems=400, maxpadded=1500, maxbytes=1600):
    cases = []
    for dims, cdims in boundary_shapes():
        esz = rng.choice([1, 2])
        cases.append(dict(mode="tile", dims=dims, cdims=cdims, esz=esz, data=rng.randbytes(prod(dims) * esz).hex()))
    while len(cases) < n:
        dims, cdims = gen_shape(rng, maxelems, maxpadded)
        esz = rng.choice(ESZ)
        if prod(dims) * esz > maxbytes:
            esz = 1
        c = dict(mode="tile", dims=dims, cdims=cdims, esz=esz, data=rng.randbytes(prod(dims) * esz).hex())
        if rng.random() < 0.35:
            total = prod((d + k - 1) // k for d, k in zip(dims, cdims))
            perm = list(range(total))
            rng.shuffle(perm)
            c["perm"] = perm
        cases.append(c)
    return cases


def gen_resize_cases(rng, n, maxelems=300, maxpadded=1200):
    cases = []
    # the refutation witness's neighbourhood first
    for old, new, cd in [([8], [3], [4]), ([8], [7], [4]), ([8], [9], [4]), ([3, 5], [4, 3], [2, 2]), ([5], [1], [2]), ([1], [31], [7])]:
        cases.append(dict(mode="resize", dims=old, newdims=new, cdims=cd, esz=1, data=bytes(range(1, prod(old) + 1)).hex()))
    while len(cases) < n:
        dims, cdims = gen_shape(rng, maxelems, maxpadded)
        kind = rng.choice(["shrink", "grow", "mixed", "same"])
        new = []
        for d, c in zip(dims, cdims):
            if kind == "same":
                new.append(d)
                continue
            opts = {"shrink": [1, max(1, d - 1), max(1, d // 2), max(1, (d // c) * c), max(1, (d // c) * c - 1)],
                    "grow": [d + 1, d + c, ((d + c - 1) // c) * c, ((d + c - 1) // c) * c + 1, 2 * d + 1],
                    "mixed": [1, max(1, d - 1), d, d + 1, d + c, rng.choice(EXT)]}[kind]
            new.append(rng.choice(opts))
        if prod(new) > 2 * maxelems:
            continue
        esz = rng.choice([1, 2, 4])
        cases.append(dict(mode="resize", dims=dims, newdims=new, cdims=cdims, esz=esz,
                          data=bytes(rng.randint(1, 255) for _ in range(prod(dims) * esz)).hex()))
    return cases


def gen_conv_cases(rng, nper):
    cases = []
    for name, (cls, size, bits) in DT.items():
        if cls == 0:
            lo, hi = (-(2 ** (8 * size - 1)), 2 ** (8 * size - 1) - 1) if bits else (0, 2 ** (8 * size) - 1)
            vals = list(INT_EXTREMES[name]) + [rng.randint(lo, hi) for _ in range(nper)]
            if size == 8:   # rounding boundaries of the int -> float64 conversion
                for k in range(53, 64):
                    for dlt in (-1, 0, 1):
                        for base in (2 ** k, 2 ** k + 2 ** (k - 53), 2 ** k + 3 * 2 ** (k - 53)):
                            v = base + dlt
                            if lo <= v <= hi:
                                vals.append(v)
                            if lo <= -v <= hi:
                                vals.append(-v)
            raw = b"".join((v % (1 << (8 * size))).to_bytes(size, "little") for v in vals)
        elif size == 8:
            raw = b"".join(struct.pack("<Q", x) for x in F64_SPECIAL + [rng.getrandbits(64) for _ in range(nper)])
        else:
            raw = b"".join(struct.pack("<I", x) for x in F32_SPECIAL + [rng.getrandbits(32) for _ in range(nper)]
                           + [rng.getrandbits(23) | (rng.choice([0, 0x80000000])) for _ in range(nper // 4)]
                           + [0x7F800000 | rng.getrandbits(23) | rng.choice([0, 0x80000000]) for _ in range(nper // 4)])
        cases.append(dict(mode="conv", dtype=name, **{"class": cls}, size=size, bits=bits, raw=raw.hex()))
        if cls == 0 and size in (4, 8):
            # the same bytes under the other signedness (what the reader does is decided by the bit alone)
            cases.append(dict(mode="conv", dtype=name + "/flip", **{"class": cls}, size=size, bits=bits ^ 8, raw=raw.hex()))
    return cases


def gen_enc_cases(rng, nper):
    cases = []
    for name, (cls, size, bits) in DT.items():
        if cls != 0:
            continue
        lo, hi = (-(2 ** (8 * size - 1)), 2 ** (8 * size - 1) - 1) if bits else (0, 2 ** (8 * size) - 1)
        vals = list(INT_EXTREMES[name]) + [rng.randint(lo, hi) for _ in range(nper)]
        cases.append(dict(mode="encint", dtype=name, vals=[str(v) for v in vals]))
    for size in (1, 2, 3, 5, 8, 16):
        strs = []
        for _ in range(nper // 4 + 6):
            ln = max(0, rng.choice([0, 1, size - 1, size, size + 1, rng.randint(0, size + 3)]))
            s = bytes(rng.choice([0, 0x41, 0x20, 0xFF, rng.randint(1, 255)]) if rng.random() < 0.25 else rng.randint(1, 255)
                      for _ in range(ln))
            strs.append(s.hex())
        cases.append(dict(mode="encstr", size=size, strs=strs))
    return cases


# ----------------------------------------------------------------------------- chunk index (version 1 B-tree, node type 1)

U64 = 2 ** 64 - 1
BIG = [2 ** 32 - 1, 2 ** 32, 2 ** 32 + 1, 2 ** 53, 2 ** 63 - 1, 2 ** 63, 2 ** 63 + 1, U64 - 1, U64]


def _rand_addr(rng):
    r = rng.random()
    if r < 0.5:
        return rng.randrange(0, 1 << 20)
    if r < 0.75:
        return rng.choice(BIG)
    return rng.getrandbits(64)


def _rand_nbytes(rng):
    r = rng.random()
    if r < 0.6:
        return rng.randrange(1, 1 << 16)
    if r < 0.8:
        return rng.choice([0, 1, 2 ** 30, 2 ** 30 + 1, 2 ** 31, 2 ** 32 - 1])
    return rng.getrandbits(32)


def _grid_coords(rng, rank, n, cdims):
    """n different chunk offsets of a grid (multiples of the chunk extents); the grid is wide along a random,
    possibly non-leading, dimension so that coordinates like [0,31] and [1,0] both occur"""
    wide = rng.randrange(rank)
    per = [1] * rank
    rest = max(1, rng.choice([1, 2, 3]) if rank > 1 else 1)
    for k in range(rank):
        per[k] = rest if k != wide else 0
    others = prod(p for k, p in enumerate(per) if k != wide)
    per[wide] = (n + others - 1) // others
    allc = list(itertools.product(*[range(p) for p in per]))
    rng.shuffle(allc)
    return [[x * c for x, c in zip(co, cdims)] for co in allc[:n]]


def _wild_coords(rng, rank, n):
    seen, out = set(), []
    pool = [0, 1, 2, 30, 31, 32, 33, 255, 256, 65535, 65536] + BIG
    while len(out) < n:
        co = tuple(rng.choice(pool) if rng.random() < 0.7 else rng.getrandbits(rng.choice([8, 16, 40, 64])) for _ in range(rank))
        if co not in seen:
            seen.add(co)
            out.append(list(co))
    return out


def gen_index_cases(rng, thorough):
    cases = []
    counts = [1, 2, 3, 31, 32, 33, 63, 64, 65, 100, 300]
    plan = [(n, rank) for n in counts for rank in ((1, 2, 3, 4) if (thorough or n <= 3) else ())]
    if not thorough:
        for n in counts[3:]:
            ranks = [1, 2, 3, 4]
            rng.shuffle(ranks)
            plan += [(n, r) for r in ranks[:(2 if n <= 100 else 1)]]
        plan.append((300, 4))
    plan += [(rng.randrange(1, 9), rng.choice([1, 2, 2, 3, 4])) for _ in range(400 if thorough else 70)]
    if thorough:
        plan += [(rng.choice([31, 32, 33, 63, 64, 65, 100, 200, 300]), rng.choice([1, 2, 3, 4])) for _ in range(150)]
        plan += [(1000, 2), (3000, 1)]
    for n, rank in plan:
        cdims = [rng.choice([1, 1, 2, 3, 7, 16, 100, 2 ** 16, 2 ** 32 - 1]) for _ in range(rank)]
        if rng.random() < 0.6:
            coords = _grid_coords(rng, rank, n, cdims)
        else:
            coords = _wild_coords(rng, rank, n)
        n = len(coords)
        entries = [dict(coord=co, addr=_rand_addr(rng), nbytes=_rand_nbytes(rng)) for co in coords]
        cases.append(dict(mode="index", dim=rank, cdims=cdims, eof=rng.choice([0, 1, 8, 100, 2048]), entries=entries))
    # the writer's own refusals: no entry; an entry of another rank
    cases.append(dict(mode="index", dim=2, cdims=[2, 3], eof=8, entries=[]))
    cases.append(dict(mode="index", dim=2, cdims=[2, 3], eof=8, entries=[dict(coord=[0, 0], addr=1, nbytes=1), dict(coord=[4], addr=2, nbytes=1)]))
    cases.append(dict(mode="index", dim=1, cdims=[4], eof=0, entries=[dict(coord=[0, 0], addr=1, nbytes=1)]))
    # chunk extents the reader refuses (zero) and a rank the reader indexes out of range
    cases.append(dict(mode="index", dim=2, cdims=[2, 0], eof=8, entries=[dict(coord=[0, 0], addr=1, nbytes=1)]))
    cases.append(dict(mode="index", dim=2, cdims=[0, 2], eof=8, entries=[dict(coord=[0, 0], addr=1, nbytes=1), dict(coord=[0, 2], addr=9, nbytes=1)]))
    return cases


def long_index_cases():
    """the capacity boundary of the single leaf: MaxChunkBTreeEntries entries round-trip, one more is refused with the
    file and the allocator untouched"""
    def ents(n):
        return [dict(coord=[4 * i], addr=1000 + 16 * i, nbytes=16) for i in range(n)]
    return [dict(mode="index", dim=1, cdims=[4], eof=0, entries=ents(MAX_ENTRIES), long=True),
            dict(mode="index", dim=1, cdims=[4], eof=40, entries=ents(MAX_ENTRIES + 1), long=True)]


MAX_ENTRIES = 65535


def source_switch():
    """The model's switch `rep` (Model/ChunkIndex.v), a syntactic fact read from the source tree under test
    (DESIGN 4.4): True = the code since /repo 18c9d53 (key slice sized in int, WriteToFile and writeChunkedData
    refuse more than MaxChunkBTreeEntries chunks), False = the code before it.  A tree that has only some of the
    three edits is not a tree the one-switch model follows: fail loudly."""
    def src(rel):
        return open(os.path.join(vlib.REPO, rel)).read()
    rd, wr, ds = src("internal/core/btree_v1.go"), src("internal/structures/btree_chunk.go"), src("dataset_write_chunked.go")
    if "node.Keys = make([]ChunkKey, int(node.EntriesUsed)+1)" in rd:
        reader = True
    elif "node.Keys = make([]ChunkKey, node.EntriesUsed+1)" in rd:
        reader = False
    else:
        raise RuntimeError("c01unit: cannot find the allocation of node.Keys in internal/core/btree_v1.go (neither the repaired nor the old form)")
    mc = re.search(r"const MaxChunkBTreeEntries = (\d+)", wr)
    wt = wr[wr.index("func (w *ChunkBTreeWriter) WriteToFile("):]
    wt = wt[:wt.index("\n}\n")]
    writer = bool(mc) and re.search(r"if len\(w\.entries\) > MaxChunkBTreeEntries \{\s*return 0,", wt) is not None
    if writer and int(mc.group(1)) != MAX_ENTRIES:
        raise RuntimeError("c01unit: MaxChunkBTreeEntries = %s, the model has %d" % (mc.group(1), MAX_ENTRIES))
    wc = ds[ds.index("func (dw *DatasetWriter) writeChunkedData("):]
    first_alloc = wc.index("dw.fileWriter.writer.Allocate(")
    mw = re.search(r"if totalChunks > structures\.MaxChunkBTreeEntries \{", wc)
    dataset = mw is not None and mw.start() < first_alloc
    if not (reader == writer == dataset):
        raise RuntimeError("c01unit: the tree has only part of the repair 18c9d53 (reader %s, WriteToFile %s, writeChunkedData %s): "
                           "the model's switch cannot be set" % (reader, writer, dataset))
    return reader


def compress_runs(entries, head, addr, same):
    """lossless transport of long entry lists (Model/ChunkIndexTie.v expand_runs / expand_wruns): maximal arithmetic
    runs; head(e) = the list whose first element steps, addr(e) = the address, same(a, b) = everything else equal.
    Returns [(first entry, dhead, daddr, count)]."""
    runs, i = [], 0
    while i < len(entries):
        e, k, dh, da = entries[i], 1, 0, 0
        if i + 1 < len(entries) and head(e):
            n = entries[i + 1]
            dh, da = head(n)[0] - head(e)[0], addr(n) - addr(e)
            if dh >= 0 and da >= 0:
                while (i + k < len(entries) and same(entries[i + k], e) and head(entries[i + k])[1:] == head(e)[1:]
                       and head(entries[i + k])[0] == head(e)[0] + k * dh and addr(entries[i + k]) == addr(e) + k * da):
                    k += 1
            if k == 1:
                dh = da = 0
        runs.append((e, dh, da, k))
        i += k
    return runs


def py_node(level, entries, lastkey, osz=8, used=None, sig=b"TREE", ntype=1, sib=(U64, U64)):
    """bytes of one B-tree node; entries = [(nbytes, mask, [offsets], child)]"""
    mask = (1 << (8 * osz)) - 1 if osz else 0
    b = bytearray(sig + bytes([ntype, level]) + struct.pack("<H", len(entries) if used is None else used))
    for x in sib:
        b += (x & mask).to_bytes(osz, "little")
    for nb, fm, offs, child in entries:
        b += struct.pack("<II", nb, fm) + b"".join(struct.pack("<Q", o) for o in offs) + (child & mask).to_bytes(osz, "little")
    nb, fm, offs = lastkey
    b += struct.pack("<II", nb, fm) + b"".join(struct.pack("<Q", o) for o in offs)
    return bytes(b)


def py_tree(rng, rank, cdims, shape, osz=8):
    """a multi-level tree (the writer never builds one, the reader accepts it): shape = list of fan-outs from the
    root down, leaves hold 1-3 entries.  Returns (file bytes, root, expected entries in leaf order)."""
    file = bytearray(rng.randrange(0, 40))
    expect = []
    counter = [0]

    def put(b):
        a = len(file)
        file.extend(b)
        file.extend(bytes(rng.randrange(0, 5)))
        return a

    def build(level, fans):
        if level == 0:
            ents = []
            for _ in range(rng.randrange(1, 4)):
                counter[0] += 1
                offs = [counter[0] * c for c in cdims]
                e = (rng.randrange(1, 1 << 20), rng.choice([0, 0, 1, 3]), offs, rng.randrange(0, 1 << (8 * min(osz, 6))))
                ents.append(e)
                expect.append(dict(scaled=[o // c for o, c in zip(offs, cdims)], nbytes=e[0], mask=e[1], addr=e[3]))
            return put(py_node(0, ents, (0, 0, [U64] * rank), osz))
        kids = [build(level - 1, fans[1:]) for _ in range(fans[0])]
        ents = [(0, 0, [0] * rank, k) for k in kids]
        return put(py_node(level, ents, (0, 0, [U64] * rank), osz))

    root = build(len(shape), shape)
    return bytes(file), root, expect


def gen_raw_cases(rng, bases, thorough):
    """malformed streams: truncations and byte flips of valid nodes, wrong offset size / rank / chunk extents / root"""
    cases = []
    per = 40 if thorough else 11
    for file, root, osz, cdims in bases:
        rank = len(cdims)
        ksz = 8 + 8 * rank
        end = len(file)
        cuts = {root, root + 1, root + 4, root + 7, root + 8, root + 8 + osz, root + 8 + 2 * osz - 1, root + 8 + 2 * osz,
                root + 8 + 2 * osz + ksz - 1, root + 8 + 2 * osz + ksz, root + 8 + 2 * osz + ksz + osz, end - 1, end - ksz, end - ksz - 1}
        cuts = sorted(c for c in cuts if 0 <= c < end)
        muts = []
        for c in rng.sample(cuts, min(len(cuts), per // 2)):
            muts.append((file[:c], root, osz, rank, cdims))
        hdr = [root + k for k in range(0, 8 + 2 * osz)]
        for _ in range(per - len(muts)):
            b = bytearray(file)
            pos = rng.choice(hdr) if rng.random() < 0.6 else rng.randrange(root, end)
            if pos < end:
                b[pos] = rng.choice([0, 1, 2, 255, b[pos] ^ (1 << rng.randrange(8)), rng.randrange(256)])
            muts.append((bytes(b), root, osz, rank, cdims))
        muts.append((file, root, osz, rank + 1, cdims))                       # ndims > len(chunkDims) ...
        muts.append((file + bytes(400), root, osz, rank + 1, cdims))          # ... with enough bytes: index out of range
        muts.append((file, root, osz, max(0, rank - 1), cdims))
        muts.append((file, root, rng.choice([0, 1, 2, 3, 4, 9, 16, 255]), rank, cdims))
        muts.append((file, root, osz, rank, [0 if k == rng.randrange(rank) else c for k, c in enumerate(cdims)]))
        muts.append((file, rng.choice([end, end - 1, end + 5, 2 ** 63 - 1, 2 ** 63, U64, U64 - 23, root + 1]), osz, rank, cdims))
        for f, r, o, nd, cd in muts:
            cases.append(dict(mode="indexraw", file=f.hex(), root=r, osz=o, ndims=nd, cdims=cd))
    return cases


# ----------------------------------------------------------------------------- Python oracle (independent of model and code)

def py_chunks(dims, cdims, esz, data):
    """[(coord, key, clipped size, padded bytes)] in row-major chunk order."""
    nc = [(d + c - 1) // c for d, c in zip(dims, cdims)]
    dstr = [prod(dims[i + 1:]) for i in range(len(dims))]
    cstr = [prod(cdims[i + 1:]) for i in range(len(dims))]
    out = []
    for coord in itertools.product(*[range(n) for n in nc]):
        buf = bytearray(prod(cdims) * esz)
        size = [min(c, d - x * c) for x, c, d in zip(coord, cdims, dims)]
        for j in itertools.product(*[range(s) for s in size]):
            so = sum((x * c + jj) * s for x, c, jj, s in zip(coord, cdims, j, dstr)) * esz
            do = sum(jj * s for jj, s in zip(j, cstr)) * esz
            buf[do:do + esz] = data[so:so + esz]
        out.append((list(coord), [x * c for x, c in zip(coord, cdims)], size, bytes(buf)))
    return out


def py_f64_of_int(v):
    return struct.unpack("<Q", struct.pack("<d", float(v)))[0]


# ----------------------------------------------------------------------------- Coq term printers

def cl(xs):
    return "[" + ";".join("%d" % x for x in xs) + "]"


def pk(b):
    """byte string as Model/ChunkTie.v `packed`: (length, 7-byte little-endian groups as uint63 literals)"""
    if isinstance(b, str):
        b = bytes.fromhex(b)
    return "(%d%%N,[%s])" % (len(b), ";".join("%d%%uint63" % int.from_bytes(b[i:i + 7], "little") for i in range(0, len(b), 7)))


def chunked(seq, n):
    for i in range(0, len(seq), n):
        yield i, seq[i:i + n]


def run_unit(ctx):
    H, rng = ctx.harness, ctx.rng
    thorough = ctx.tier == "thorough"
    t0 = time.time()
    n_tile, n_resize, nper = (4000, 3000, 800) if thorough else (600, 400, 150)
    if thorough:
        tile = gen_tile_cases(rng, n_tile)
        resize = gen_resize_cases(rng, n_resize)
    else:
        tile = gen_tile_cases(rng, n_tile, maxelems=300, maxpadded=800, maxbytes=800)
        resize = gen_resize_cases(rng, n_resize, maxelems=200, maxpadded=600)
    conv = gen_conv_cases(rng, nper)
    enc = gen_enc_cases(rng, nper)
    idxc = gen_index_cases(rng, thorough)
    repaired = source_switch()
    crep = vlib.cbool(repaired)
    # the two 65535 / 65536-entry cases: measured 2026-09: see LONG_IN_QUICK below
    idxc += long_index_cases() if (thorough or LONG_IN_QUICK) else []
    cases = tile + resize + conv + enc + idxc
    res = vlib.run_harness_parallel(H, "c01unit", cases) if thorough else vlib.run_harness(H, "c01unit", cases)
    viol, samples, known = [], [], []
    evaluations = 0
    distinct = set()

    spec_failed = set()     # indices of cases already reported with a specification-violating input

    def bad(what, case, r, **kw):
        c = dict(case)
        spec_failed.update(j for j, cc in enumerate(cases) if cc is case)
        viol.append(dict(what=what, failing_input=c, case=c, impl={k: v for k, v in r.items() if k != "stack"}, **kw))

    # ---- specification on the Go outputs (Python oracle)
    header = ("From HV Require Import Base.Prelude Model.Chunk Model.Elem Model.ChunkTie Model.ChunkIndex Model.ChunkIndexTie.\n"
              "From Coq Require Import Uint63.\nOpen Scope N_scope.\nOpen Scope string_scope.\n")
    groups = []        # (Coq text, [(label, kind, list of case indices)]): independent pieces, evaluated by parallel coqc runs
    tile_terms, tile_idx = [], []
    for i, (c, r) in enumerate(zip(cases, res)):
        if c["mode"] not in ("tile", "resize"):
            continue
        evaluations += 1
        if "panic" in r or "harness_error" in r or "coord_err" in r:
            bad("chunk extraction/placement failed on a valid shape: %s" % (r.get("panic") or r.get("harness_error") or r.get("coord_err"))[:200], c, r)
            continue
        data = bytes.fromhex(c["data"])
        dims, cdims, esz = c["dims"], c["cdims"], c["esz"]
        rdims = c.get("newdims", dims)
        exp_chunks = py_chunks(dims, cdims, esz, data)
        got = r["chunks"]
        distinct.add((tuple(dims), tuple(cdims), tuple(rdims), esz))
        if len(got) != len(exp_chunks):
            bad("writer emits %d chunks, the shape has %d" % (len(got), len(exp_chunks)), c, r)
            continue
        spec_bad = False
        for g, e in zip(got, exp_chunks):
            diff = [f for f, a, b in (("coordinate", g["coord"], e[0]), ("index key", g["key"], e[1]), ("clipped size", g["size"], e[2]),
                                      ("padded bytes", bytes.fromhex(g["bytes"]), e[3])) if a != b]
            if diff:
                bad("dims %s chunk dims %s esz %d, chunk %s: %s differ(s) from the zero-padded box of the data "
                    "(got coord %s key %s size %s bytes %s, expected key %s size %s bytes %s)"
                    % (dims, cdims, esz, e[0], ", ".join(diff), g["coord"], g["key"], g["size"], g["bytes"][:48], e[1], e[2], e[3].hex()[:48]), c, r,
                    expected=dict(coord=e[0], key=e[1], size=e[2], bytes=e[3].hex()))
                spec_bad = True
                break
        expect = histlib.resize_arr(data, dims, rdims, esz) if c["mode"] == "resize" else data
        if not spec_bad and (not r["read"]["ok"] or bytes.fromhex(r["read"]["bytes"]) != expect):
            what = ("placing the chunks written for %s (chunk %s, esz %d) under extents %s gives %s, expected %s"
                    % (dims, cdims, esz, rdims, ("error " + r["read"].get("err", "")) if not r["read"]["ok"] else r["read"]["bytes"][:64],
                       expect.hex()[:64]))
            bad(what, c, r, expected=expect.hex())
            spec_bad = True
        if os.environ.get("C01UNIT_SELFTEST") == "model" and not tile_terms:
            # self-test of the comparison itself: hand Coq a corrupted copy of the Go output
            got = [dict(got[0], bytes="%02x" % (int(got[0]["bytes"][:2], 16) ^ 1) + got[0]["bytes"][2:])] + got[1:]
        gos = "[" + ";".join("(%s,%s,%s,%s)" % (cl(g["coord"]), cl(g["key"]), cl(g["size"]), pk(g["bytes"])) for g in got) + "]"
        rb = "None" if r["read"]["bytes"] == c["data"] else "(Some %s)" % pk(r["read"]["bytes"])
        tile_terms.append("(%s,%s,%s,%d,%s,%s,%s,%s,%s)" % (
            cl(dims), cl(cdims), cl(rdims), esz, pk(c["data"]), gos, cl(c.get("perm", [])),
            "true" if r["read"]["ok"] else "false", rb))
        tile_idx.append(i)
        if len(samples) < 4 and len(dims) >= 2 and len(got) >= 4 and any(d % k for d, k in zip(dims, cdims)):
            samples.append(dict(mode=c["mode"], dims=dims, cdims=cdims, newdims=rdims, esz=esz, chunks=len(got),
                                first_chunk=got[0], read_ok=r["read"]["ok"]))
    for k, part in chunked(list(range(len(tile_terms))), 60):
        name = "tile_%d" % k
        groups.append(("Definition %s : list tilecase := [%s].\n" % (name, ";".join(tile_terms[j] for j in part))
                       + "Definition bad_%s := Eval vm_compute in mismatches tile_ok %s.\n" % (name, name)
                       + "Definition spec_%s := Eval vm_compute in mismatches tile_spec_ok %s.\n" % (name, name),
                       [("bad_" + name, "model", [tile_idx[j] for j in part]),
                        ("spec_" + name, "coqspec", [tile_idx[j] for j in part])]))

    # ---- element conversion
    conv_terms, conv_idx = [], []
    for i, (c, r) in enumerate(zip(cases, res)):
        if c["mode"] != "conv":
            continue
        raw = bytes.fromhex(c["raw"])
        nel = len(raw) // c["size"]
        evaluations += nel
        distinct.add(("conv", c["dtype"]))
        if "panic" in r or "harness_error" in r:
            bad("convertToFloat64 failed: %s" % (r.get("panic") or r.get("harness_error"))[:200], c, r)
            continue
        base = c["dtype"].split("/")[0]
        flipped = c["dtype"].endswith("/flip")
        if c["size"] in (4, 8):
            if c["class"] == 0:
                signed = bool(c["bits"] & 8)
                ints = [int.from_bytes(raw[j:j + c["size"]], "little", signed=signed) for j in range(0, len(raw), c["size"])]
                exp = ["%016x" % py_f64_of_int(v) for v in ints]
            else:
                exp = histlib.widen(base, raw)
            if not r.get("ok") or r["f64"] != exp:
                j = next((j for j in range(nel) if not r.get("ok") or r["f64"][j] != exp[j]), 0)
                bad("%s%s element %s read as %s, expected %s" % (base, " (sign bit flipped)" if flipped else "",
                    raw[j * c["size"]:(j + 1) * c["size"]].hex(), r["f64"][j] if r.get("ok") else r.get("err"), exp[j]), c, r)
        elif r.get("ok"):
            bad("%s has no typed read, yet convertToFloat64 returned values" % base, c, r)
        outs = [int(x, 16) for x in r.get("f64", [])]
        conv_terms.append("(%d,%d%%nat,%d,%s,%s,%s)" % (c["class"], c["size"], c["bits"], pk(c["raw"]),
                                                            "true" if r.get("ok") else "false", cl(outs)))
        conv_idx.append(i)
        if c["dtype"] in ("uint32", "int64"):
            samples.append(dict(mode="conv", dtype=c["dtype"], raw=c["raw"][:48], f64=r.get("f64", [])[:3]))
    for k, part in chunked(list(range(len(conv_terms))), 4):
        name = "conv_%d" % k
        groups.append(("Definition %s : list convcase := [%s].\n" % (name, ";".join(conv_terms[j] for j in part))
                       + "Definition bad_%s := Eval vm_compute in mismatches conv_ok %s.\n" % (name, name),
                       [("bad_" + name, "model", [conv_idx[j] for j in part])]))

    # ---- encoders and strings (encode with Go, decode with Go, compare with model and oracle)
    encint_terms, encint_idx, encstr_terms, encstr_idx = [], [], [], []
    dec_cases, dec_src = [], []
    for i, (c, r) in enumerate(zip(cases, res)):
        if c["mode"] == "encint":
            size = DT[c["dtype"]][1]
            vals = [int(v) for v in c["vals"]]
            evaluations += len(vals)
            distinct.add(("encint", c["dtype"]))
            exp = b"".join((v % (1 << (8 * size))).to_bytes(size, "little") for v in vals)
            if not r.get("ok") or bytes.fromhex(r["bytes"]) != exp:
                bad("%s values are not encoded as little-endian two's complement" % c["dtype"], c, r, expected=exp.hex())
            encint_terms.append("(%d%%nat,[%s],%s)" % (size, ";".join("(%d)%%Z" % v for v in vals), pk(r.get("bytes", ""))))
            encint_idx.append(i)
        elif c["mode"] == "encstr":
            n = c["size"]
            strs = [bytes.fromhex(s) for s in c["strs"]]
            evaluations += len(strs)
            distinct.add(("encstr", n))
            exp = b"".join((s[:n] if len(s) >= n else s + b"\x00" * (n - len(s))) for s in strs)
            if not r.get("ok") or bytes.fromhex(r["bytes"]) != exp:
                bad("fixed strings of size %d are not truncated/NUL-padded" % n, c, r, expected=exp.hex())
            encstr_terms.append("(%d%%nat,[%s],\"%s\")" % (n, ";".join('"%s"' % s for s in c["strs"]), r.get("bytes", "")))
            encstr_idx.append(i)
            if r.get("ok"):
                dec_cases.append(dict(mode="strdec", size=n, bits=0, raw=r["bytes"]))
                dec_src.append((i, strs))
    decstr_terms = []
    if dec_cases:
        dres = vlib.run_harness(H, "c01unit", dec_cases)
        for dc, dr, (i, strs) in zip(dec_cases, dres, dec_src):
            n = dc["size"]
            exp = [s[:n].split(b"\x00")[0].hex() for s in strs]
            evaluations += len(strs)
            if not dr.get("ok") or dr["strs"] != exp:
                j = next((j for j in range(len(exp)) if not dr.get("ok") or dr["strs"][j] != exp[j]), 0)
                bad("fixed string (size %d) written from %s reads back as %s, expected %s"
                    % (n, strs[j].hex(), dr["strs"][j] if dr.get("ok") else dr.get("err"), exp[j]), dict(cases[i], decode=dc), dr)
            decstr_terms.append("(%d%%nat,\"%s\",[%s])" % (n, dc["raw"], ";".join('"%s"' % s for s in dr.get("strs", []))))
        samples.append(dict(mode="string", size=dec_cases[0]["size"], written=cases[dec_src[0][0]]["strs"][:3], read=dres[0].get("strs", [])[:3]))
    groups.append(("Definition encint_cases : list encintcase := [%s].\n" % ";".join(encint_terms)
                   + "Definition bad_encint := Eval vm_compute in mismatches encint_ok encint_cases.\n"
                   + "Definition encstr_cases : list (nat * list string * string) := [%s].\n" % ";".join(encstr_terms)
                   + "Definition bad_encstr := Eval vm_compute in mismatches encstr_ok encstr_cases.\n"
                   + "Definition decstr_cases : list (nat * string * list string) := [%s].\n" % ";".join(decstr_terms)
                   + "Definition bad_decstr := Eval vm_compute in mismatches decstr_ok decstr_cases.\n",
                   [("bad_encint", "model", encint_idx), ("bad_encstr", "model", encstr_idx),
                    ("bad_decstr", "model", [i for i, _ in dec_src])]))

    # ---- chunk index: writer bytes, reader entries (value-exact, Go order), malformed streams
    def gents(rd):
        return "[" + ";".join("(%s,%d,%d,%d)" % (cl(e["scaled"]), e["nbytes"], e["mask"], e["addr"]) for e in (rd.get("entries") or [])) + "]"

    def rclass(r):
        return 2 if "panic" in r else r["read"]["class"]

    iw_terms, iw_idx, iw_weight = [], [], []
    iwl_terms, iwl_idx = [], []
    long_go_only = []
    raw_bases = []
    max_entries = 0
    for i, (c, r) in enumerate(zip(cases, res)):
        if c["mode"] != "index":
            continue
        evaluations += 1
        ents, cdims, dim = c["entries"], c["cdims"], c["dim"]
        distinct.add(("index", dim, len(ents), tuple(cdims)))
        if "harness_error" in r:
            bad("index harness error: %s" % r["harness_error"][:200], c, r)
            continue
        wvalid = 0 < len(ents) <= MAX_ENTRIES and all(len(e["coord"]) == dim for e in ents)
        rvalid = wvalid and all(x > 0 for x in cdims) and len(cdims) == dim
        gfile, geof = r.get("file", "00" * c["eof"]), r.get("eof", c["eof"])
        if "panic" in r:
            if rvalid:
                bad("chunk index of %d entries (rank %d): the library panics: %s" % (len(ents), dim, r["panic"][:160]), c, r)
                continue
            # not a valid input of the property: compared with the model only (class 2)
        if wvalid != bool(r.get("wok")) and "panic" not in r:
            bad("ChunkBTreeWriter %s an entry list that is %s (%d entries, rank %d): %s"
                % ("refuses" if wvalid else "accepts", "valid" if wvalid else "invalid", len(ents), dim, r.get("werr", "")),
                dict(c, entries=ents[:3] + ["... %d more" % (len(ents) - 3)]) if len(ents) > 400 else c,
                {k: v for k, v in r.items() if k not in ("file", "read")} if len(ents) > 400 else r)
            continue
        if not r.get("wok") and "panic" not in r and (geof != c["eof"] or bytes.fromhex(gfile) != bytes(c["eof"])):
            bad("a refused WriteToFile (%d entries) changed the state: allocator end %d -> %d, file %d -> %d bytes"
                % (len(ents), c["eof"], geof, c["eof"], len(gfile) // 2), c, r)
            continue
        if r.get("wok") and rvalid:
            # specification on the Go output: every written entry exactly once, in offset order, offsets divided by the
            # chunk extents, size and address as written, mask 0; root at the allocator's end of file
            exp = [dict(scaled=[o // k for o, k in zip(e["coord"], cdims)], nbytes=e["nbytes"], mask=0, addr=e["addr"])
                   for e in sorted(ents, key=lambda e: e["coord"])]
            rd = r["read"]
            if r["root"] != c["eof"]:
                bad("index root %d, allocator end of file %d" % (r["root"], c["eof"]), c, r)
                continue
            if rd["class"] != 0 or rd["entries"] != exp:
                got = rd.get("entries") or []
                j = next((j for j in range(max(len(got), len(exp))) if j >= len(got) or j >= len(exp) or got[j] != exp[j]), 0)
                bad("chunk index with %d entries (rank %d, chunk extents %s) reads back %s; first difference at position %d: "
                    "read %s, written %s" % (len(ents), dim, cdims, ("error " + rd.get("err", "")) if rd["class"] else "%d entries" % len(got), j,
                                             got[j] if j < len(got) else None, exp[j] if j < len(exp) else None), c, r,
                    expected=exp[:50])
                continue
            max_entries = max(max_entries, len(ents))
            if geof != c["eof"] + len(gfile) // 2 - c["eof"] or len(gfile) // 2 != c["eof"] + 24 + len(ents) * (16 + 8 * dim) + 8 + 8 * dim:
                bad("index node of %d entries (rank %d): file %d bytes, allocator end %d" % (len(ents), dim, len(gfile) // 2, geof), c, r)
                continue
            if len(ents) <= 5 and len(raw_bases) < (60 if thorough else 14):
                raw_bases.append((bytes.fromhex(r["file"]), r["root"], 8, cdims))
            if len(samples) < 7 and len(ents) in (3, 33) and dim >= 2:
                samples.append(dict(mode="index", dim=dim, cdims=cdims, entries=ents[:3], n=len(ents), root=r["root"], read=rd["entries"][:3]))
        if "panic" in r:
            continue
        if c.get("long") and r.get("wok"):
            long_go_only.append("%d entries written and read back by Go, equal to the Python specification" % len(ents))
            continue
        if c.get("long"):
            wr = compress_runs(ents, lambda e: e["coord"], lambda e: e["addr"], lambda a, b: a["nbytes"] == b["nbytes"])
            es = "[" + ";".join("((%s,%d,%d),%d,%d,%d)" % (cl(e["coord"]), e["addr"], e["nbytes"], dh, da, k) for e, dh, da, k in wr) + "]"
            got = (r.get("read") or {}).get("entries") or []
            gr = compress_runs(got, lambda e: e["scaled"], lambda e: e["addr"], lambda a, b: (a["nbytes"], a["mask"]) == (b["nbytes"], b["mask"]))
            gs = "[" + ";".join("((%s,%d,%d,%d),%d,%d,%d)" % (cl(e["scaled"]), e["nbytes"], e["mask"], e["addr"], dh, da, k) for e, dh, da, k in gr) + "]"
            t = "(%d%%nat,%s,%s,%d,%s,%d,%d,%s,%d,%s)" % (dim, cl(cdims), es, c["eof"], vlib.cbool(bool(r.get("wok"))), r.get("root", 0), geof, pk(gfile),
                                                       rclass(r) if r.get("wok") else 1, gs)
            iwl_terms.append(t)
            iwl_idx.append(i)
            continue
        es = "[" + ";".join("(%s,%d,%d)" % (cl(e["coord"]), e["addr"], e["nbytes"]) for e in ents) + "]"
        if r.get("wok"):
            t = "(%d%%nat,%s,%s,%d,true,%d,%d,%s,%d,%s)" % (dim, cl(cdims), es, c["eof"], r["root"], geof, pk(gfile), rclass(r), gents(r.get("read", {})))
        else:
            t = "(%d%%nat,%s,%s,%d,false,0,%d,%s,1,[])" % (dim, cl(cdims), es, c["eof"], geof, pk(gfile))
        iw_terms.append(t)
        iw_idx.append(i)
        iw_weight.append(20 + len(ents) * (2 * dim + 8) + len(r.get("file", "")) // 14)

    def weighted_groups(prefix, ty, okf, terms, idxs, weights, limit):
        k, cur, curw = 0, [], 0
        for j in range(len(terms) + 1):
            if j == len(terms) or (cur and curw + weights[j] > limit):
                name = "%s_%d" % (prefix, k)
                groups.append(("Definition %s : list %s := [%s].\n" % (name, ty, ";".join(terms[x] for x in cur))
                               + "Definition bad_%s := Eval vm_compute in mismatches (%s %s) %s.\n" % (name, okf, crep, name),
                               [("bad_" + name, "model", [idxs[x] for x in cur])]))
                k, cur, curw = k + 1, [], 0
            if j < len(terms):
                cur.append(j)
                curw += weights[j]

    weighted_groups("iw", "iwcase", "iw_ok", iw_terms, iw_idx, iw_weight, 6000)
    for k, (t, i) in enumerate(zip(iwl_terms, iwl_idx)):      # one group each: they run in parallel
        groups.append(("Definition iwl_%d : list iwlcase := [%s].\nDefinition bad_iwl_%d := Eval vm_compute in mismatches (iwl_ok %s) iwl_%d.\n"
                       % (k, t, k, crep, k), [("bad_iwl_%d" % k, "model", [i])]))

    # multi-level trees built here (the writer never emits them; the reader's recursion, level guard and visited set)
    tree_cases, tree_expect = [], []
    for _ in range(60 if thorough else 12):
        rank = rng.choice([1, 2, 3])
        cdims = [rng.choice([1, 2, 5, 1000]) for _ in range(rank)]
        osz = rng.choice([8, 8, 8, 4])
        shape = rng.choice([[1], [2], [3], [2, 2], [1, 1, 1], [3, 2], [1, 4]])
        file, root, expect = py_tree(rng, rank, cdims, shape, osz)
        tree_cases.append(dict(mode="indexraw", file=file.hex(), root=root, osz=osz, ndims=rank, cdims=cdims))
        tree_expect.append(expect)
        if len(raw_bases) < (90 if thorough else 20):
            raw_bases.append((file, root, osz, cdims))
    # guards: a node that is its own child, one child referenced twice, a child at the parent's level
    leaf = py_node(0, [(8, 0, [0], 500)], (0, 0, [U64]))
    for f, root in [(py_node(1, [(0, 0, [0], 0)], (0, 0, [U64])), 0),
                    (leaf + py_node(1, [(0, 0, [0], 0), (0, 0, [4], 0)], (0, 0, [U64])), len(leaf)),
                    (py_node(1, [(0, 0, [0], 100)], (0, 0, [U64])).ljust(100, b"\0") + py_node(1, [(0, 0, [0], 0)], (0, 0, [U64])), 0),
                    (py_node(2, [(0, 0, [0], 100)], (0, 0, [U64])).ljust(100, b"\0") + py_node(1, [(0, 0, [0], 0)], (0, 0, [U64])), 0),
                    # root (level 1) -> node of the SAME level 1 -> leaf: refused by the level guard although acyclic
                    (leaf.ljust(100, b"\0") + py_node(1, [(0, 0, [0], 0)], (0, 0, [U64])).ljust(100, b"\0")
                     + py_node(1, [(0, 0, [0], 100)], (0, 0, [U64])), 200),
                    # ... and a child one level ABOVE its parent
                    (leaf.ljust(100, b"\0") + py_node(2, [(0, 0, [0], 0)], (0, 0, [U64])).ljust(100, b"\0")
                     + py_node(1, [(0, 0, [0], 100)], (0, 0, [U64])), 200),
                    (py_node(0, [], (0, 0, [U64]), used=0), 0), (py_node(3, [], (0, 0, [U64]), used=0), 0),
                    (py_node(0, [(8, 0, [0], 500)], (0, 0, [U64]), ntype=0), 0)]:
        tree_cases.append(dict(mode="indexraw", file=f.hex(), root=root, osz=8, ndims=1, cdims=[4]))
        tree_expect.append(None)
    # entries used = 65535: len(Keys) = uint16(65535 + 1) = 0, so storing key 0 is an index panic (when the file is long
    # enough for 65535 entries); 65534 with the same bytes is an ordinary (all-zero) node of 65534 entries - not evaluated
    # by the model here (too long for the list-based evaluation), only its short-file error twin
    hdr65535 = py_node(0, [], (0, 0, [0]), used=65535)[:24]
    tree_cases.append(dict(mode="indexraw", file=(hdr65535 + bytes(4096)).hex(), root=0, osz=8, ndims=1, cdims=[4]))
    tree_expect.append(None)
    if thorough or LONG_IN_QUICK:
        # the long-file twin: a node of 65535 all-zero entries (any writer may produce a full node); parses since 18c9d53
        tree_cases.append(dict(mode="indexraw", file=hdr65535.hex(), ztail=65535 * 24 + 16, root=0, osz=8, ndims=1, cdims=[4], long=True))
        tree_expect.append([dict(scaled=[0], nbytes=0, mask=0, addr=0)] * 65535 if repaired else None)
    raw_cases = tree_cases + gen_raw_cases(rng, raw_bases, thorough)
    raw_res = vlib.run_harness(H, "c01unit", raw_cases)
    base_i = len(cases)
    cases += raw_cases
    res += raw_res
    ir_terms, ir_idx, ir_weight = [], [], []
    used65535 = [rclass(r) for c, r in zip(raw_cases, raw_res) if c["file"].startswith(hdr65535.hex())]
    for c, r in zip(raw_cases, raw_res):      # the fix 18c9d53 at the reader: no panic on a full node
        if c.get("long") and rclass(r) == 2 and repaired:
            bad("a chunk B-tree node with 65535 entries makes ParseBTreeV1Node panic: %s" % r["panic"][:160], c, r)
    malformed = {0: 0, 1: 0, 2: 0}
    for j, (c, r) in enumerate(zip(raw_cases, raw_res)):
        evaluations += 1
        if "harness_error" in r:
            bad("indexraw harness error: %s" % r["harness_error"][:200], c, r)
            continue
        k = rclass(r)
        if j < len(tree_expect):
            if tree_expect[j] is not None and (k != 0 or r["read"]["entries"] != tree_expect[j]):
                bad("a well-formed %d-level chunk B-tree (rank %d, offset size %d) with %d leaf entries is read as %s"
                    % (r.get("read", {}).get("level", -1) + 1, c["ndims"], c["osz"], len(tree_expect[j]),
                       "class %d %s" % (k, r.get("panic", r.get("read", {}).get("err", ""))[:120]) if k else "%d entries" % len(r["read"]["entries"])), c,
                    dict(r, read=dict(r["read"], entries=(r["read"].get("entries") or [])[:50])) if "read" in r else r,
                    expected=tree_expect[j][:50])
                continue
            max_entries = max(max_entries, len(tree_expect[j] or []))
        else:
            malformed[k] += 1
        rd = r.get("read", {})
        fb = bytes.fromhex(c["file"])
        if c.get("long"):
            long_go_only.append("foreign node with entries used = 65535: Go class %d, %d entries, equal to the Python specification" % (k, len(rd.get("entries") or [])))
            continue
        if c.get("long") and False:      # kept for a faster model reader: the run-length transport of the Go entries (irl_ok)
            gr = compress_runs(rd.get("entries") or [], lambda e: e["scaled"], lambda e: e["addr"], lambda a, b: (a["nbytes"], a["mask"]) == (b["nbytes"], b["mask"]))
            gs = "[" + ";".join("((%s,%d,%d,%d),%d,%d,%d)" % (cl(e["scaled"]), e["nbytes"], e["mask"], e["addr"], dh, da, n) for e, dh, da, n in gr) + "]"
            groups.append(("Definition irl_%d : list irlcase := [(%s,%d,%d,%d,%d%%nat,%s,%d,%s)].\n" % (j, pk(fb), c["ztail"], c["root"], c["osz"], c["ndims"], cl(c["cdims"]), k, gs)
                           + "Definition bad_irl_%d := Eval vm_compute in mismatches (irl_ok %s) irl_%d.\n" % (j, crep, j),
                           [("bad_irl_%d" % j, "model", [base_i + j])]))
            continue
        body = fb.rstrip(b"\0") if len(fb) > 8000 else fb     # long zero tails are not spelled out as literals
        ir_terms.append("(%s,%d,%d,%d,%d%%nat,%s,%d,%s)" % (pk(body), len(fb) - len(body), c["root"], c["osz"], c["ndims"], cl(c["cdims"]), k, gents(rd)))
        ir_idx.append(base_i + j)
        ir_weight.append(20 + len(body) // 7 + 6 * len(rd.get("entries") or []))
    weighted_groups("ir", "ircase", "ir_ok", ir_terms, ir_idx, ir_weight, 3000)
    if raw_res:
        samples.append(dict(mode="indexraw", root=raw_cases[-1]["root"], osz=raw_cases[-1]["osz"], ndims=raw_cases[-1]["ndims"],
                            file=raw_cases[-1]["file"][:64], go=rclass(raw_res[-1])))

    # ---- Coq model on the same cases
    import concurrent.futures as cf
    nfiles = max(1, min(12, len(groups)))
    buckets = [[] for _ in range(nfiles)]
    for k, g in enumerate(groups):
        buckets[k % nfiles].append(g)

    def eval_bucket(kb):
        k, b = kb
        labs = [l for _, ls in b for l in ls]
        text = (header + "".join(t for t, _ in b)
                + "Definition ALLBAD := Eval vm_compute in [%s].\nPrint ALLBAD.\n" % ";".join("N.of_nat (List.length %s)" % l[0] for l in labs)
                + "".join("Print %s.\n" % l[0] for l in labs))
        o = vlib.coq_eval(text, "c01unit_cases_%d" % k)
        return labs, vlib.parse_nlist(o, "ALLBAD"), o

    t1 = time.time()
    with cf.ThreadPoolExecutor(nfiles) as ex:
        parts = list(ex.map(eval_bucket, enumerate(buckets)))
    coq_s = time.time() - t1
    labels, counts, outs = [], [], {}
    for labs, cnts, o in parts:
        labels += labs
        counts += cnts
        for l in labs:
            outs[l[0]] = o
    for (lab, kind, idxs), nbad in zip(labels, counts):
        if nbad == 0:
            continue
        shown = 0
        for j in vlib.parse_nlist(outs[lab], lab):
            i = idxs[j]
            c, r = cases[i], res[i]
            if i in spec_failed:
                continue   # already reported with a specification-violating input
            if shown >= 3:
                break
            shown += 1
            if kind == "coqspec":
                bad("Coq specification (resize_arr) rejects the Go read result for dims %s chunk %s read under %s"
                    % (c.get("dims"), c.get("cdims"), c.get("newdims", c.get("dims"))), c, r)
                continue
            # Go != model but the Python oracle accepted the Go output: fidelity divergence
            viol.append(dict(what="implementation and Coq model disagree (%s) while the specification holds on this input" % c["mode"],
                             case=c, impl={k: v for k, v in r.items() if k != "stack"}, nofail=True,
                             correspondence=("Model/ChunkIndex.v (Model/ChunkIndexTie.v %s) vs Go; theorems C01_index_roundtrip / C01_index_refused_unchanged / C01_index_lookup / C01_chunked_end_to_end" % lab)
                             if c["mode"] in ("index", "indexraw") else
                             "Model/Chunk.v + Model/Elem.v (Model/ChunkTie.v %s) vs Go; theorems C01_chunk_tiling / C13_read_after_resize / C01_int_roundtrip" % lab))

    # ---- C13 stale data after shrink-then-grow, confirmed at unit level (finding, not a violation here)
    w = dict(mode="resize", dims=[8], newdims=[7], cdims=[4], esz=1, data=bytes(range(1, 9)).hex())
    wr = vlib.run_harness(H, "c01unit", [w])[0]
    twice = histlib.resize_arr(histlib.resize_arr(bytes(range(1, 9)), [8], [3], 1), [3], [7], 1)
    if wr.get("read", {}).get("ok") and bytes.fromhex(wr["read"]["bytes"]) != twice:
        known.append("C13 shrink-then-grow without a write: chunks written for [8] (chunk [4]) read under [7] give %s; "
                     "after an intermediate Resize to [3] the specification is %s (theorem C13_shrink_grow_refuted; "
                     "class: some intermediate extent below both the written and the final extent = not chain_covers, see "
                     "C13_read_after_resizes / C13_read_after_resizes_tight)"
                     % (wr["read"]["bytes"], twice.hex()))
    nviol = len(viol)
    viol.sort(key=lambda v: bool(v.get("nofail")))
    viol = viol[:25]
    global LAST_INDEX_COVERAGE
    LAST_INDEX_COVERAGE = dict(index_cases=len(iw_terms), max_entries=max_entries, malformed_cases=sum(malformed.values()),
                               malformed_classes=dict(ok=malformed[0], err=malformed[1], panic=malformed[2]), tree_cases=len(tree_cases),
                               entries_used_65535_classes=used65535, repair_switch_from_source=repaired,
                               long_cases_model=len(iwl_terms), long_cases_go_only=long_go_only,
                               entry_counts=sorted({len(c["entries"]) for c in idxc}),
                               ranks=sorted({c["dim"] for c in idxc}), unit_wall_s=round(time.time() - t0, 1))
    return dict(violations=viol, violations_total=nviol, evaluations=evaluations, distinct=len(distinct), samples=samples[:8], known=known,
                coq_cases=len(tile_terms) + len(conv_terms) + len(encint_terms) + len(encstr_terms) + len(decstr_terms) + len(iw_terms) + len(ir_terms),
                index_cases=len(iw_terms), max_entries=max_entries, malformed_cases=sum(malformed.values()),
                malformed_classes=dict(ok=malformed[0], err=malformed[1], panic=malformed[2]), tree_cases=len(tree_cases),
                entries_used_65535_classes=used65535, repair_switch_from_source=repaired,
                long_cases_model=len(iwl_terms), long_cases_go_only=long_go_only,
                coq_seconds=round(coq_s, 1), wall_s=round(time.time() - t0, 1),
                distribution=dict(tile=len(tile), resize=len(resize), conv_buffers=len(conv), enc_buffers=len(enc),
                                  ranks={k: sum(1 for c in tile + resize if len(c["dims"]) == k) for k in (1, 2, 3, 4)},
                                  permuted=sum(1 for c in tile if "perm" in c),
                                  chunk_gt_dim=sum(1 for c in tile + resize if any(k > d for k, d in zip(c["cdims"], c["dims"]))),
                                  nondividing=sum(1 for c in tile + resize if any(d % k for k, d in zip(c["cdims"], c["dims"])))),
                rule="distinct = number of different (dims, chunk dims, read dims, esz) shapes plus element-type buffers; "
                     "evaluations = shapes placed + elements converted/encoded + chunk index files written/read")
