"""C12 - Variable-length data round-trips through the global heap.

Tie.  Every generated case is one file written through the public API (CreateForWrite, CreateDataset
with a VLen* datatype, contiguous or chunked, Write, Close), reopened with hdf5.Open.  The harness
(`verifharness c12`) returns the datatype message as the reader parses it, what ReadStrings/Read
return, the raw 16-byte dataset elements, every element resolved with the library's own
ParseGlobalHeapReference + ReadGlobalHeapCollection + GetObject, and the bytes of every GCOL
collection in the file.

Gates (specification evaluated on the implementation's outputs, independent of the model):
  * resolved elements == written elements (library readers AND an independent Python decoder of the
    raw references and collections),
  * datatype recognised as variable-length (class 9, size 16, sequence/string flag) of the written base
    type (class, size, sign),
  * ReadStrings / Read return the written values or an error - never other values,
  * every collection is well-formed (independent Python decoder of HDF5 III.E; Coq `wf_gcol` on the
    same bytes for the exactly transported cases); the free-space size convention is recorded, not
    gated (D16 / C05).
Model vs Go: the Coq model (Model/GHeap.v, theorems Props/C12.v) predicts the reference bytes and the
collection bytes: byte-for-byte for moderate cases (`tie_exact`), through (address, length, hash)
for every case (`tie_hash`).
"""
import json, os, re, resource, time, zlib
from collections import Counter
import vlib

TRUSTED = ["C12: the file is modelled as the list of extents written by the global-heap writer; disjointness from "
           "other structures of the file is the allocator's contract (C05) and enters as the A(n) operations of the history",
           "C12: large collections are compared through length + Adler-32 of the bytes and of the reversed bytes (tie_hash); byte-exact "
           "comparison (tie_exact) covers the cases whose collections fit the transport budget"]
ASSUMPTIONS = ["offset size 8 (the writer produces nothing else); file size below 2^64; "
               "Go slices shorter than 2^63 bytes (no uint64 wrap in the size arithmetic)"]

BASES = ["string", "int32", "int64", "uint32", "uint64", "float32", "float64"]      # = GHeap.vbases order
# (class, size, class bit field, element width) registered by the writer for the base type
BASE_INFO = {"string": (3, 1, 0, 1), "int32": (0, 4, 8, 4), "int64": (0, 8, 8, 8), "uint32": (0, 4, 0, 4),
             "uint64": (0, 8, 0, 8), "float32": (1, 4, 0, 4), "float64": (1, 8, 0, 8)}
UTF8 = ["é".encode(), "你好".encode(), "😀".encode(), "ü\x00ñ".encode(), b"\x00", b"\x00\x00", b"a\x00b", "ࠀ".encode()]


def hash_bytes(b):
    """GHeapTie.hash_bytes: Adler-32 of the bytes and of the reversed bytes."""
    b = bytes(b)
    return zlib.adler32(b) * 4294967296 + zlib.adler32(b[::-1])


# ----------------------------------------------------------------------------- source facts
def source_params():
    """minCollectionSize and the rounding unit, read from the source (fails loudly if the pattern moves)."""
    src = open(os.path.join(vlib.REPO, "global_heap_write.go")).read()
    m = re.search(r"minCollectionSize:\s*(\d+)\s*,", src)
    r = re.search(r"collectionSize\s*=\s*\(\(neededSize\s*\+\s*(\d+)\)\s*/\s*(\d+)\)\s*\*\s*(\d+)", src)
    if not m or not r or int(r.group(2)) != int(r.group(3)) or int(r.group(1)) != int(r.group(2)) - 1:
        return None
    return int(m.group(1)), int(r.group(2))


# ----------------------------------------------------------------------------- independent oracle
def align8(n):
    return (n + 7) // 8 * 8


def py_parse_gcol(b):
    """Independent decoder of one global heap collection (HDF5 file format III.E), offset size 8.
    Returns (objects {index: data}, info, problems)."""
    probs, objs, info = [], {}, {"free": None, "conv": None, "nobj": 0}
    if len(b) < 16:
        return objs, info, ["shorter than the 16-byte header"]
    if b[0:4] != b"GCOL":
        probs.append("bad signature")
    if b[4] != 1:
        probs.append("version %d" % b[4])
    if b[5:8] != b"\0\0\0":
        probs.append("reserved header bytes not zero")
    size = int.from_bytes(b[8:16], "little")
    if size != len(b):
        probs.append("declared size %d != %d bytes present" % (size, len(b)))
    if len(b) % 8:
        probs.append("collection size %d not a multiple of 8" % len(b))
    off = 16
    while off < len(b):
        if len(b) - off < 16:
            if any(b[off:]):
                probs.append("non-zero bytes in a tail too short for an object header at %d" % off)
            info["free"] = len(b) - off
            break
        idx = int.from_bytes(b[off:off + 2], "little")
        ref = int.from_bytes(b[off + 2:off + 4], "little")
        if b[off + 4:off + 8] != b"\0\0\0\0":
            probs.append("reserved object-header bytes not zero at %d" % off)
        sz = int.from_bytes(b[off + 8:off + 16], "little")
        tail = len(b) - off
        if idx == 0:
            info["free"] = tail
            if ref != 0:
                probs.append("free-space object with reference count %d" % ref)
            if sz == tail - 16:
                info["conv"] = "lib"          # size of the space after the header (this library)
            elif sz == tail:
                info["conv"] = "hdf5"         # size including the header (HDF5 library)
            else:
                probs.append("free-space object size %d does not cover the %d-byte tail" % (sz, tail))
            break
        if off % 8:
            probs.append("object %d at offset %d not 8-aligned" % (idx, off))
        if idx in objs:
            probs.append("duplicate object index %d" % idx)
        if 16 + align8(sz) > tail:
            probs.append("object %d (size %d) extends beyond the collection" % (idx, sz))
            break
        if ref == 0:
            probs.append("object %d has reference count 0" % idx)
        objs[idx] = bytes(b[off + 16:off + 16 + sz])
        off += 16 + align8(sz)
    if info["free"] is None:
        info["free"] = 0
    info["nobj"] = len(objs)
    return objs, info, probs


def expected_dt(base):
    c, s, f, _ = BASE_INFO[base]
    return dict(cls=9, size=16, vltype=1 if base == "string" else 0, bcls=c, bsize=s, bbits=f)


# ----------------------------------------------------------------------------- generator
def rnd_bytes(rng, n):
    kind = rng.random()
    if kind < 0.25:
        return bytes(rng.randrange(256) for _ in range(n))
    if kind < 0.5:
        out = bytearray()
        while len(out) < n:
            out += rng.choice(UTF8) if rng.random() < 0.5 else bytes([rng.randrange(32, 127)])
        return bytes(out[:n])
    if kind < 0.65:
        return bytes(rng.choice([0, 0, 65, 255]) for _ in range(n))
    return bytes(rng.randrange(97, 123) for _ in range(n))


def mk_elem(rng, length, width):
    """(pattern, length): the element is the first `length` bytes of the pattern repeated."""
    length -= length % width
    if length <= 48:
        return (rnd_bytes(rng, length), length)
    return (rnd_bytes(rng, rng.choice([1, 3, 8, 16, 31, 48])), length)


def elem_bytes(e):
    pat, n = e
    if n == 0:
        return b""
    return (pat * (n // len(pat) + 1))[:n]


LEN_SMALL = [0, 0, 1, 7, 8, 9, 15, 16, 17, 23, 24, 25]
LEN_EDGE = list(range(4063, 4082))


def gen_lengths(rng, kind, count, minsz):
    if kind == "small":
        return [rng.choice(LEN_SMALL + [rng.randrange(0, 200)]) for _ in range(count)]
    if kind == "fill":
        # first element leaves k bytes free in a fresh minimum-size collection (k = 0, 8, 16, 24, 32, 40), then short ones
        k = rng.choice([0, 8, 16, 24, 32, 40, 48])
        first = max(0, minsz - 16 - 16 - k)
        first -= rng.choice([0, 0, 1, 7])
        return [first] + [rng.choice([0, 0, 1, 8, 9, 16, 24]) for _ in range(count - 1)]
    if kind == "edge":
        return [rng.choice(LEN_EDGE + LEN_SMALL) for _ in range(count)]
    if kind == "big":
        huge = rng.sample(range(count), min(count, rng.choice([1, 1, 2])))
        return [rng.choice([65537, 65537, 70000]) if i in huge else
                rng.choice([rng.randrange(4082, 12000)] + LEN_SMALL + LEN_EDGE[:4]) for i in range(count)]
    if kind == "tiny":
        return [rng.choice([0, 0, 1, 2, 3, 4, 8]) for _ in range(count)]
    return [int(rng.expovariate(1 / 40.0)) for _ in range(count)]


def gen_dataset(rng, name, kind, count, minsz, base=None):
    base = base or rng.choice(BASES)
    width = BASE_INFO[base][3]
    lens = gen_lengths(rng, kind, count, minsz)
    if kind in ("tiny", "mixed") and count > 300:
        # large counts: draw from a small pool so that the Coq transport stays small
        poolsrc = [mk_elem(rng, l, width) for l in lens[:40]]
        elems = [rng.choice(poolsrc) for _ in range(count)]
    else:
        elems = [mk_elem(rng, l, width) for l in lens]
    if rng.random() < 0.5:
        chunk = 0
    else:
        chunk = rng.choice([1, 2, 3, 7, count, rng.randrange(1, count + 1)])
        if count > 2000:
            chunk = max(chunk, 16)
        chunk = min(chunk, count)
    return dict(name=name, base=base, chunk=chunk, elems=elems, kind=kind)


def gen_cases(rng, tier, minsz):
    quick = tier != "thorough"
    cases = []

    def add(kind, count, two=False, sb=None, base=None):
        ds = [gen_dataset(rng, "d0", kind, count, minsz, base)]
        if two:
            ds.append(gen_dataset(rng, "d1", rng.choice(["small", "fill", "edge"]), rng.randrange(1, 12), minsz))
        cases.append(dict(sbver=sb if sb is not None else rng.choice([0, 2, 2, 3]), datasets=ds))

    # every base type x both layouts at least once, deterministic head of the list
    for b in BASES:
        add("small", 5, base=b)
        add("fill", 4, base=b)
    n = dict(small=70, fill=45, edge=24, big=8, mixed=18, two=30) if quick else \
        dict(small=2000, fill=2000, edge=800, big=150, mixed=400, two=1000)
    for _ in range(n["small"]):
        add("small", rng.randrange(1, 13))
    for _ in range(n["fill"]):
        add("fill", rng.randrange(1, 9))
    for _ in range(n["edge"]):
        add("edge", rng.randrange(1, 7))
    for _ in range(n["big"]):
        add("big", rng.randrange(1, 6))
    for _ in range(n["mixed"]):
        add("mixed", rng.choice([20, 50, 170, 171, 255, 256, 400, 1000]))
    for _ in range(n["two"]):
        add(rng.choice(["small", "fill", "edge"]), rng.randrange(1, 10), two=True)
    for cnt in ([3000, 10000] if quick else [1000, 3000, 10000] * 4):
        add(rng.choice(["tiny", "mixed"]), cnt)
    return cases


# ----------------------------------------------------------------------------- Coq transport
def coq_pool_and_hist(case, gaps):
    """pool [(hex pattern, len)], history [HW i | HA n] for the concatenated datasets; gaps[k] = foreign
    allocation (bytes) inserted before dataset k."""
    pool, index, hist = [], {}, []
    for k, ds in enumerate(case["datasets"]):
        if gaps[k]:
            hist.append("HA %d" % gaps[k])
        for e in ds["elems"]:
            if e not in index:
                index[e] = len(pool)
                pool.append(e)
            hist.append("HW %d" % index[e])
    pool_s = "[" + ";".join('("%s",%d)' % (p.hex(), n) for p, n in pool) + "]"
    pool_bytes = [elem_bytes(e) for e in pool]
    return pool_s, "[" + ";".join(hist) + "]", pool_bytes


def strip_zeros(b):
    n = len(b)
    while n and b[n - 1] == 0:
        n -= 1
    return b[:n]


def segments(b, pool_index, pool_bytes):
    """Exact transport of one collection: [("L", bytes) | ("E", pool index) | ("Z", n)] with
    expansion == b (checked here).  Object data equal to a pool element is sent as its index."""
    segs, lit = [], bytearray(b[:16])
    off = 16
    while len(b) - off >= 16:
        idx = int.from_bytes(b[off:off + 2], "little")
        sz = int.from_bytes(b[off + 8:off + 16], "little")
        if idx == 0 or 16 + align8(sz) > len(b) - off:
            break
        data = bytes(b[off + 16:off + 16 + sz])
        lit += b[off:off + 16]
        if sz > 24 and data in pool_index:
            segs.append(("L", bytes(lit)))
            segs.append(("E", pool_index[data]))
            lit = bytearray()
        else:
            lit += data
        lit += b[off + 16 + sz:off + 16 + align8(sz)]
        off += 16 + align8(sz)
    rest = strip_zeros(b[off:])
    lit += rest
    if lit:
        segs.append(("L", bytes(lit)))
    z = len(b) - off - len(rest)
    if z:
        segs.append(("Z", z))
    back = b"".join(x if k == "L" else pool_bytes[x] if k == "E" else b"\0" * x for k, x in segs)
    if back != bytes(b):
        segs = [("L", strip_zeros(b)), ("Z", len(b) - len(strip_zeros(b)))]
    cost = sum(len(x) for k, x in segs if k == "L")
    return "[" + ";".join('SL "%s"' % x.hex() if k == "L" else "SE %d" % x if k == "E" else "SZ %d" % x for k, x in segs) + "]", cost


# ----------------------------------------------------------------------------- one case
def check_case(case, res, params):
    """Specification-level checks on the implementation's outputs. Returns (problems, facts)."""
    minsz, blk = params
    P, facts = [], {}

    def bad(cls, msg, **kw):
        P.append(dict(cls=cls, msg=msg, **kw))

    if "panic" in res:
        bad("panic", "library panicked: " + str(res["panic"])[:300])
        return P, facts
    if "harness_error" in res:
        bad("harness", "harness error: " + res["harness_error"])
        return P, facts
    for k in ("create_err", "close_err", "open_err"):
        if res.get(k):
            bad("write-failed", "%s: %s" % (k, res[k]))
    if res.get("write_errs"):
        bad("write-failed", "write errors: %s" % res["write_errs"])
    if P:
        return P, facts
    # ---- collections
    cols = {}
    conv = Counter()
    for g in res.get("gcols") or []:
        b = bytes.fromhex(g["hex"])
        objs, info, probs = py_parse_gcol(b)
        if g.get("clipped"):
            probs.append("collection does not fit its declared size %d inside the file" % g["declared_size"])
        if g["addr"] + len(b) > res.get("file_size", 0):
            probs.append("collection extends beyond the end of the file")
        for p in probs:
            bad("gcol-malformed", "collection at %d: %s" % (g["addr"], p), addr=g["addr"])
        cols[g["addr"]] = (b, objs, info)
        conv[info["conv"] or ("no-free-object(%d)" % info["free"])] += 1
    facts["cols"] = cols
    facts["conv"] = conv
    # ---- datasets
    facts["limit_no_read"] = 0
    referenced = set()
    for ds, out in zip(case["datasets"], res.get("datasets") or []):
        want = [elem_bytes(e) for e in ds["elems"]]
        nm = ds["name"]
        if out.get("missing"):
            bad("dataset-missing", "dataset %s not found after reopen" % nm)
            continue
        for k in ("header_err", "dt_err", "space_err", "layout_err", "raw_err", "info_err"):
            if out.get(k):
                bad("reopen-failed", "%s %s: %s" % (nm, k, out[k]))
        if "raw_refs" not in out:
            continue
        # datatype recognised?
        exp = expected_dt(ds["base"])
        dt, bdt = out.get("dt") or {}, out.get("base_dt") or {}
        got = dict(cls=dt.get("class"), size=dt.get("size"), vltype=(dt.get("bitfield", 0) & 15),
                   bcls=bdt.get("class"), bsize=bdt.get("size"), bbits=bdt.get("bitfield"))
        if got != exp or dt.get("is_vlen_string") != (ds["base"] == "string"):
            cls = "dt-d10" if (dt.get("class") == 0 and dt.get("version") == 9) else "dt-not-recognised"
            bad(cls, "%s: written as variable-length %s, reopened as %r (%s)" % (nm, ds["base"], dt.get("string"), got),
                dtmsg=out.get("dtmsg"), info=out.get("info"))
        if out.get("dims") != [len(want)]:
            bad("dims", "%s: dims %r, written %d elements" % (nm, out.get("dims"), len(want)))
        if out.get("layout") != ("chunked" if ds["chunk"] else "contiguous"):
            bad("layout", "%s: layout %r" % (nm, out.get("layout")))
        # library readers
        got_res = [bytes.fromhex(x) if isinstance(x, str) else x for x in out.get("resolved") or []]
        if got_res != want:
            i = next((i for i, (a, b) in enumerate(zip(got_res, want)) if a != b), min(len(got_res), len(want)))
            bad("element-mismatch", "%s: element %d resolved through the library's heap readers is %r, written %r (%d of %d resolved)" % (
                nm, i, (got_res[i].hex()[:80] if i < len(got_res) and isinstance(got_res[i], bytes) else (got_res[i] if i < len(got_res) else None)),
                want[i].hex()[:80] if i < len(want) else None, len(got_res), len(want)), index=i)
        # independent decode of the raw references
        raw = bytes.fromhex(out["raw_refs"])
        if len(raw) != 16 * len(want):
            bad("refs", "%s: %d bytes of references for %d elements" % (nm, len(raw), len(want)))
        for i in range(min(len(want), len(raw) // 16)):
            r = raw[16 * i:16 * i + 16]
            addr, idx, pad = int.from_bytes(r[0:8], "little"), int.from_bytes(r[8:12], "little"), r[12:16]
            referenced.add(addr)
            if pad != b"\0\0\0\0":
                bad("refs", "%s: element %d reference padding %s" % (nm, i, pad.hex()))
            if addr not in cols:
                bad("element-mismatch", "%s: element %d points at %d where no collection was found" % (nm, i, addr), index=i)
                break
            if cols[addr][1].get(idx) != want[i]:
                bad("element-mismatch", "%s: element %d (collection %d, object %d): independent decode gives %r, written %r" % (
                    nm, i, addr, idx, (cols[addr][1].get(idx) or b"").hex()[:80] if idx in cols[addr][1] else None, want[i].hex()[:80]), index=i)
                break
        # public read API: the written values or an error
        if "read_strings" in out:
            if ds["base"] != "string" or [bytes.fromhex(x) for x in out["read_strings"]] != want:
                bad("read-wrong-values", "%s: ReadStrings returned values that are not the written elements: %r" % (nm, out["read_strings"][:4]))
        else:
            facts["limit_no_read"] += 1
        if "read_f64bits" in out:
            bad("read-wrong-values", "%s: Read returned %d float64 values for variable-length data" % (nm, len(out["read_f64bits"])))
    for a in cols:
        if a not in referenced:
            bad("gcol-unreferenced", "collection at %d is not referenced by any element" % a)
    facts["referenced"] = referenced
    return P, facts


def harness_case(case, scratch):
    return dict(dir=scratch, sbver=case["sbver"],
                datasets=[dict(name=d["name"], base=d["base"], chunk=d["chunk"], elems=[elem_bytes(e).hex() for e in d["elems"]])
                          for d in case["datasets"]])


def case_summary(case):
    return dict(sbver=case["sbver"], datasets=[dict(name=d["name"], base=d["base"], chunk=d["chunk"], kind=d["kind"],
                                                    count=len(d["elems"]), lengths=[e[1] for e in d["elems"]][:40]) for d in case["datasets"]])


def replay_payload(case):
    return harness_case(case, "<scratch>")


def run(ctx):
    H, rng = ctx.harness, ctx.rng
    viol, known, samples = [], [], []
    try:   # deep recursion in coqc on long lists
        resource.setrlimit(resource.RLIMIT_STACK, (resource.RLIM_INFINITY, resource.RLIM_INFINITY))
    except Exception:
        pass
    params = source_params()
    if params is None:
        return dict(violations=[dict(what="global_heap_write.go: minCollectionSize / rounding rule no longer match the extraction pattern",
                                     nofail=True, correspondence="tools/props/c12.py source_params vs createNewHeap")],
                    known=[], coverage=dict(evaluations=0))
    minsz, blk = params
    scratch = vlib.scratch()
    if ctx.replay:
        rp = json.load(open(ctx.replay))
        det = rp.get("detail", {})
        hc = det.get("failing_input") or det.get("case")
        if not hc or "datasets" not in hc or any("elems" not in d for d in hc["datasets"]):
            raise RuntimeError("replay file carries only a case summary (no element bytes); re-run the check with the same VERIF_SEED")
        case = dict(sbver=hc.get("sbver", 2), datasets=[dict(name=d["name"], base=d["base"], chunk=d["chunk"], kind="replay",
                                                             elems=[(bytes.fromhex(e), len(e) // 2) for e in d["elems"]]) for d in hc["datasets"]])
        r = vlib.run_harness(H, "c12", [harness_case(case, scratch)])[0]
        probs, facts = check_case(case, r, params)
        print("implementation observables:")
        print(json.dumps({k: v for k, v in r.items() if k != "gcols"}, indent=1)[:4000])
        for g in r.get("gcols") or []:
            print("collection at %d, %d bytes: %s..." % (g["addr"], len(g["hex"]) // 2, g["hex"][:160]))
        print("specification verdict: %s" % ("VIOLATED" if probs else "holds"))
        for p_ in probs[:10]:
            print("  [%s] %s" % (p_["cls"], p_["msg"]))
        return dict(violations=[dict(what=p_["msg"], failing_input=harness_case(case, "<scratch>"), violation_class=p_["cls"]) for p_ in probs[:1]],
                    known=[], coverage=dict(evaluations=1, replayed=ctx.replay))
    cases = gen_cases(rng, ctx.tier, minsz)
    t0 = time.time()
    results = vlib.run_harness_parallel(H, "c12", [harness_case(c, scratch) for c in cases], workers=8)
    t_go = time.time() - t0
    kf = {k["id"]: k for k in vlib.known_findings("C12")}
    known_hits = Counter()
    # ---- specification checks + Coq case construction
    stats = dict(bases=Counter(), layouts=Counter(), sbver=Counter(), kinds=Counter(), counts=Counter(), lens=Counter(),
                 ncols=Counter(), conv=Counter(), tailfree=Counter(), elements=0, rollovers=0, big_collections=0)
    exact_defs, hash_defs, dt_defs = [], [], []
    exact_idx, hash_idx, dt_idx = [], [], []
    dt_seen, ncoq_wf = set(), 0
    budget = 50000 if ctx.tier != "thorough" else 1300000     # bytes of exact transport (0.1 ms per byte in coqc)
    hbudget = 1200000 if ctx.tier != "thorough" else 40000000  # bytes of checksummed comparison (5 us per byte)
    skipped_model = 0
    limit_no_read = 0
    nontrivial = set()
    spec_bad = set()
    spec_viol = []
    # transport budgets go first to the cases the byte-exact comparison cannot take (large collections, many
    # collections), then to the rest in generation order
    PRIO = dict(tiny=0, big=1, mixed=2, edge=3, fill=4, small=5)
    vol = [sum(len(g["hex"]) // 2 for g in (r.get("gcols") or [])) for r in results]
    hashed_set = set()
    for ci in sorted(range(len(cases)), key=lambda i: (PRIO[cases[i]["datasets"][0]["kind"]], len(cases[i]["datasets"]) == 1, i)):
        if vol[ci] <= hbudget and (sum(len(d["elems"]) for d in cases[ci]["datasets"]) > 300 or ci % 16 == 0):
            hbudget -= vol[ci]
            hashed_set.add(ci)
    for ci, (case, res) in enumerate(zip(cases, results)):
        probs, facts = check_case(case, res, params)
        for d in case["datasets"]:
            stats["bases"][d["base"]] += 1
            stats["layouts"]["chunked" if d["chunk"] else "contiguous"] += 1
            stats["kinds"][d["kind"]] += 1
            n = len(d["elems"])
            stats["counts"]["1" if n == 1 else "2-12" if n <= 12 else "13-255" if n <= 255 else "256-2999" if n < 3000 else ">=3000"] += 1
            stats["elements"] += n
            for _, l in d["elems"]:
                stats["lens"]["0" if l == 0 else "1-9" if l <= 9 else "10-255" if l < 256 else "256-4062" if l < 4063 else
                              "4063-4081" if l <= 4081 else "4082-65536" if l <= 65536 else ">65536"] += 1
        stats["sbver"][case["sbver"]] += 1
        for p in probs:
            # a listed, open finding turns the violation class into a KNOWN-FINDING
            fid = {"dt-d10": "C12-vlen-datatype-header"}.get(p["cls"])
            if fid and fid in kf:
                known_hits[fid] += 1
                continue
            spec_bad.add(ci)
            if len(spec_viol) < 2000:
                spec_viol.append(dict(what=p["msg"], case_bytes=sum(e[1] + 16 for d in case["datasets"] for e in d["elems"]), failing_input=harness_case(case, "<scratch>") if sum(len(d["elems"]) for d in case["datasets"]) <= 64 else case_summary(case),
                                 violation_class=p["cls"], impl={k: v for k, v in p.items() if k not in ("cls", "msg")}))
        if "cols" not in facts:
            continue
        limit_no_read += facts["limit_no_read"]
        cols = facts["cols"]
        stats["ncols"][min(len(cols), 50)] += 1
        stats["conv"].update(facts["conv"])
        stats["rollovers"] += max(0, len(cols) - 1)
        for a, (b, objs, info) in cols.items():
            stats["tailfree"]["0" if info["free"] == 0 else "8" if info["free"] == 8 else "16" if info["free"] == 16 else ">16"] += 1
            if len(b) > minsz:
                stats["big_collections"] += 1
        nontrivial.add((tuple((d["base"], bool(d["chunk"]), tuple(sorted(Counter(e[1] for e in d["elems"]).items()))) for d in case["datasets"]), len(cols)))
        if len(samples) < 4 or (len(cols) > 2 and len(samples) < 7):
            samples.append(dict(case=case_summary(case), collections=[(a, len(c[0]), c[2]["nobj"], c[2]["free"]) for a, c in sorted(cols.items())][:6]))
        # ---- model vs Go
        order = sorted(cols)
        if not order:
            continue
        # foreign allocation between the datasets: the one positive gap between consecutive collections
        gaps = [0] * len(case["datasets"])
        if len(case["datasets"]) == 2:
            for a, nxt in zip(order, order[1:]):
                if nxt - (a + len(cols[a][0])) > 0:
                    gaps[1] = nxt - (a + len(cols[a][0]))
        pool_s, hist_s, pool_bytes = coq_pool_and_hist(case, gaps)
        pool_index = {}
        for i_, pb in enumerate(pool_bytes):
            pool_index.setdefault(pb, i_)
        refs = b"".join(bytes.fromhex(o["raw_refs"]) for o in res["datasets"] if "raw_refs" in o)
        nel = sum(len(d["elems"]) for d in case["datasets"])
        volume = sum(len(cols[a][0]) for a in order)
        segd = [segments(cols[a][0], pool_index, pool_bytes) for a in order]
        cost = sum(c_ for _, c_ in segd) + len(refs)
        exact = cost <= 16000 and cost <= budget
        hashed = ci in hashed_set
        if exact:
            budget -= cost
        elif not hashed:
            skipped_model += 1
        if hashed:
            hash_defs.append("(%d,%d,%d,%s,%s,%d,%d,[%s],%s)" % (
                minsz, blk, order[0], pool_s, hist_s, nel, hash_bytes(refs),
                ";".join("(%d,%d,%d)" % (a, len(cols[a][0]), hash_bytes(cols[a][0])) for a in order),
                vlib.cbool(nel <= 12)))
            hash_idx.append(ci)
        if exact:
            colls_s = "[" + ";".join("(%d,%s)" % (a, sg) for a, (sg, _) in zip(order, segd)) + "]"
            exact_defs.append('(%d,%d,%d,%s,%s,"%s",%s,%s)' % (minsz, blk, order[0], pool_s, hist_s, refs.hex(), colls_s, vlib.cbool(nel <= 12)))
            pyc = 2
            for a in order:
                objs, info, pr = py_parse_gcol(cols[a][0])
                pyc = min(pyc, 0 if pr else (2 if info["conv"] in ("lib", None) else 1))
            exact_idx.append((ci, pyc))
            ncoq_wf += len(order)
        for d, o in zip(case["datasets"], res.get("datasets") or []):
            key = (BASES.index(d["base"]), o.get("dtmsg"))
            if o.get("dtmsg") and key not in dt_seen and len(dt_defs) < 200:
                dt_seen.add(key)
                dt_defs.append('(%d,"%s")' % key)
                dt_idx.append(ci)
    # the smallest failing inputs make the replay
    spec_viol.sort(key=lambda x: x["case_bytes"])
    viol += spec_viol[:5]
    # ---- Coq evaluation
    v = ["From HV Require Import Base.Prelude Model.GHeap Model.GHeapTie.\nOpen Scope string_scope.\n"]
    labels = []

    def emit(name, ty, defs, fun, chunk, codes=False):
        for k in range(0, len(defs), chunk):
            nm = "%s_%d" % (name, k)
            v.append("Definition %s : list (%s) := [%s].\n" % (nm, ty, ";\n".join(defs[k:k + chunk])))
            if codes:
                v.append("Definition res_%s := Eval vm_compute in map (%s) %s.\nPrint res_%s.\n" % (nm, fun, nm, nm))
            else:
                v.append("Definition res_%s := Eval vm_compute in mismatches (%s) %s.\nPrint res_%s.\n" % (nm, fun, nm, nm))
            labels.append(("res_" + nm, name, k))

    emit("exact", "N*N*N*list (string*N)*list hop*string*list (N*list seg)*bool", exact_defs,
         "fun '(a,b,c,d,e,f,g,h) => tie_exact a b c d e f g h", 40, codes=True)
    emit("hashed", "N*N*N*list (string*N)*list hop*N*N*list (N*N*N)*bool", hash_defs,
         "fun '(a,b,c,d,e,f,g,h,i) => tie_hash a b c d e f g h i", 40, codes=True)
    emit("dtrec", "N*string", dt_defs, "dt_ok", 400)
    emit("dtmodel", "N*string", dt_defs, "dt_model_eq", 400)
    if os.environ.get("C12_KEEP_V"):
        open(os.environ["C12_KEEP_V"], "w").write("".join(v))
    t1 = time.time()
    out = vlib.coq_eval("".join(v), "c12cases", timeout=3000)
    t_coq = time.time() - t1
    BITS = {1: "reference bytes differ", 2: "collection bytes differ", 4: "model reader does not resolve on the model's file",
            8: "model reader does not resolve on Go's bytes / model bytes not well-formed", 16: "writer model failed"}
    model_bad = []          # (kind, case index, detail)
    for lab, name, k in labels:
        vals = vlib.parse_nlist(out, lab)
        if name in ("dtrec", "dtmodel"):
            model_bad += [(name, dt_idx[k + i], "") for i in vals]
            continue
        for i, code in enumerate(vals):
            if name == "exact":
                ci, pyc = exact_idx[k + i]
                cq = code // 32
                if cq != pyc and len([x for x in viol if x.get("violation_class") == "wf-oracles-disagree"]) < 2:
                    viol.append(dict(what="Coq wf_gcol classifies the collections of this file %d, the Python decoder %d (0 malformed, 1 HDF5 free-space convention, 2 library convention)" % (cq, pyc),
                                     failing_input=harness_case(cases[ci], "<scratch>"), violation_class="wf-oracles-disagree", nofail=(cq != 0 and pyc != 0)))
                code %= 32
            else:
                ci = hash_idx[k + i]
            if code:
                model_bad.append((name, ci, "; ".join(t for b_, t in BITS.items() if code & b_)))
    seen = set()
    for name, ci, detail in model_bad:
        if ci in seen:
            continue
        seen.add(ci)
        if name == "dtrec":
            if ci in spec_bad or known_hits:
                continue            # already reported by the Python oracle (or listed)
            viol.append(dict(what="datatype message not recognised as variable-length of the written base type by the model's ParseDatatypeMessage (vlen_recognised)",
                             failing_input=harness_case(cases[ci], "<scratch>"), violation_class="dt-not-recognised"))
            continue
        if ci in spec_bad:
            continue                # the specification verdict already stands for this case
        if known_hits and name == "dtmodel":
            continue
        if len([x for x in viol if x.get("nofail")]) >= 3:
            continue
        small = sum(len(d["elems"]) for d in cases[ci]["datasets"]) <= 64
        viol.append(dict(what="implementation and Coq model disagree (%s%s) on a case whose observables satisfy the specification" % (name, ": " + detail if detail else ""),
                         case=harness_case(cases[ci], "<scratch>") if small else case_summary(cases[ci]),
                         nofail=True, correspondence="Model/GHeapTie.%s (Model/GHeap.v run_close/encode_collection/enc_vlen) vs global_heap_write.go, messages_write.go; theorems C12_roundtrip, C12_wellformed" % (
                             {"exact": "tie_exact", "hashed": "tie_hash", "dtmodel": "dt_model_eq"}[name])))
    # ---- findings
    for fid, n in known_hits.items():
        known.append("%s: %d vlen datasets reopened as 'integer (size=16 bytes)' (class/version nibbles swapped in the datatype message; %s)" % (fid, n, kf[fid].get("coq", "")))
    no_read_id = "C12-no-dataset-level-vlen-read"
    if limit_no_read and no_read_id in kf:
        known.append("%s: ReadStrings returned an error for %d of %d vlen datasets (no dataset-level read path for variable-length data; elements are "
                     "reachable only through the internal heap readers) - never wrong values" % (no_read_id, limit_no_read, sum(len(c["datasets"]) for c in cases)))
    cov = dict(
        evaluations=len(cases),
        distinct_nontrivial=len(nontrivial),
        rule="one evaluation = one file written through the public API (1-2 vlen datasets), closed, reopened, every element resolved and every GCOL "
             "collection decoded; distinct/non-trivial = distinct (base type, layout, multiset of element lengths, number of collections) tuples",
        samples=samples,
        elements_written=stats["elements"], roll_overs=stats["rollovers"], collections_larger_than_minimum=stats["big_collections"],
        base_types=dict(stats["bases"]), layouts=dict(stats["layouts"]), superblock_versions={str(k): n for k, n in stats["sbver"].items()},
        generator_kinds=dict(stats["kinds"]), element_count_histogram=dict(stats["counts"]), element_length_histogram=dict(stats["lens"]),
        collections_per_file={str(k): n for k, n in sorted(stats["ncols"].items())},
        free_tail_bytes_classes=dict(stats["tailfree"]),
        free_space_size_convention={str(k): n for k, n in stats["conv"].items()},
        params_from_source=dict(minCollectionSize=minsz, rounding=blk),
        model_cases_exact=len(exact_defs), model_cases_hashed=len(hash_defs), coq_wf_gcol_collections=ncoq_wf,
        datatype_messages_checked_in_coq=len(dt_defs),
        datasets_without_read_path=limit_no_read, cases_without_model_comparison_over_budget=skipped_model,
        reference_layout="8-byte collection address, 4-byte object index, 4 zero bytes (HDF5 puts a 4-byte length first: D16/C05, not gated here)",
        programs=len(cases), disagreements_checked=len(exact_defs) + len(hash_defs) + 2 * len(dt_defs) + ncoq_wf,
        seconds=dict(go=round(t_go, 1), coq=round(t_coq, 1)),
    )
    # ---- whole-file tie of the end-to-end theorems (Props/C12File.v): Model/FileImageVlen.v image_v2_vlen vs the library's file
    from props import c12file
    fu = c12file.run_unit(ctx)
    viol += fu.pop("violations")
    cov["file_image_tie"] = {k: v for k, v in fu.items() if k != "known"}
    cov["evaluations"] += fu["evaluations"]
    cov["side_obligations"] = 1
    cov["side_discharged"] = 0 if any(v.get("what", "").startswith("c12file") for v in viol) else 1
    return dict(violations=viol, known=known, coverage=cov)
