#!/usr/bin/env python3
"""One-off tie for the two repairs proposed by the C06 reader-against-specification work
(notes/fixes/c06-superblock-sizes.patch, notes/fixes/c06-attribute-v2-padding.patch,
notes/fixes/c06-pipeline-v2-filter-name.patch).

NOT part of `check.py C06`: it needs a repository with the patches applied.

    cp -r /repo build/repo-fixed && git -C build/repo-fixed apply notes/fixes/c06-superblock-sizes.patch \
        notes/fixes/c06-attribute-v2-padding.patch notes/fixes/c06-pipeline-v2-filter-name.patch
    VERIF_REPO=$PWD/build/repo-fixed python3 tools/props/c06repaired.py [n]

It runs core.ReadSuperblock / core.ParseAttributeMessage / core.ParseFilterPipelineMessage of THAT repository (harness c11, raw mode) on specification
superblocks of every size combination, version 1-3 attribute messages, and byte-level mutations / truncations of them, and
compares class (ok / error / panic) and every returned field with the repaired-reader transcriptions
Model/CodecSuperRepaired.v dec_superblock_gen true, Model/CodecAttrRepaired.v dec_attribute_gen false and
Model/CodecFilterRepaired.v dec_pipeline_gen true, evaluated in Coq.
Exit 0 = the transcriptions agree with the patched code on every case.
"""
import os, random, sys
sys.path.insert(0, os.path.join(os.path.dirname(os.path.abspath(__file__)), ".."))
import vlib, h5spec
from props import c11

SIG = bytes([137, 72, 68, 70, 13, 10, 26, 10])


def le(n, x):
    return (x % (1 << (8 * n))).to_bytes(n, "little") if n else b""


def sb2(v, o, l, eof, root, n=None):
    b = SIG + bytes([v, o, l, 0]) + le(o, 0) + le(o, (1 << (8 * o)) - 1 if o else 0) + le(o, eof) + le(o, root)
    return b + le(4, h5spec.lookup3(b)) + bytes(64)


def sb0(o, l, eof, root, bt, hp):
    und = (1 << (8 * o)) - 1 if o else 0
    return (SIG + bytes([0, 0, 0, 0, 0, o, l, 0]) + le(2, 4) + le(2, 16) + le(4, 0) + le(o, 0) + le(o, und) + le(o, eof) + le(o, und)
            + le(o, 0) + le(o, root) + le(4, 1) + le(4, 0) + le(o, bt) + le(o, hp) + bytes(max(0, 16 - 2 * o)) + bytes(64))


def attr(ver, name, dt, ds, data, pad1=True):
    r8 = (lambda b: b + bytes(-len(b) % 8)) if ver == 1 else (lambda b: b)
    nm = name + b"\0"
    hdr = bytes([ver, 0]) + le(2, len(nm)) + le(2, len(dt)) + le(2, len(ds)) + (b"\0" if ver >= 3 else b"")
    return hdr + r8(nm) + r8(dt) + r8(ds) + data


def main():
    n = int(sys.argv[1]) if len(sys.argv) > 1 else 1200
    rng = random.Random(6)
    H = vlib.build_harness()
    sbs, ats, pls = [], [], []

    def filt(v1, fid, name, flags, cd, ver):
        nm = name + bytes(-len(name) % 8) if v1 else name
        b = le(2, fid) + (le(2, len(name)) if (v1 or fid >= 256) else b"") + le(2, flags) + le(2, len(cd)) + nm + b"".join(le(4, c) for c in cd)
        if ver == 1 and len(cd) % 2:
            b += bytes(4)
        return b
    for ver, v1 in ((1, True), (2, False), (2, True)):
        for fl in ([(2, b"", 0, [4])], [(1, b"", 1, [6])], [(32000, b"lzf\0", 0, [5])], [(307, b"bzip2\0", 1, [9, 1])],
                   [(2, b"", 0, [4]), (32000, b"lzf\0", 0, [])], [(32000, b"lzf\0", 0, [1, 2, 3]), (1, b"", 0, [6])],
                   [(3, b"", 0, [])], [(257, b"", 0, [7])]):
            pls.append(bytes([ver, len(fl)]) + (bytes(6) if v1 else b"") + b"".join(filt(v1, *f, ver) for f in fl))
    for v in (2, 3):
        for o in (1, 2, 4, 8, 0, 3, 16):
            for l in (1, 2, 4, 8, 0, 3):
                sbs.append(sb2(v, o, l, 2048, 48))
    for o in (1, 2, 4, 8):
        for l in (2, 4, 8):
            sbs.append(sb0(o, l, 2048, 96, 136, 680))
    sbs += [s[:k] for s in list(sbs) for k in (40, 47, 48, 60, 95, 96, 100)]
    dt = bytes([0x10, 0, 0, 0, 1, 0, 0, 0, 0, 0, 8, 0])
    for ver in (0, 1, 2, 3, 4):
        for name in (b"a", b"abc", b"abcdefg", b"abcdefgh"):
            for ds, nel in ((bytes([2, 1, 0, 1]) + le(4, 3), 3), (bytes([1, 1, 0, 0, 0, 0, 0, 0]) + le(8, 2), 2), (bytes([2, 0, 0, 0]), 1)):
                ats.append(attr(ver, name, dt, ds, bytes(range(1, nel + 1))))
    base_sb, base_at, base_pl = list(sbs), list(ats), list(pls)
    while len(sbs) + len(ats) + len(pls) < n:
        b = rng.choice(base_pl)
        pls += [bytes.fromhex(h) for _, h in c11.mutations(rng, b.hex(), 1, 3)]
        b = rng.choice(base_sb)
        sbs += [bytes.fromhex(h) for _, h in c11.mutations(rng, b.hex(), 1, 3, focus=8)]
        b = rng.choice(base_at)
        ats += [bytes.fromhex(h) for _, h in c11.mutations(rng, b.hex(), 1, 3)]
    cases = [dict(kind="superblock", raw=b.hex()) for b in sbs] + \
            [dict(kind="attribute", raw=b.hex(), sb=dict(v=2, o=8, l=8, be=False)) for b in ats] + \
            [dict(kind="filterpipe", raw=b.hex()) for b in pls]
    res = vlib.run_harness(H, "c11", cases)
    v = ["From HV Require Import Base.Prelude Base.Outcome Base.Bytes Model.CodecMsg Model.CodecType Model.CodecAttr Model.CodecSuper "
         "Model.CodecAttrRepaired Model.CodecSuperRepaired Model.CodecFilter Model.CodecFilterRepaired.\n"
         "Definition pl_ok (c : bytes * val) : bool := val_eqb (oval val_pipeline' (dec_pipeline_gen true (fst c))) (snd c).\n"
         "Definition sb_ok (c : bytes * val) : bool := val_eqb (oval val_superblock' (dec_superblock_gen true (fst c))) (snd c).\n"
         "Definition at_ok (c : bytes * val) : bool := val_eqb (oval val_attribute' (dec_attribute_gen false false (fst c))) (snd c).\n"]
    ns, na = len(sbs), len(sbs) + len(ats)
    for name, pred, lo, hi in (("s", "sb_ok", 0, ns), ("a", "at_ok", ns, na), ("p", "pl_ok", na, len(cases))):
        for j in range(lo, hi, 1000):
            items = ["(%s, %s)" % (c11.cbytes(cases[i]["raw"]), c11.cval(c11.goval(res[i]["raw"]))) for i in range(j, min(j + 1000, hi))]
            v.append("Definition %s_%d : list (bytes * val) := [%s].\n" % (name, j, ";\n".join(items)))
            v.append("Definition r%s_%d := Eval vm_compute in mismatches %s %s_%d.\nPrint r%s_%d.\n" % (name, j, pred, name, j, name, j))
    out = vlib.coq_eval("".join(v), "c06repaired")
    bad = []
    for name, lo, hi in (("s", 0, ns), ("a", ns, na), ("p", na, len(cases))):
        for j in range(lo, hi, 1000):
            bad += [j + k for k in vlib.parse_nlist(out, "r%s_%d" % (name, j))]
    cls = {}
    for r in res:
        cls[r["raw"]["c"]] = cls.get(r["raw"]["c"], 0) + 1
    print("cases: %d superblocks, %d attribute messages, %d filter pipeline messages; implementation outcomes %s" % (ns, na - ns, len(cases) - na, cls))
    for i in bad[:10]:
        print("MISMATCH", cases[i]["kind"], cases[i]["raw"], res[i]["raw"])
    print("mismatches: %d" % len(bad))
    vlib.cleanup()
    sys.exit(1 if bad else 0)


if __name__ == "__main__":
    main()
