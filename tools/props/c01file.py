"""C01, whole-file tie of the END-TO-END theorem (coq/theories/Props/C01File.v): the byte image `image_v2 name dtype dims data`
(coq/theories/Model/FileImage.v), assembled from the C11 encoder models at the addresses of the writer's allocator, against the
COMPLETE file written by the library with

    fw := CreateForWrite(f, CreateTruncate, WithSuperblockVersion(2)); ds := fw.CreateDataset("/"+name, dtype, dims);
    ds.Write(data); fw.Close()

byte for byte (harness subcommand c01file; Coq evaluates `image_case_ok` by vm_compute, the file travels as hex in 1500-byte
pieces).  Independent of the model, Python checks on the library's file what the theorem concludes about the image: the data sits
at 2195, the name NUL-terminated at 80, the file ends at the superblock's end-of-file address.
Generated: names of 1..255 bytes without NUL and '/', every basic registry datatype (int8..uint64, float32, float64), rank 1..3
(and a few up to 24, the largest the 255-byte header chunk holds), random data."""
import concurrent.futures as cf, os, struct, time
import vlib

DTYPES = ["int8", "int16", "int32", "int64", "uint8", "uint16", "uint32", "uint64", "float32", "float64"]
ESZ = {"int8": 1, "int16": 2, "int32": 4, "int64": 8, "uint8": 1, "uint16": 2, "uint32": 4, "uint64": 8, "float32": 4, "float64": 8}
CORR = ("Model.FileImage.image_v2 (superblock, local heap, symbol table node, group B-tree node, root object header, data, dataset "
        "object header in its reserved block) vs the whole file written by CreateForWrite/CreateDataset/Write/Close")
HEADER = "From HV Require Import Base.Prelude Model.FileImage Model.FileImageChunked.\n"
DATA_ADDR = 2195


def rand_name(rng):
    n = rng.choice([1, 1, 2, 3, 5, 8, 13, rng.randint(1, 40), rng.choice([100, 200, 254, 255]) if rng.random() < 0.15 else 4])
    pool = rng.choice([b"abcdefghijklmnopqrstuvwxyz_0123456789", bytes(b for b in range(1, 256) if b != 47)])
    return bytes(rng.choice(pool) for _ in range(n))


def rand_dims(rng):
    r = rng.random()
    if r < 0.04:
        rank = rng.choice([4, 8, 23, 24])
        return [rng.choice([1, 1, 1, 2]) for _ in range(rank)]
    rank = rng.choice([1, 1, 2, 2, 3])
    return [rng.choice([1, 2, 3, 4, 5, 7, 8, 13, 16, 17]) for _ in range(rank)] if rank < 3 else [rng.choice([1, 2, 3, 4, 5]) for _ in range(3)]


def gen_cases(rng, n):
    cases = [dict(name=b"d", dtype="uint8", dims=[3], data=bytes([1, 2, 3])),
             dict(name=b"x" * 255, dtype="float64", dims=[1], data=struct.pack("<d", 1.5)),
             dict(name=bytes([255, 1, 128]), dtype="int64", dims=[2, 1, 2], data=bytes(range(32)))]
    for dt in DTYPES:
        cases.append(dict(name=b"t_" + dt.encode(), dtype=dt, dims=[2, 3], data=bytes(rng.getrandbits(8) for _ in range(6 * ESZ[dt]))))
    while len(cases) < n:
        dt = rng.choice(DTYPES)
        dims = rand_dims(rng)
        tot = 1
        for d in dims:
            tot *= d
        cases.append(dict(name=rand_name(rng), dtype=dt, dims=dims, data=bytes(rng.getrandbits(8) for _ in range(tot * ESZ[dt]))))
    return cases


def lit(b):
    return "[" + "; ".join('"%s"%%string' % b[i:i + 1500].hex() for i in range(0, max(len(b), 1), 1500)) + "]"


def _eval_chunk(args):
    k, cases, files = args
    if True:
        v = [HEADER]
        terms = []
        for c, f in zip(cases, files):
            terms.append("(%s, %d, %s, %s, %s)" % (lit(c["name"]), DTYPES.index(c["dtype"]), vlib.cNlist(c["dims"]), lit(c["data"]), lit(f)))
        v.append("Definition cs : list (list string * N * list N * list string * list string) := [\n%s].\n" % ";\n".join(terms))
        v.append("Definition bad := Eval vm_compute in mismatches image_case_ok cs.\nPrint bad.\n")
        out = vlib.coq_eval("".join(v), "c01file_%d" % k)
        return [k + i for i in vlib.parse_nlist(out, "bad")]


def coq_bad(cases, files, chunk=12, workers=10):
    parts = [(k, cases[k:k + chunk], files[k:k + chunk]) for k in range(0, len(cases), chunk)]
    with cf.ThreadPoolExecutor(max_workers=workers) as ex:
        return sorted(i for r in ex.map(_eval_chunk, parts) for i in r)


def py_spec(c, f):
    """what the end-to-end theorem concludes, checked on the library's own file without the model"""
    probs = []
    n = len(c["data"])
    if f[DATA_ADDR:DATA_ADDR + n] != c["data"]:
        probs.append("the written data is not at address %d" % DATA_ADDR)
    if f[80:80 + len(c["name"]) + 1] != c["name"] + b"\0":
        probs.append("the link name is not at the start of the root group's heap segment (80)")
    eof = struct.unpack_from("<Q", f, 28)[0]
    if eof != len(f):
        probs.append("superblock end-of-file address %d, file length %d" % (eof, len(f)))
    if f[DATA_ADDR + n:DATA_ADDR + n + 4] != b"OHDR":
        probs.append("no object header behind the data")
    return probs


# ----------------------------------------------------------------------------- chunked datasets (Model/FileImageChunked.v)
CORR_CHUNKED = ("Model.FileImageChunked.image_v2_chunked (the five root blocks, the dataset header with the chunked layout message "
                "and the patched B-tree address, the padded chunks in linear order, the version 1 B-tree leaf) vs the whole file "
                "written by CreateForWrite/CreateDataset(WithChunkDims)/Write/Close")
CHDR_ADDR, CHUNKS_ADDR = 2195, 2457


def gen_chunked(rng, n):
    cases = [dict(name=b"d", dtype="uint8", dims=[3], cdims=[2], data=bytes([1, 2, 3])),
             dict(name=b"c", dtype="int32", dims=[4, 6], cdims=[2, 3], data=bytes(range(96))),
             dict(name=b"edge", dtype="uint16", dims=[5, 7], cdims=[2, 3], data=bytes(i % 251 for i in range(70))),
             dict(name=b"one", dtype="float64", dims=[2, 2], cdims=[2, 2], data=bytes(range(32))),
             dict(name=b"r3", dtype="int8", dims=[3, 2, 3], cdims=[2, 1, 2], data=bytes(range(18))),
             dict(name=b"r17", dtype="float64", dims=[1] * 16 + [3], cdims=[1] * 16 + [2], data=bytes(range(24)))]
    while len(cases) < n:
        dt = rng.choice(DTYPES)
        if rng.random() < 0.06:
            rank = rng.choice([4, 6, 15])
            dims = [rng.choice([1, 1, 2]) for _ in range(rank)]
        else:
            rank = rng.choice([1, 1, 2, 2, 3])
            dims = [rng.choice([1, 2, 3, 4, 5, 7, 8, 9]) for _ in range(rank)] if rank < 3 else [rng.choice([1, 2, 3, 4]) for _ in range(3)]
        cdims = [rng.randint(1, d) for d in dims]
        tot = 1
        for d in dims:
            tot *= d
        cases.append(dict(name=rand_name(rng), dtype=dt, dims=dims, cdims=cdims, data=bytes(rng.getrandbits(8) for _ in range(tot * ESZ[dt]))))
    return cases


def _eval_chunked(args):
    k, cases, files = args
    terms = []
    for c, f in zip(cases, files):
        terms.append("(%s, %d, %s, %s, %s, %s)" % (lit(c["name"]), DTYPES.index(c["dtype"]), vlib.cNlist(c["dims"]), vlib.cNlist(c["cdims"]),
                                                   lit(c["data"]), lit(f)))
    v = [HEADER, "Definition cs : list (list string * N * list N * list N * list string * list string) := [\n%s].\n" % ";\n".join(terms),
         "Definition bad := Eval vm_compute in mismatches image_chunked_case_ok cs.\nPrint bad.\n"]
    out = vlib.coq_eval("".join(v), "c01filec_%d" % k)
    return [k + i for i in vlib.parse_nlist(out, "bad")]


def py_chunked_oracle(c, f):
    """independent of the model: read the library's file back with a few lines of Python (header at 2195, layout message ->
    B-tree leaf -> chunks) and scatter the chunks; must give the written data"""
    probs = []
    esz, dims, cd = ESZ[c["dtype"]], c["dims"], c["cdims"]
    if f[CHDR_ADDR:CHDR_ADDR + 4] != b"OHDR":
        return ["no object header at %d" % CHDR_ADDR]
    eof = struct.unpack_from("<Q", f, 28)[0]
    if eof != len(f):
        probs.append("superblock end-of-file address %d, file length %d" % (eof, len(f)))
    # messages of the v2 header: type(1) size(2) flags(1) data
    pos, end, bt, lcd = CHDR_ADDR + 7, CHDR_ADDR + 7 + f[CHDR_ADDR + 6], None, None
    while pos + 4 <= end:
        ty, sz = f[pos], struct.unpack_from("<H", f, pos + 1)[0]
        body = f[pos + 4:pos + 4 + sz]
        if ty == 8 and body[:2] == bytes([3, 2]):
            r = body[2]
            bt = struct.unpack_from("<Q", body, 3)[0]
            lcd = list(struct.unpack_from("<%dI" % r, body, 11))
        pos += 4 + sz
    if bt is None:
        return probs + ["no chunked layout message in the dataset header"]
    if lcd != cd:
        probs.append("layout message chunk extents %s, given %s" % (lcd, cd))
    if f[bt:bt + 4] != b"TREE" or f[bt + 4] != 1 or f[bt + 5] != 0:
        return probs + ["no chunk B-tree leaf at the layout message's address %d" % bt]
    n = struct.unpack_from("<H", f, bt + 6)[0]
    rank = len(dims)
    ks = 8 + 8 * rank
    out = bytearray(len(c["data"]))
    csz = esz
    for x in cd:
        csz *= x
    p = bt + 24
    for _ in range(n):
        nb = struct.unpack_from("<I", f, p)[0]
        off = struct.unpack_from("<%dQ" % rank, f, p + 8)
        addr = struct.unpack_from("<Q", f, p + ks)[0]
        p += ks + 8
        if nb != csz:
            probs.append("chunk of %d bytes, expected the full chunk size %d" % (nb, csz))
            break
        chunk = f[addr:addr + nb]
        # scatter
        def rec(dim, coff, doff):
            if dim == rank:
                out[doff * esz:(doff + 1) * esz] = chunk[coff * esz:(coff + 1) * esz]
                return
            for i in range(cd[dim]):
                if off[dim] + i < dims[dim]:
                    rec(dim + 1, coff * cd[dim] + i, doff * dims[dim] + off[dim] + i)
        rec(0, 0, 0)
    if not probs and bytes(out) != c["data"]:
        probs.append("the chunks found through the dataset header's B-tree do not assemble to the written data")
    return probs


def run_chunked(ctx, n, builddir):
    H, rng = ctx.harness, ctx.rng
    cases = gen_chunked(rng, n)
    wire = [dict(sb=2, name=c["name"].hex(), dtype=c["dtype"], dims=c["dims"], chunk=c["cdims"], data=c["data"].hex(), dir=builddir) for c in cases]
    res = vlib.run_harness(H, "c01file", wire)
    viol, kept, files = [], [], []
    for c, w, r in zip(cases, wire, res):
        w = {k: v for k, v in w.items() if k != "dir"}
        if not r.get("ok"):
            viol.append(dict(what="c01file(chunked): the library refused or failed an admissible create/write/close: %s" % str(r)[:300], failing_input=w, impl=r))
            continue
        f = bytes.fromhex(r["file"])
        probs = py_chunked_oracle(c, f)
        if probs:
            viol.append(dict(what="c01file(chunked): " + probs[0], failing_input=w, impl=dict(file=r["file"][:6000]), problems=probs))
            continue
        kept.append((c, w))
        files.append(f)
    ck = [c for c, _ in kept]
    parts = [(k, ck[k:k + 12], files[k:k + 12]) for k in range(0, len(ck), 12)]
    with cf.ThreadPoolExecutor(max_workers=10) as ex:
        bad = sorted(i for r in ex.map(_eval_chunked, parts) for i in r)
    for i in bad:
        c, w = kept[i]
        viol.append(dict(what="c01file(chunked): the file written by the library differs from Model.FileImageChunked.image_v2_chunked", case=w,
                         impl=dict(file=files[i].hex()), nofail=True, correspondence=CORR_CHUNKED))
    distinct = {(c["name"], c["dtype"], tuple(c["dims"]), tuple(c["cdims"]), c["data"]) for c, _ in kept}
    partial = sum(1 for c, _ in kept if any(d % x for d, x in zip(c["dims"], c["cdims"])))
    samples = [dict(case=dict(w, data=w["data"][:64]), file_len=len(f)) for (c, w), f in list(zip(kept, files))[:2]]
    return dict(violations=viol, evaluations=len(cases), distinct=len(distinct), samples=samples, partial_edge=partial,
                ranks=sorted({len(c["dims"]) for c in cases}))


def run_unit(ctx, n=None):
    H, rng = ctx.harness, ctx.rng
    n = n or (400 if ctx.tier == "thorough" else 120)
    builddir = os.path.join(vlib.BUILD, "scratch")
    os.makedirs(builddir, exist_ok=True)
    t0 = time.time()
    cases = gen_cases(rng, n)
    wire = [dict(sb=2, name=c["name"].hex(), dtype=c["dtype"], dims=c["dims"], data=c["data"].hex(), dir=builddir) for c in cases]
    res = vlib.run_harness(H, "c01file", wire)
    viol, kept, files, samples = [], [], [], []
    for c, w, r in zip(cases, wire, res):
        w = {k: v for k, v in w.items() if k != "dir"}
        if not r.get("ok"):
            viol.append(dict(what="c01file: the library refused or failed an admissible create/write/close: %s" % str(r)[:300], failing_input=w, impl=r))
            continue
        f = bytes.fromhex(r["file"])
        probs = py_spec(c, f)
        if probs:
            viol.append(dict(what="c01file: " + probs[0], failing_input=w, impl=dict(file=r["file"][:6000]), problems=probs))
            continue
        kept.append((c, w))
        files.append(f)
    bad = coq_bad([c for c, _ in kept], files) if kept else []
    for i in bad:
        c, w = kept[i]
        viol.append(dict(what="c01file: the file written by the library differs from Model.FileImage.image_v2", case=w,
                         impl=dict(file=files[i].hex()), nofail=True, correspondence=CORR))
    for (c, w), f in list(zip(kept, files))[:2]:
        samples.append(dict(case=dict(w, data=w["data"][:64]), file_len=len(f)))
    distinct = {(c["name"], c["dtype"], tuple(c["dims"]), c["data"]) for c, _ in kept}
    ch = run_chunked(ctx, 150 if ctx.tier == "thorough" else 48, builddir)
    viol += ch.pop("violations")
    return dict(violations=viol, known=[], evaluations=len(cases) + ch["evaluations"], distinct=len(distinct) + ch["distinct"], samples=samples + ch["samples"],
                chunked=dict(evaluations=ch["evaluations"], distinct=ch["distinct"], with_partial_edge_chunks=ch["partial_edge"], ranks=ch["ranks"]),
                rule="whole file compared byte for byte with image_v2 / image_v2_chunked; distinct = distinct (name, dtype, dims[, chunk dims], data)",
                dtypes=sorted({c["dtype"] for c in cases}), ranks=sorted({len(c["dims"]) for c in cases}),
                name_lengths=sorted({len(c["name"]) for c in cases})[:40], wall=round(time.time() - t0, 1))
