"""C09 - Partial reads (ReadSlice / ReadHyperslab / ChunkIterator) agree with the full read.

Tie.  For every generated dataset (created through the public API with element i = i, closed,
reopened with hdf5.Open; plus compact / reference-library chunked datasets from /repo/testdata)
the Go harness performs the full Read once and every selection on the same open file.  Gates:
  (1) Go result == independent Python oracle: select(full Read, coordinates of the selection in
      row-major order of the selection); error iff the selection is invalid (any parameter zero,
      wrong rank, or leaving the dataset - decided over unbounded integers);
  (2) Go result == Coq model (Model/Hyperslab.v evaluated by coqc/vm_compute) and the Coq
      specification `spec_call` on the same observation;
  (3) chunk iterator: every chunk of the grid visited exactly once, every piece == oracle
      selection of the chunk box, == Coq model `chunk_iterator`.
Generation: complete enumeration of all selections over small extents (quick: every extent <= 4,
rank <= 2; thorough: <= 5, rank <= 3), contiguous and chunked with every chunk shape (so several
chunks per dimension and partial edge chunks), every out-of-range neighbour in rank 1, plus
random larger datasets of rank 1..4 (filters, four datatypes) with strided/blocked, single-element,
full-extent, last-element, out-of-bounds, wrong-rank and uint64-overflowing requests.
"""
import itertools, json, os, re, time, collections
import vlib

TRUSTED = ["C09: chunk store of the model = format layout (full chunk_dims blocks, fill value 0); B-tree traversal, "
           "filter pipeline and datatype conversion are not modelled (they are exercised by the tie through Dataset.Read)",
           "C09: extraction paths are modelled over unbounded N (dataset element count * element size < 2^64); "
           "uint64 wrap-around is modelled in the validation code only"]
ASSUMPTIONS = ["every selection parameter and extent is a uint64 (Go typing)",
               "the number of blocks of a selection is at most utils.MaxHyperslabElements = 10^9 (documented limit; larger valid selections are rejected)"]

M64 = 2 ** 64 - 1
LIMIT = 10 ** 9
OVERFLOW_POOL = [M64, M64 - 1, 2 ** 63, 2 ** 63 + 1, 2 ** 32, 2 ** 64 - 5]

# ------------------------------------------------------------------ independent oracle

def fill(sel, rank):
    """-> (start,count,stride,block) with defaults, or None when a length is wrong."""
    st = sel["stride"] if sel["stride"] is not None else [1] * rank
    bl = sel["block"] if sel["block"] is not None else [1] * rank
    if not (len(sel["start"]) == len(sel["count"]) == len(st) == len(bl) == rank):
        return None
    return sel["start"], sel["count"], st, bl


def hyperslab_valid(sel, dims):
    f = fill(sel, len(dims))
    if f is None or len(dims) == 0:
        return False
    for s, c, st, b, d in zip(*f, dims):
        if c <= 0 or st <= 0 or b <= 0 or s + (c - 1) * st + b > d:
            return False
    return True


def slice_valid(sel, dims):
    if len(sel["start"]) != len(dims) or len(sel["count"]) != len(dims):
        return False
    return all(s + c <= d for s, c, d in zip(sel["start"], sel["count"], dims))


def lin(dims, x):
    o = 0
    for d, xi in zip(dims, x):
        o = o * d + xi
    return o


def sel_axes(sel, rank):
    if sel["api"] == "slice":
        return list(zip(sel["start"], sel["count"], [1] * rank, [1] * rank))
    return list(zip(*fill(sel, rank)))


def oracle(full, dims, sel):
    """Expected observable: list of values, or 'err'."""
    ok = slice_valid(sel, dims) if sel["api"] == "slice" else hyperslab_valid(sel, dims)
    if not ok:
        return "err"
    axes = sel_axes(sel, len(dims))
    if sel["api"] != "slice":
        p = 1
        for a in axes:
            p *= a[1]
        if p > LIMIT:
            return "err"
    per = [[s + i * st + j for i in range(c) for j in range(b)] for s, c, st, b in axes]
    return [full[lin(dims, x)] for x in itertools.product(*per)]


# ------------------------------------------------------------------ classification (evidence, D9 labels)

def new_contig(axes, dims):
    full = True
    for (s, c, st, b), d in zip(reversed(axes), reversed(dims)):
        if not full:
            if c != 1 or b != 1:
                return False
            continue
        if c != 1 and st != b:
            return False
        if s != 0 or c * b != d:
            full = False
    return True


def old_contig(axes, dims):
    s, c, st, b = axes[-1]
    return st == 1 and b == 1 and c * b == dims[-1]


def chunk_spans(axes, cdims, dims):
    out = []
    for (s, c, st, b), cd, d in zip(axes, cdims, dims):
        e = min(s + (c - 1) * st + b - 1, d - 1)
        out.append(e // cd - s // cd + 1)
    return out


def path_of(ds, sel):
    """Which branch of the (repaired) dispatcher a VALID selection takes."""
    dims = ds["dims"]
    axes = sel_axes(sel, len(dims))
    if any(a[1] == 0 for a in axes):
        return "empty"
    if ds["layout"] == "compact":
        return "compact-recursive"
    if ds["layout"] == "contiguous":
        if new_contig(axes, dims):
            return "contiguous-single-read"
        return "contiguous-2d-elementwise" if len(dims) == 2 else "contiguous-selection-run"
    sp = chunk_spans(axes, ds["chunk"], dims)
    n = 1
    for x in sp:
        n *= x
    if n == 1:
        return "chunked-1-chunk"
    return "chunked-multi-dim" if sum(1 for x in sp if x > 1) > 1 else "chunked-multi-1-dim"


def d9_class(ds, sel, invalid=False):
    """Selection-shape predicates = dispatch conditions of the code BEFORE the repairs (D9)."""
    dims = ds["dims"]
    vals = sel["start"] + sel["count"] + (sel["stride"] or []) + (sel["block"] or [])
    if invalid:
        return "C09-validate-overflow" if any(v > 2 ** 62 for v in vals) else None
    try:
        axes = sel_axes(sel, len(dims))
    except Exception:
        return None
    if len(axes) != len(dims) or not dims:
        return None
    if ds["layout"] == "contiguous":
        if len(dims) == 1:
            s, c, st, b = axes[0]
            return "C09-1d-fast-path" if (c > 1 and st != b) else None
        if old_contig(axes, dims):
            return None if new_contig(axes, dims) else "C09-nd-contiguous-guard"
        return "C09-bounding-box" if len(dims) >= 3 else None
    if ds["layout"] == "chunked":
        if any(c > 1 and st < b for s, c, st, b in axes):
            return "C09-chunk-overlapping-blocks"
        sp = chunk_spans(axes, ds["chunk"], dims)
        first = next((i for i, a in enumerate(axes) if a[1] * a[3] > 1), None)
        if first is not None and any(x > 1 for x in sp[first + 1:]):
            return "C09-chunk-major-order"
    return None


# ------------------------------------------------------------------ generators

def per_dim_valid(n):
    out = []
    for s in range(n):
        for b in range(1, n - s + 1):
            for st in (1, 3):
                out.append((s, 1, st, b))
        for c in range(2, n + 1):
            for st in range(1, n + 1):
                for b in range(1, n + 1):
                    if s + (c - 1) * st + b <= n:
                        out.append((s, c, st, b))
    return out


def mk(api, axes, nil_defaults=False):
    start = [a[0] for a in axes]
    count = [a[1] for a in axes]
    if api == "slice":
        return dict(api="slice", start=start, count=count, stride=None, block=None)
    stride = [a[2] for a in axes]
    block = [a[3] for a in axes]
    if nil_defaults:
        stride = None if all(x == 1 for x in stride) else stride
        block = None if all(x == 1 for x in block) else block
    return dict(api="hyperslab", start=start, count=count, stride=stride, block=block)


def chunk_shapes(dims, every):
    if every:
        return [list(c) for c in itertools.product(*[range(1, d + 1) for d in dims])]
    cand = [sorted({1, 2 if d >= 2 else 1, d, (d + 1) // 2}) for d in dims]
    return [list(c) for c in itertools.product(*cand)]


def small_datasets(maxext, maxrank, rng, tier, ext_of_rank=None):
    """Complete enumeration over small extents (generator: the thorough tier does not fit in memory at once)."""
    pv = {n: per_dim_valid(n) for n in range(1, maxext + 1)}
    # rank 1: every parameter tuple in [0, n+1]^4 (valid and invalid), both APIs
    for n in range(1, maxext + 1):
        sels = [mk("hyperslab", [t], nil_defaults=(i % 3 == 0))
                for i, t in enumerate(itertools.product(range(n + 2), repeat=4))]
        sels += [mk("slice", [(s, c, 1, 1)]) for s in range(n + 2) for c in range(n + 2)]
        for lay, ch in [("contiguous", None)] + [("chunked", [c]) for c in range(1, n + 1)]:
            yield dict(layout=lay, dims=[n], chunk=ch, sels=sels, origin="exhaustive-rank1")
    # rank 2..maxrank: every valid selection; invalid ones by replacing one dimension
    for rank in range(2, maxrank + 1):
        for dims in itertools.product(range(1, (ext_of_rank or {}).get(rank, maxext) + 1), repeat=rank):
            dims = list(dims)
            valid = [mk("hyperslab", list(axes), nil_defaults=(i % 5 == 0))
                     for i, axes in enumerate(itertools.product(*[pv[d] for d in dims]))]
            extra = []
            for _ in range(12):
                axes = [list(rng.choice(pv[d])) for d in dims]
                k = rng.randrange(rank)
                which = rng.randrange(4)
                axes[k][which] = rng.choice([0, dims[k], dims[k] + 1, rng.choice(OVERFLOW_POOL)])
                extra.append(mk(rng.choice(["hyperslab", "hyperslab", "slice"]), [tuple(a) for a in axes]))
            for _ in range(6):
                axes = [(rng.randrange(d + 1), rng.randrange(d + 2), 1, 1) for d in dims]
                extra.append(mk("slice", axes))
            if rank == 2:
                layouts = [("contiguous", None)] + [("chunked", c) for c in chunk_shapes(dims, every=True)]
            else:
                cs = chunk_shapes(dims, every=False)
                layouts = [("contiguous", None)] + [("chunked", c) for c in rng.sample(cs, min(2, len(cs)))]
            for lay, ch in layouts:
                yield dict(layout=lay, dims=dims, chunk=ch, sels=valid + extra, origin="exhaustive-rank%d" % rank)


def random_valid_axis(rng, d):
    kind = rng.random()
    if kind < 0.15:
        s = rng.randrange(d)
        return (s, 1, rng.choice([1, 2, 5]), 1)                       # single index
    if kind < 0.25:
        return (0, d, 1, 1) if rng.random() < 0.5 else (0, 1, 1, d)    # full extent
    if kind < 0.32:
        return (d - 1, 1, 1, 1)                                        # last index
    for _ in range(50):
        b = rng.randint(1, max(1, d // 2))
        c = rng.randint(1, d)
        st = rng.randint(1, max(1, d // 2)) if rng.random() < 0.85 else rng.randint(1, b)
        ext = (c - 1) * st + b
        if ext <= d:
            s = rng.randint(0, d - ext)
            return (s, c, st, b)
    return (0, 1, 1, 1)


def random_datasets(rng, nds, nsel):
    out = []
    maxd = {1: 40, 2: 12, 3: 7, 4: 5}
    for i in range(nds):
        rank = rng.choice([1, 2, 2, 3, 3, 4])
        dims = [rng.randint(1, maxd[rank]) for _ in range(rank)]
        lay = rng.choice(["contiguous", "chunked", "chunked", "filtered"])
        ds = dict(layout="contiguous" if lay == "contiguous" else "chunked", dims=dims, chunk=None,
                  dtype=rng.choice(["int32", "int64", "float32", "float64"]), origin="random")
        if lay != "contiguous":
            ds["chunk"] = [rng.randint(1, d) for d in dims]
            if lay == "filtered":
                ds["gzip"] = rng.choice([0, 1, 6, 9])
                ds["shuffle"] = rng.random() < 0.5
                ds["fletcher"] = rng.random() < 0.5
                if not (ds["gzip"] or ds["shuffle"] or ds["fletcher"]):
                    ds["gzip"] = 6
        sels = []
        # the three named shapes, always
        sels.append(mk("hyperslab", [(rng.randrange(d), 1, 1, 1) for d in dims], nil_defaults=True))
        sels.append(mk("hyperslab", [(0, d, 1, 1) for d in dims]))
        sels.append(mk("hyperslab", [(d - 1, 1, 1, 1) for d in dims], nil_defaults=True))
        sels.append(mk("slice", [(0, d, 1, 1) for d in dims]))
        while len(sels) < nsel:
            axes = [random_valid_axis(rng, d) for d in dims]
            r = rng.random()
            if r < 0.62:
                sels.append(mk("hyperslab", axes, nil_defaults=rng.random() < 0.3))
            elif r < 0.72:
                sa = []
                for d in dims:
                    c = rng.randint(0, d)
                    sa.append((rng.randint(0, d - c), c, 1, 1))
                sels.append(mk("slice", sa))
            elif r < 0.86:                                             # just out of bounds
                a = [list(x) for x in axes]
                k = rng.randrange(rank)
                s, c, st, b = a[k]
                room = dims[k] - (s + (c - 1) * st + b)
                which = rng.randrange(3)
                if which == 0:
                    a[k][0] = s + room + 1
                elif which == 1:
                    a[k][3] = b + room + 1
                else:
                    a[k][1] = c + room // st + 1
                sels.append(mk("hyperslab", [tuple(x) for x in a]))
            elif r < 0.94:                                             # uint64 overflow
                a = [list(x) for x in axes]
                k = rng.randrange(rank)
                a[k][rng.randrange(4)] = rng.choice(OVERFLOW_POOL)
                sels.append(mk(rng.choice(["hyperslab", "slice"]), [tuple(x) for x in a]))
            elif r < 0.97:                                             # zero parameter
                a = [list(x) for x in axes]
                a[rng.randrange(rank)][rng.randrange(1, 4)] = 0
                sels.append(mk("hyperslab", [tuple(x) for x in a]))
            else:                                                      # wrong rank
                s = mk("hyperslab", axes)
                fld = rng.choice(["start", "count", "stride", "block"])
                s[fld] = s[fld] + [1] if rng.random() < 0.5 else s[fld][:-1]
                sels.append(s)
        ds["sels"] = sels
        out.append(ds)
    return out


CORPUS = [  # compact layout (the writer cannot produce it) and reference-library chunked files
    ("hdf5_official/h5copytst_new.h5", "/compact"), ("hdf5_official/tfilters.h5", "/compact"),
    ("hdf5_official/h5repack_layout.h5", "/dset_compact"),
    ("reference/le_data.h5", "/Deflate_float_data_le"), ("reference/be_data.h5", "/Shuffle_float_data_be"),
    ("reference/le_data.h5", "/Fletcher_float_data_le"), ("reference/fill18.h5", "/DS1"),
    ("hdf5_official/h5repack_layout3.h5", "/chunk_unlimit2"), ("hdf5_official/h5repack_layout3.h5", "/chunk_unlimit3"),
    ("hdf5_official/2_a.h5", "/source_dset"), ("hdf5_official/a.h5", "/A"), ("hdf5_official/1_e.h5", "/source_dset"),
    ("hdf5_official/tfilters.h5", "/deflate"), ("hdf5_official/h5repack_layout2.h5", "/chunked_small_fixed"),
    ("reference/btree_idx_1_8.h5", "/dset_filter"),
]


def parse_info(info):
    m = re.search(r"(\d)D array \[([^\]]*)\], (\w+)(?: \(chunks=\[([^\]]*)\]\))?", info)
    if not m:
        return None
    dims = [int(x) for x in re.findall(r"\d+", m.group(2))]
    lay = m.group(3)
    chunk = [int(x) for x in re.findall(r"\d+", m.group(4) or "")][:len(dims)] or None
    return dims, lay, chunk


def corpus_datasets(H, rng, nsel):
    out, missing = [], []
    for rel, name in CORPUS:
        path = os.path.join(vlib.REPO, "testdata", rel)
        if not os.path.exists(path):
            missing.append(rel)
            continue
        r = vlib.run_harness(H, "c09", [dict(file=path, dataset=name, sels=[], iter=False)])[0]
        pi = parse_info(r.get("info", ""))
        if "full" not in r or pi is None:
            missing.append(rel + name + " (full read: %s)" % r.get("full_error", r.get("open_error", "?")))
            continue
        dims, lay, chunk = pi
        ds = dict(layout=lay, dims=dims, chunk=chunk, file=path, dataset=name, origin="corpus")
        sels = [mk("hyperslab", [(0, d, 1, 1) for d in dims]), mk("slice", [(0, d, 1, 1) for d in dims]),
                mk("hyperslab", [(d - 1, 1, 1, 1) for d in dims], nil_defaults=True)]
        while len(sels) < nsel:
            axes = [random_valid_axis(rng, d) for d in dims]
            if rng.random() < 0.15:
                a = [list(x) for x in axes]
                k = rng.randrange(len(dims))
                a[k][0] = dims[k] - a[k][3] + 1 + (a[k][1] - 1) * 0
                a[k][1] = 1
                axes = [tuple(x) for x in a]
            sels.append(mk("hyperslab", axes, nil_defaults=rng.random() < 0.3))
        ds["sels"] = sels
        out.append(ds)
    return out, missing


# ------------------------------------------------------------------ harness I/O

def jsel(s):
    f = lambda v: None if v is None else [str(x) for x in v]
    return dict(api=s["api"], start=f(s["start"]), count=f(s["count"]), stride=f(s["stride"]), block=f(s["block"]))


def jcase(ds):
    c = dict(sels=[jsel(s) for s in ds["sels"]], iter=(ds["layout"] == "chunked"))
    if ds.get("file"):
        c.update(file=ds["file"], dataset=ds["dataset"])
    else:
        c.update(dims=[str(d) for d in ds["dims"]], chunk=None if ds["chunk"] is None else [str(x) for x in ds["chunk"]],
                 dtype=ds.get("dtype", "int32"), gzip=ds.get("gzip", 0), shuffle=ds.get("shuffle", False),
                 fletcher=ds.get("fletcher", False))
    return c


def observed(o):
    if "panic" in o:
        return "panic"
    if o.get("ok"):
        return o["vals"]
    return "err"


# ------------------------------------------------------------------ Coq transport

def cl(xs):
    return "[" + ";".join(str(x) for x in xs) + "]"


def copt_list(xs):
    return "None" if xs is None else "(Some %s)" % cl(xs)


def ccall(sel, obs, enc):
    if sel["api"] == "slice":
        c = "(CallS %s %s)" % (cl(sel["start"]), cl(sel["count"]))
    else:
        c = "(CallH (mkSel %s %s %s %s))" % (cl(sel["start"]), cl(sel["count"]), copt_list(sel["stride"]), copt_list(sel["block"]))
    o = "None" if obs == "err" else "(Some %s)" % cl([enc(v) for v in obs])
    return "(%s,%s)" % (c, o)


def clayout(ds):
    if ds["layout"] == "chunked":
        return "(Chunked %s)" % cl(ds["chunk"])
    return "Compact" if ds["layout"] == "compact" else "Contiguous"


# ------------------------------------------------------------------ the check

def dsd_of(ds):
    return {k: v for k, v in ds.items() if k != "sels"}


class CoqBatch:
    """Collects observations and evaluates model + specification in coqc, several files in parallel."""

    def __init__(self):
        self.files = []          # (vtext parts, labels)
        self.parts, self.labels, self.size, self.ncoq = [], [], 0, 0

    def _flush(self):
        if self.labels:
            self.files.append((self.parts, self.labels))
        self.parts, self.labels, self.size = [], [], 0

    def add(self, di, ds, full, pick, it_obs):
        if not pick and it_obs is None:
            return
        codes = {}
        if ds["origin"] == "corpus":
            def enc(v, codes=codes):
                return codes.setdefault(json.dumps(v), len(codes) + 1)
        else:
            def enc(v):
                return v
        fname = "f_%d" % di
        if ds["origin"] != "corpus":
            self.parts.append("Definition %s : list N := nrange %d.\n" % (fname, len(full)))
        else:
            self.parts.append("Definition %s : list N := %s.\n" % (fname, cl([enc(v) for v in full])))
        lay, dimsv, dsd = clayout(ds), cl(ds["dims"]), dsd_of(ds)
        for k in range(0, len(pick), 300):
            part = pick[k:k + 300]
            cname = "c_%d_%d" % (di, k)
            try:
                body = ";".join(ccall(sel, obs, enc) for _, sel, obs in part)
            except (TypeError, ValueError):
                continue   # non-numeric observation: already a violation of gate (1)
            self.parts.append("Definition %s : list (call * option (list N)) := [%s].\n" % (cname, body))
            self.parts.append("Definition bm_%s := Eval vm_compute in bad_model %s %s %s %s.\n" % (cname, lay, fname, dimsv, cname))
            self.parts.append("Definition bs_%s := Eval vm_compute in bad_spec %s %s %s.\n" % (cname, fname, dimsv, cname))
            self.labels.append(("bm_" + cname, "model", ds, dsd, part))
            self.labels.append(("bs_" + cname, "spec", ds, dsd, part))
            self.ncoq += len(part)
            self.size += len(part)
        if it_obs is not None and ds["origin"] != "corpus":
            iname = "it_%d" % di
            body = ";".join("(%s,Some %s)" % (cl(cc), cl(p)) for cc, p in it_obs)
            self.parts.append("Definition %s := Eval vm_compute in (if iter_ok %s %s %s [%s] then [] else [0]).\n" % (
                iname, fname, dimsv, cl(ds["chunk"]), body))
            self.labels.append((iname, "iter", ds, dsd, it_obs))
            self.ncoq += 1
        if self.size >= 1800:
            self._flush()

    def evaluate(self):
        """-> list of (kind, ds, dsd, payload) for every disagreement (payload = (si, sel, obs) or iterator obs)."""
        import concurrent.futures as cf
        self._flush()
        head = "From HV Require Import Base.Prelude Model.Hyperslab Model.HyperslabTie.\n"

        def one(idx_file):
            idx, (parts, labels) = idx_file
            tail = "Definition ALLBAD := Eval vm_compute in [%s].\nPrint ALLBAD.\n" % ";".join(
                "N.of_nat (List.length %s)" % l[0] for l in labels) + "".join("Print %s.\n" % l[0] for l in labels)
            out = vlib.coq_eval(head + "".join(parts) + tail, "c09cases_%d" % idx)
            bad = []
            for l, cnt in zip(labels, vlib.parse_nlist(out, "ALLBAD")):
                if cnt == 0:
                    continue
                if l[1] == "iter":
                    bad.append((l[1], l[2], l[3], l[4]))
                else:
                    for i in vlib.parse_nlist(out, l[0])[:3]:
                        bad.append((l[1], l[2], l[3], l[4][i]))
            return bad
        with cf.ThreadPoolExecutor(8) as ex:
            return [b for part in ex.map(one, enumerate(self.files)) for b in part]


def replay(ctx):
    """Re-run the single case stored in a replay file on the Go code, the oracle and the Coq model."""
    H = ctx.harness
    payload = json.load(open(ctx.replay))
    d = payload.get("detail", payload)
    fi = d.get("failing_input") or d.get("case") or {}
    ds = dict(fi.get("dataset") or {})
    if not ds:
        print("replay: the file carries no dataset/selection (%s)" % payload.get("what"))
        return dict(violations=[], known=[], coverage=dict(evaluations=0, rule="replay", samples=[], distinct_nontrivial=0))
    toi = lambda v: None if v is None else [int(x) for x in v]
    sels = []
    if fi.get("selection"):
        js = fi["selection"]
        sels = [dict(api=js["api"], start=toi(js["start"]), count=toi(js["count"]), stride=toi(js["stride"]), block=toi(js["block"]))]
    ds["sels"] = sels
    r = vlib.run_harness(H, "c09", [jcase(ds)])[0]
    viol = []
    print("replay dataset:", json.dumps(dsd_of(ds)))
    if "full" not in r:
        print("  full Read failed:", {k: v for k, v in r.items() if k != "sels"})
        viol.append(dict(what="full Read failed", failing_input=fi, impl=str(r)[:500]))
        return dict(violations=viol, known=[], coverage=dict(evaluations=1, rule="replay", samples=[], distinct_nontrivial=0))
    full = r["full"]
    for sel, o in zip(sels, r["sels"]):
        obs, exp = observed(o), oracle(full, ds["dims"], sel)
        print("  selection      :", json.dumps(jsel(sel)))
        print("  implementation :", obs, ("(%s)" % (o.get("err") or o.get("panic"))) if obs in ("err", "panic") else "")
        print("  specification  :", exp)
        call = ccall(sel, "err", lambda v: v).rsplit(",", 1)[0][1:]
        fdef = "nrange %d" % len(full) if ds.get("origin") != "corpus" and all(isinstance(v, int) for v in full) and full == list(range(len(full))) else None
        if fdef:
            out = vlib.coq_eval("From HV Require Import Base.Prelude Model.Hyperslab Model.HyperslabTie.\n"
                                "Definition R := Eval vm_compute in run_call %s (%s) %s %s.\nPrint R.\n" % (clayout(ds), fdef, cl(ds["dims"]), call), "c09replay")
            print("  Coq model      :", " ".join(out.split()))
        print("  verdict        :", "agrees with the specification" if obs == exp else "VIOLATES the specification")
        if obs != exp:
            viol.append(dict(what="replayed case still violates the specification", failing_input=fi, impl=obs, spec=exp))
    if ds["layout"] == "chunked" and not sels:
        print("  iterator       :", json.dumps(r.get("iter"))[:2000])
    return dict(violations=viol, known=[], coverage=dict(evaluations=len(sels), rule="replay of one stored case", samples=[], distinct_nontrivial=0))


# ------------------------------------------------------------------ side obligation: C09 model vs the I/O program on a file image

REFINE_SIZES = [1, 2, 4, 8, 1, 2, 4, 8, 4, 8]        # FileImage.dtype_of_code
REFINE_SUPPORTED = [2, 3, 6, 7, 8, 9]                # element sizes 4 and 8 (dataset_read_hyperslab.go:385)
REFINE_KINDS = [  # (kind, rank or None = random 1..4); 34 of 52 are valid selections on a supported datatype
    ("valid-strided-blocked", 2), ("valid-strided-blocked", 3), ("valid-strided-blocked", 1), ("valid-strided-blocked", 4),
    ("valid-strided-blocked", None), ("valid-overlapping-blocks", 1), ("valid-overlapping-blocks", 2),
    ("valid-overlapping-blocks", 3), ("valid-single-element", None), ("valid-single-element", None),
    ("valid-full-extent", 1), ("valid-full-extent", 2), ("valid-full-extent", 3), ("valid-full-extent", 4),
    ("valid-full-rows", 2), ("valid-full-rows", 3), ("valid-full-rows", 4), ("valid-row-prefix", 2), ("valid-row-prefix", 3),
    ("valid-nil-stride-block", 2), ("valid-nil-stride-block", 3), ("valid-nil-stride-block", 1),
    ("valid-random", 1), ("valid-random", 2), ("valid-random", 2), ("valid-random", 3), ("valid-random", 4), ("valid-random", None),
    ("slice-valid", 2), ("slice-valid", 3), ("slice-valid", 1), ("slice-valid", None), ("slice-full", 2), ("slice-last", None),
    ("slice-count0", None), ("slice-count0", 2), ("slice-oob", None), ("slice-oob", 2), ("slice-near-2^64", None),
    ("slice-wrong-rank", None),
    ("small-type", 2), ("small-type", 1), ("small-type", 3), ("small-type-slice", 2),
    ("oob-start", None), ("count0", None), ("count-too-large", None), ("block-too-large", None),
    ("wrong-rank-short", None), ("wrong-rank-long", None), ("near-2^64", None), ("near-2^64", 2),
]


def refine_dims(rng, rank, need=1):
    """Extents >= 1 with product <= 60; at least one extent >= need."""
    maxd = {1: 40, 2: 9, 3: 5, 4: 3}[rank]
    while True:
        dims = [rng.randint(1, maxd) for _ in range(rank)]
        n = 1
        for d in dims:
            n *= d
        if n <= 60 and max(dims) >= min(need, maxd):
            return dims


def refine_case(rng, kind, rank):
    """-> (code, dims, sel) of one guard case."""
    rank = rank or rng.choice([1, 2, 2, 3, 3, 4])
    code = rng.choice(REFINE_SUPPORTED)
    dims = refine_dims(rng, rank, need=4 if kind in ("valid-strided-blocked", "valid-overlapping-blocks") else 2)
    big = max(range(rank), key=lambda k: dims[k])
    axes = [random_valid_axis(rng, d) for d in dims]
    if kind == "valid-strided-blocked":
        d = dims[big]
        b = 2 if d >= 5 else 1
        st = rng.randint(b + 1, d - b)
        c = rng.randint(2, (d - b) // st + 1)
        axes[big] = (rng.randint(0, d - ((c - 1) * st + b)), c, st, b)
        sel = mk("hyperslab", axes)
    elif kind == "valid-overlapping-blocks":
        d = dims[big]
        b = rng.randint(2, d - 1)
        st = rng.randint(1, min(b - 1, d - b))
        c = rng.randint(2, (d - b) // st + 1)
        axes[big] = (rng.randint(0, d - ((c - 1) * st + b)), c, st, b)
        sel = mk("hyperslab", axes)
    elif kind == "valid-single-element":
        sel = mk("hyperslab", [(rng.randrange(d), 1, rng.choice([1, 2, 7]), 1) for d in dims], nil_defaults=rng.random() < 0.5)
    elif kind == "valid-full-extent":
        sel = mk("hyperslab", [(0, d, 1, 1) if rng.random() < 0.5 else (0, 1, rng.choice([1, d]), d) for d in dims])
    elif kind == "valid-full-rows":          # some rows of the first dimension, every other dimension complete: one run
        c = rng.randint(1, dims[0])
        sel = mk("hyperslab", [(rng.randint(0, dims[0] - c), c, 1, 1)] + [(0, d, 1, 1) for d in dims[1:]], nil_defaults=True)
    elif kind == "valid-row-prefix":         # one index in the leading dimensions, a piece of the last one: one run
        b = rng.randint(1, dims[-1])
        sel = mk("hyperslab", [(rng.randrange(d), 1, 1, 1) for d in dims[:-1]] + [(rng.randint(0, dims[-1] - b), 1, 1, b)])
    elif kind == "valid-nil-stride-block":
        sa = []
        for d in dims:
            c = rng.randint(1, d)
            sa.append((rng.randint(0, d - c), c, 1, 1))
        sel = mk("hyperslab", sa)
        sel["stride"] = None
        if rng.random() < 0.7:
            sel["block"] = None
    elif kind == "valid-random":
        sel = mk("hyperslab", axes, nil_defaults=rng.random() < 0.3)
    elif kind in ("slice-valid", "small-type-slice"):
        sa = []
        for d in dims:
            c = rng.randint(1, d)
            sa.append((rng.randint(0, d - c), c, 1, 1))
        sel = mk("slice", sa)
    elif kind == "slice-full":
        sel = mk("slice", [(0, d, 1, 1) for d in dims])
    elif kind == "slice-last":
        sel = mk("slice", [(d - 1, 1, 1, 1) for d in dims])
    elif kind == "slice-count0":
        sa = [(rng.randint(0, d - 1), 1, 1, 1) for d in dims]
        k = rng.randrange(rank)
        sa[k] = (rng.choice([0, dims[k], sa[k][0]]), 0, 1, 1)
        sel = mk("slice", sa)
    elif kind == "slice-oob":
        sa = [(rng.randint(0, d - 1), 1, 1, 1) for d in dims]
        k = rng.randrange(rank)
        sa[k] = rng.choice([(dims[k], 1, 1, 1), (dims[k] + 1, 0, 1, 1), (sa[k][0], dims[k] - sa[k][0] + 1, 1, 1), (0, dims[k] + 1, 1, 1)])
        sel = mk("slice", sa)
    elif kind == "slice-near-2^64":
        sa = [(rng.randint(0, d - 1), 1, 1, 1) for d in dims]
        k = rng.randrange(rank)
        sa[k] = rng.choice([(M64, 2, 1, 1), (2, M64, 1, 1), (M64, 1, 1, 1), (2 ** 63, 2 ** 63, 1, 1), (1, M64, 1, 1)])
        sel = mk("slice", sa)
    elif kind == "slice-wrong-rank":
        sel = mk("slice", [(0, 1, 1, 1) for d in dims])
        fld = rng.choice(["start", "count"])
        sel[fld] = sel[fld] + [1] if rng.random() < 0.5 else sel[fld][:-1]
    elif kind == "small-type":
        sel = mk("hyperslab", axes)
    else:
        a = [list(x) for x in axes]
        k = rng.randrange(rank)
        s, c, st, b = a[k]
        room = dims[k] - (s + (c - 1) * st + b)
        if kind == "oob-start":
            a[k][0] = rng.choice([s + room + 1, dims[k], dims[k] + 3])
        elif kind == "count0":
            a[k][rng.choice([1, 1, 2, 3])] = 0
        elif kind == "count-too-large":
            a[k][1] = c + room // st + 1
        elif kind == "block-too-large":
            a[k][3] = b + room + 1
        elif kind == "near-2^64":
            which = rng.randrange(5)
            if which == 0:
                a[k] = [M64, 2, 1, 1]                     # start + (count-1)*stride wraps to 0
            elif which == 1:
                a[k] = [1, 2, M64, 1]
            elif which == 2:
                a[k] = [0, 2 ** 63, 2, 1]                 # (count-1)*stride + block wraps
            else:
                a[k][rng.randrange(4)] = rng.choice(OVERFLOW_POOL)
        sel = mk("hyperslab", [tuple(x) for x in a])
        if kind.startswith("wrong-rank"):
            fld = rng.choice(["start", "count", "stride", "block"])
            sel[fld] = sel[fld] + [1] if kind.endswith("long") else sel[fld][:-1]
    if kind.startswith("small-type"):
        code = rng.choice([0, 1, 4, 5])
    elif not kind.startswith("valid") and not kind.startswith("slice-valid"):
        code = rng.randrange(10)
    return code, dims, sel


def refine_term(case):
    code, dims, hexdata, sel = case["code"], case["dims"], case["data"], case["sel"]
    return '(%d, %s, "%s"%%string, (%s, %s, %s, %s), %s)' % (
        code, cl(dims), hexdata, cl(sel["start"]), cl(sel["count"]), cl(sel["stride"] or []), cl(sel["block"] or []),
        "true" if sel["api"] == "slice" else "false")


def refine_guard(ctx):
    """Side obligation: Model/Hyperslab.v (element level, the model of the tie above) and Model/IOProgSlice.v (the same Go
    function as an I/O program over the bytes of the file) are run inside Coq on the same generated whole-file images
    (Model.SliceRefine.refine_case_ok); any disagreement is reported.  -> (violations, coverage entry)"""
    rng = ctx.rng
    t0 = time.time()
    cases, kinds, paths, by_rank, codes = [], collections.Counter(), collections.Counter(), collections.Counter(), collections.Counter()
    accepted = accepted_supported = 0
    for i, (kind, rank) in enumerate(REFINE_KINDS):
        code, dims, sel = refine_case(rng, kind, rank)
        if i < 10 and kind.startswith("valid"):
            code = (REFINE_SUPPORTED + REFINE_SUPPORTED)[i]           # every supported datatype at least once
        if kind.startswith("small-type"):
            code = [0, 1, 4, 5][kinds["small-type"] + kinds["small-type-slice"]]    # every refused element size (1, 2)
        n = 1
        for d in dims:
            n *= d
        data = bytes(rng.randrange(256) for _ in range(n * REFINE_SIZES[code])).hex()
        ok = slice_valid(sel, dims) if sel["api"] == "slice" else hyperslab_valid(sel, dims)     # exact integers
        case = dict(kind=kind, code=code, dims=dims, data=data, sel=sel, valid=ok)
        kinds[kind] += 1
        by_rank[str(len(dims))] += 1
        codes[str(code)] += 1
        if ok:
            accepted += 1
            if REFINE_SIZES[code] in (4, 8):
                accepted_supported += 1
                paths[path_of(dict(layout="contiguous", dims=dims), sel)] += 1
        cases.append(case)
    text = ("From HV Require Import Base.Prelude Model.SliceRefine.\n"
            "Definition cases : list (N * list N * string * (list N * list N * list N * list N) * bool) := [\n%s].\n"
            "Definition R := Eval vm_compute in refine_mismatches cases.\nPrint R.\n"
            % ";\n".join(refine_term(c) for c in cases))
    t1 = time.time()
    out = vlib.coq_eval(text, "c09refine")
    t_coq = time.time() - t1
    bad = vlib.parse_nlist(out, "R")
    viol = []
    for i in bad[:5]:
        c = cases[i]
        viol.append(dict(what="C09 model and ReadSlice/ReadHyperslab I/O program disagree on a whole-file image",
                         case=dict(index=i, kind=c["kind"], code=c["code"], dims=c["dims"], data=c["data"], selection=jsel(c["sel"]),
                                   valid_over_unbounded_integers=c["valid"], coq_term=refine_term(c)),
                         nofail=True,
                         correspondence="Model.SliceRefine.refine_case_ok: Hyperslab.read_hyperslab vs IOProgSlice.api_read_hyperslab on image_v2"))
    need = ("contiguous-single-read", "contiguous-2d-elementwise", "contiguous-selection-run")
    if 3 * accepted_supported < len(cases) or any(paths[p] == 0 for p in need) or any(codes[str(k)] == 0 for k in range(10)):
        viol.append(dict(what="C09 refine_guard: the generated cases do not cover what the guard promises (a third valid, three contiguous paths, every datatype)",
                         case=dict(accepted_supported=accepted_supported, cases=len(cases), paths=dict(paths), codes=dict(codes)), nofail=True,
                         correspondence="tools/props/c09.py refine_guard generator"))
    cov = dict(cases=len(cases), mismatches=len(bad), seconds=dict(coqc=round(t_coq, 2), total=round(time.time() - t0, 2)),
               kinds=dict(kinds), accepted=accepted, accepted_on_supported_datatype=accepted_supported,
               paths_of_accepted=dict(paths), by_rank=dict(by_rank), by_datatype_code=dict(sorted(codes.items())),
               rule="one case = one image_v2 file (random bytes as data) + one ReadHyperslab/ReadSlice call, both models evaluated by coqc "
                    "(Model.SliceRefine.refine_mismatches); accepted = the selection is valid over unbounded integers (Python)")
    return viol, cov


def run(ctx):
    if getattr(ctx, "replay", None):
        return replay(ctx)
    H, rng, tier = ctx.harness, ctx.rng, ctx.tier
    t0 = time.time()
    kf = {k["id"]: k for k in vlib.known_findings("C09")}
    viol, known_hits, known_witness = [], collections.Counter(), {}
    if tier == "thorough":
        gen = itertools.chain(small_datasets(5, 3, rng, tier), random_datasets(rng, 400, 80))
        ncorp, coq_budget = 120, 120000
    else:
        # (rank 3 with extents <= 3 is an extra of the quick tier: it is the only exhaustive cover of the selection-run path)
        gen = itertools.chain(small_datasets(4, 3, rng, tier, {3: 3}), random_datasets(rng, 60, 40))
        ncorp, coq_budget = 40, 7000
    corp, corpus_missing = corpus_datasets(H, rng, ncorp)
    gen = itertools.chain(gen, corp)
    # expected number of calls of the exhaustive part, to choose the fraction of it that is sent to Coq
    tot = {n: len(per_dim_valid(n)) for n in range(1, 6)}
    if tier == "thorough":
        expect = 40000 + sum(n * tot[n] for n in range(1, 6)) ** 2 + sum(tot.values()) ** 3 * 3
    else:
        expect = 10000 + sum(n * tot[n] for n in range(1, 5)) ** 2 + sum(tot[n] for n in range(1, 5)) ** 2 + 3 * sum(tot[n] for n in range(1, 4)) ** 3
    frac = min(1.0, coq_budget / expect)

    def batches():
        cur, size = [], 0
        for ds in gen:
            cur.append(ds)
            size += len(ds["sels"])
            if size >= 150000:
                yield cur
                cur, size = [], 0
        if cur:
            yield cur

    stats = collections.Counter()
    by_path, by_rank, by_layout, by_origin = (collections.Counter() for _ in range(4))
    distinct = set()
    samples = []
    coq = CoqBatch()
    evaluations = ndatasets = 0
    t_go = 0.0
    di = -1
    for batch in batches():
        tg = time.time()
        res = vlib.run_harness_parallel(H, "c09", [jcase(d) for d in batch], workers=16)
        t_go += time.time() - tg
        for ds, r in zip(batch, res):
            di += 1
            ndatasets += 1
            dims = ds["dims"]
            n = 1
            for d in dims:
                n *= d
            lay_label = ds["layout"] + ("+filters" if (ds.get("gzip") or ds.get("shuffle") or ds.get("fletcher")) else "") \
                + ("(corpus)" if ds["origin"] == "corpus" else "")
            if "full" not in r:
                # no reference: the full read itself failed - never skipped silently: it gates
                why = r.get("full_error") or r.get("create_error") or r.get("open_error") or r.get("panic") or r.get("harness_error")
                viol.append(dict(what="full Read failed on a generated dataset (no reference for the partial reads): %s" % why,
                                 failing_input=dict(dataset=dsd_of(ds)), impl=why))
                continue
            full = r["full"]
            if ds["origin"] != "corpus" and full != list(range(n)):
                viol.append(dict(what="full Read does not return the written values 0..n-1 (C01 observable; partial reads not comparable)",
                                 failing_input=dict(dataset=dsd_of(ds)), impl=full[:64]))
                continue
            by_origin[ds["origin"]] += len(ds["sels"])
            job = []
            for si, (sel, o) in enumerate(zip(ds["sels"], r["sels"])):
                obs = observed(o)
                exp = oracle(full, dims, sel)
                evaluations += 1
                by_rank[len(dims)] += 1
                by_layout[lay_label] += 1
                if exp == "err":
                    big = any(v > 2 ** 62 for v in sel["start"] + sel["count"] + (sel["stride"] or []) + (sel["block"] or []))
                    stats["invalid-overflowing" if big else "invalid"] += 1
                else:
                    stats["valid"] += 1
                    by_path[path_of(ds, sel)] += 1
                    if len(exp) > 1:
                        distinct.add(hash((lay_label, tuple(dims), tuple(ds["chunk"] or ()), sel["api"], tuple(sel["start"]), tuple(sel["count"]),
                                           tuple(sel["stride"] or ()), tuple(sel["block"] or ()))))
                    if len(samples) < 6 and len(exp) > 3 and rng.random() < 0.002:
                        samples.append(dict(dataset=dsd_of(ds), selection=sel, go=obs, oracle=exp))
                if obs != exp:
                    cls = d9_class(ds, sel, invalid=(exp == "err"))
                    if cls in kf:
                        known_hits[cls] += 1
                        known_witness.setdefault(cls, dict(dataset=dsd_of(ds), selection=jsel(sel), go=obs, spec=exp))
                    elif len(viol) < 200:
                        if obs == "panic":
                            what = "%s panics: %s" % (sel["api"], o.get("panic"))
                        elif exp == "err":
                            what = "selection leaving the dataset is not rejected"
                        elif obs == "err":
                            what = "valid selection rejected: %s" % o.get("err")
                        else:
                            what = "partial read differs from the selection of the full read"
                        viol.append(dict(what="%s [%s rank %d%s]" % (what, lay_label, len(dims), ", class " + cls if cls else ""),
                                         failing_input=dict(dataset=dsd_of(ds), selection=jsel(sel)),
                                         impl=obs, spec=exp, d9_class=cls))
                    else:
                        stats["further-violations-not-listed"] += 1
                elif obs != "panic":
                    job.append((si, sel, obs))      # agrees with the specification: also compared with the Coq model
            it_obs = None
            if ds["layout"] == "chunked":
                it = r.get("iter") or {}
                grid = [list(c) for c in itertools.product(*[range((d + c - 1) // c) for d, c in zip(dims, ds["chunk"])])]
                coords = [[int(x) for x in c] for c in it.get("coords", [])]
                evaluations += 1
                stats["iterator-datasets"] += 1
                stats["iterator-chunks"] += len(coords)
                bad = None
                if "err" in it or "panic" in it or any(it.get("errs", [])):
                    bad = "chunk iterator failed: %s" % (it.get("err") or it.get("panic") or [e for e in it.get("errs", []) if e][:1])
                elif sorted(coords) != sorted(grid):
                    bad = "chunk iterator does not visit every chunk of the grid exactly once"
                else:
                    covered = collections.Counter()
                    for cc, piece in zip(coords, it["pieces"]):
                        start = [c * cd for c, cd in zip(cc, ds["chunk"])]
                        count = [min(cd, d - s) for cd, d, s in zip(ds["chunk"], dims, start)]
                        box = dict(api="slice", start=start, count=count, stride=None, block=None)
                        if piece != oracle(full, dims, box):
                            bad = "chunk iterator piece %s differs from the box of the full read" % cc
                            break
                        for x in itertools.product(*[range(s, s + c) for s, c in zip(start, count)]):
                            covered[x] += 1
                    if not bad and (len(covered) != n or any(v != 1 for v in covered.values())):
                        bad = "chunk iterator pieces do not tile the dataset"
                if bad:
                    viol.append(dict(what=bad + " [%s]" % lay_label, failing_input=dict(dataset=dsd_of(ds)),
                                     impl=dict(coords=it.get("coords"), pieces=it.get("pieces"), errs=it.get("errs")), spec=dict(grid=grid)))
                else:
                    it_obs = list(zip(coords, it["pieces"]))
            if ds["origin"] in ("random", "corpus") or frac >= 1.0:
                pick = job
            else:
                pick = [j for j in job if rng.random() < frac]
                if it_obs is not None and rng.random() > max(frac * 4, 0.25):
                    it_obs = None
            coq.add(di, ds, full, pick, it_obs)

    # ---- Coq model and Coq specification on the observations that passed gate (1)
    t1 = time.time()
    for kind, ds, dsd, payload in coq.evaluate():
        if kind == "iter":
            viol.append(dict(what="chunk iterator: implementation and Coq model chunk_iterator disagree (order or content) although the pieces tile the full read",
                             case=dict(dataset=dsd, iterator=[[list(c), p] for c, p in payload]), nofail=True,
                             correspondence="Model.Hyperslab.chunk_iterator vs ChunkIterator; theorem C09_chunk_iter_tiles"))
            continue
        si, sel, obs = payload
        fi = dict(dataset=dsd, selection=jsel(sel))
        if kind == "model":
            viol.append(dict(what="implementation and Coq model disagree although the result equals the specification (model no longer a transcription of the code?)",
                             case=fi, impl=obs, nofail=True,
                             correspondence="Model.Hyperslab.read_hyperslab/read_slice vs ReadHyperslab/ReadSlice; theorems C09_dispatch, C09_read_slice"))
        else:
            viol.append(dict(what="Coq specification spec_call and the Python oracle disagree on an observation (check machinery)",
                             case=fi, impl=obs, nofail=True, correspondence="Model.HyperslabTie.spec_call vs tools/props/c09.py oracle"))
    t_coq = time.time() - t1
    # ---- side obligation: the element-level model against the I/O program on whole-file images (drawn last from ctx.rng,
    #      so the cases above do not depend on it)
    rg_viol, rg_cov = refine_guard(ctx)
    viol.extend(rg_viol)
    known = []
    for cls, cnt in sorted(known_hits.items()):
        known.append("%s: %d selections of the class reproduce (%s) witness=%s" % (
            cls, cnt, kf[cls].get("what", "")[:120], json.dumps(known_witness[cls], default=str)[:300]))
    cov = dict(
        evaluations=evaluations, distinct_nontrivial=len(distinct),
        rule="one evaluation = one ReadHyperslab/ReadSlice call (or one complete chunk iteration) compared with the oracle on the full Read of the "
             "same open file; distinct/non-trivial = distinct (layout, extents, chunk shape, API, start, count, stride, block) of valid selections "
             "returning more than one element",
        datasets=ndatasets, by_origin=dict(by_origin), by_rank={str(k): v for k, v in sorted(by_rank.items())},
        by_layout=dict(by_layout), by_path_of_valid=dict(by_path), validity=dict(stats),
        model_evaluations_in_coq=coq.ncoq, coq_fraction_of_exhaustive=round(frac, 4),
        corpus_missing=corpus_missing, known_findings_not_reproduced=[k for k in kf if k not in known_hits],
        programs=ndatasets, disagreements_checked=evaluations,
        samples=samples[:6], seconds=dict(go=round(t_go, 1), coq=round(t_coq, 1), total=round(time.time() - t0, 1)),
        exhaustive="all selections with every extent <= %s" % ("5 (rank <= 3)" if tier == "thorough" else "4 (rank <= 2), <= 3 (rank 3)"),
        refine_guard=rg_cov,
    )
    return dict(violations=viol, known=known, coverage=cov)
