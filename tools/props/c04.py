"""C04 - operations on one object never change another object."""
import itertools
import histcheck, histgen
from histlib import hx

TRUSTED = ["C04: tools/histlib.py per-object oracle and the hist harness glue"]

W = lambda p, n, b: {"op": "write", "path": p, "val": bytes(((i * 7 + b) % 251) for i in range(n)).hex()}


def canonical_ops():
    """the eight operation kinds of the quantifier over two live objects X, Y"""
    return {
        "createX": [{"op": "mkds", "path": "/X", "dtype": "uint8", "dims": [6], "chunk": [4], "maxdims": [20]}],
        "createY": [{"op": "mkds", "path": "/Y", "dtype": "int32", "dims": [3]}],
        "writeX": [W("/X", 6, 1)],
        "writeY": [W("/Y", 12, 5)],
        "attrX": [{"op": "setattr", "path": "/X", "name": hx("ax"), "kind": "str", "val": hx("x" * 40)}],
        "attrY": [{"op": "setattr", "path": "/Y", "name": hx("ay"), "kind": "[]f64", "val": "00" * 40}],
        "linkX": [{"op": "hardlink", "path": "/LX", "target": "/X"}],
        "resizeX": [{"op": "resize", "path": "/X", "dims": [9]}, W("/X", 9, 3)],
    }


def cases_for(rng, tier):
    cases = []
    can = canonical_ops()
    keys = list(can)
    perms = list(itertools.permutations(keys))
    # orders in which an object is used before it is created simply produce errors, which must change nothing
    pick = perms if tier == "thorough" else rng.sample(perms, 700)
    for perm in pick:
        ops = [o for k in perm for o in can[k]]
        cases.append({"sb": rng.choice([0, 2, 3]), "ops": ops})
    n = 900 if tier == "quick" else 20000
    for _ in range(n):
        cases.append({"sb": rng.choice([0, 2, 3]),
                      "ops": histgen.gen_mixed(rng, nops=rng.choice([12, 30, 60, 100]), fail_rate=0.08)})
    return cases


def run(ctx):
    return histcheck.run(ctx, cases_for(ctx.rng, ctx.tier), "C04", tags=None, unit_modules=["c04unit"],
                         rule_extra="C04 cases: orders of {create X, create Y, write X, write Y, attribute on X, attribute on Y, hard link to X, "
                                    "resize X} (700 sampled permutations quick, all 40320 thorough) plus random interleavings over 2-6 live "
                                    "objects; every untouched object's data, attributes and links must be unchanged after reopen.")
