"""C04 - operations on one object never change another object."""
import itertools
import histcheck, histgen
from histlib import hx

TRUSTED = ["C04: tools/histlib.py per-object oracle and the hist harness glue"]

W = lambda p, n, b: {"op": "write", "path": p, "val": bytes(((i * 7 + b) % 251) for i in range(n)).hex()}


def canonical_ops():
    """the eight operation kinds of the quantifier over two live objects X, Y"""
    return {
        "createX": [{"op": "mkds", "path": "/X", "dtype": "uint8", "dims": [6], "chunk": [4], "maxdims": [20]}],
        "createY": [{"op": "mkds", "path": "/Y", "dtype": "int32", "dims": [3]}],
        "writeX": [W("/X", 6, 1)],
        "writeY": [W("/Y", 12, 5)],
        "attrX": [{"op": "setattr", "path": "/X", "name": hx("ax"), "kind": "str", "val": hx("x" * 40)}],
        "attrY": [{"op": "setattr", "path": "/Y", "name": hx("ay"), "kind": "[]f64", "val": "00" * 40}],
        "linkX": [{"op": "hardlink", "path": "/LX", "target": "/X"}],
        "resizeX": [{"op": "resize", "path": "/X", "dims": [9]}, W("/X", 9, 3)],
    }


def same_leaf_case(rng):
    """Datasets with the SAME link name in different groups, modified through OpenDataset handles in a reopened session:
    what is aimed at /g2/data must not land on /g1/data (added after seeded change C04-c)."""
    leaf = rng.choice(["data", "x", "values"])
    groups = rng.sample(["/g1", "/g2", "/g3", ""], rng.choice([2, 3]))
    paths = [g + "/" + leaf for g in groups]
    ops = [{"op": "mkgroup", "path": g} for g in groups if g]
    for i, p in enumerate(paths):
        ops.append({"op": "mkds", "path": p, "dtype": "int32", "dims": [4]})
        ops.append({"op": "write", "path": p, "val": histgen.rand_data(rng, "int32", 4).hex()})
        if rng.random() < 0.6:
            ops.append({"op": "setattr", "path": p, "name": hx("tag"), "kind": "i32", "val": bytes([i + 1, 0, 0, 0]).hex()})
    for _ in range(rng.choice([1, 2])):
        ops += [{"op": "close"}, {"op": "dump"}, {"op": "reopen"}]
        order = list(paths)
        rng.shuffle(order)
        for p in order:
            ops.append({"op": "opends", "path": p})
        for _ in range(rng.choice([3, 6, 10])):
            p = rng.choice(paths)
            r = rng.random()
            if r < 0.5:
                k, v = histgen.rand_attr_value(rng)
                ops.append({"op": "setattr", "path": p, "name": hx(rng.choice(["tag", "a", "b"])), "kind": k, "val": v.hex(), "h": 0})
            elif r < 0.8:
                ops.append({"op": "write", "path": p, "dtype": "int32", "val": histgen.rand_data(rng, "int32", 4).hex(), "h": 0})
            else:
                ops.append({"op": "delattr", "path": p, "name": hx(rng.choice(["tag", "a"])), "h": 0})
    ops += [{"op": "close"}, {"op": "dump"}]
    return ops


def cases_for(rng, tier):
    cases = []
    can = canonical_ops()
    keys = list(can)
    perms = list(itertools.permutations(keys))
    # orders in which an object is used before it is created simply produce errors, which must change nothing
    pick = perms if tier == "thorough" else rng.sample(perms, 700)
    for perm in pick:
        ops = [o for k in perm for o in can[k]]
        cases.append({"sb": rng.choice([0, 2, 3]), "ops": ops})
    n = 800 if tier == "quick" else 20000
    for _ in range(n):
        cases.append({"sb": rng.choice([0, 2, 3]),
                      "ops": histgen.gen_mixed(rng, nops=rng.choice([12, 30, 60, 100]), fail_rate=0.08)})
    for _ in range(150 if tier == "quick" else 3000):
        cases.append({"sb": rng.choice([0, 2, 3]), "ops": same_leaf_case(rng)})
    # the last object of the creating session is of each kind in turn; later sessions grow OTHER objects and that one
    for _ in range(250 if tier == "quick" else 6000):
        cases.append({"sb": rng.choice([0, 2, 3]), "ops": histgen.gen_tail_kind(rng)})
    # an object of each kind (incl. dense groups and groups created with links), a neighbour allocated right behind it, then the
    # first object's header grows in the same session (first hard link to it, attributes): the neighbour must be unchanged
    for _ in range(150 if tier == "quick" else 4000):
        cases.append({"sb": rng.choice([0, 2, 3]), "ops": histgen.gen_grow_with_neighbour(rng)})
    return cases


def run(ctx):
    return histcheck.run(ctx, cases_for(ctx.rng, ctx.tier), "C04", tags=None, unit_modules=["c04unit"],
                         rule_extra="C04 cases: orders of {create X, create Y, write X, write Y, attribute on X, attribute on Y, hard link to X, "
                                    "resize X} (700 sampled permutations quick, all 40320 thorough) plus random interleavings over 2-6 live "
                                    "objects (a third of the datasets of the compound / array / enum / opaque / reference / variable-length kinds, groups also through CreateDenseGroup / CreateGroupWithLinks); datasets with the same link name in different groups modified through OpenDataset handles in reopened sessions; "
                                    "histories whose last created object is of each kind in turn and whose later sessions move another dataset to dense attribute storage and grow that last object; histories in which an object of each kind (incl. CreateDenseGroup / CreateGroupWithLinks groups) gets a neighbour allocated right behind it and then grows its header in the same session (first hard link, attributes up to the dense transition); every untouched object's data, attributes and links must be unchanged after reopen.")
