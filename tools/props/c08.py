"""C08 - filter pipelines are lossless, self-compatible and detect corruption.

Tie (every run):
  A  payload x pipeline cases (all subsets and orders of {deflate 1-9, shuffle, fletcher32, lzf} plus
     repeated filters): writer Apply per stage, writer Remove, pipeline message, reader
     ParseFilterPipelineMessage + ApplyFilters on the writer's bytes.  Each deflate-free stage is
     compared byte-exactly with the Coq model (Model/Filters.v); deflate only through round trips.
  B  independent Python oracle on the implementation's bytes: zlib.decompress (container check), shuffle
     by its definition, Fletcher-32 in closed form (sums of big-endian words, one's complement), an LZF
     decoder written from the format description, the message layout rebuilt from the filter list.
  C  corruption: every byte position x {b^1, b^0x80, b^0xFF, 0, 255} of Fletcher-protected chunks up to
     512 bytes, sampled multi-byte alterations; writer.Remove and reader.ApplyFilters must both fail.
  D  malformed streams: reader on garbage/truncated LZF, corrupted trailers, mutated description
     messages: implementation vs model (error class and bytes).
  E  end to end through the public API (create chunked dataset with filter options, close, reopen, read),
     including one flipped byte inside a stored chunk of the file; Fletcher-32 chunks written by the
     reference C library (bundled testdata) must still verify.
"""
import os, struct, zlib, time
import vlib
from props import c06switch

TRUSTED = [
    "C08: compress/zlib (deflate/inflate) is not re-proved: C08_pipeline_roundtrip, C08_reader_decodes_writer and C08_pipeline_detects "
    "take `forall l x, inflate (deflate l x) = Some x` as an explicit premise (Section variables); the tie checks it on every generated "
    "case through Go's zlib and Python's zlib module",
    "C08: shuffle filter payloads shorter than 4 GiB (uint32(len) truncation not modelled); error texts are one class",
]
ASSUMPTIONS = ["chunks are shorter than 4 GiB", "a pipeline has fewer than 256 filters (the count is one byte in the message)"]

KIND = {"deflate": 1, "shuffle": 2, "fletcher32": 3, "lzf": 4}
NAMES = {"deflate": b"deflate", "shuffle": b"shuffle", "fletcher32": b"fletcher32", "lzf": b"lzf"}
IDS = {"deflate": 1, "shuffle": 2, "fletcher32": 3, "lzf": 32000}


# --------------------------------------------------------------------------- independent oracle
def py_shuffle(esz, x):
    n = len(x) // esz
    return b"".join(x[b::esz][:n] for b in range(esz))


def py_unshuffle(esz, y):
    n = len(y) // esz
    out = bytearray(len(y))
    for b in range(esz):
        out[b::esz] = y[b * n:(b + 1) * n]
    return bytes(out)


def py_fletcher32(x):
    """HDF5 Fletcher-32 in closed form: sums of big-endian 16-bit words in one's complement arithmetic."""
    hi, lo = x[0::2], x[1::2]
    nw = (len(x) + 1) // 2
    s1 = 256 * sum(hi) + sum(lo)
    # sum of prefix sums: word k (0-based) is counted nw-k times
    s2 = 0
    all_zero = True
    k = 0
    for i in range(0, len(x), 2):
        w = (x[i] << 8) | (x[i + 1] if i + 1 < len(x) else 0)
        if w:
            all_zero = False
        s2 += (nw - k) * w
        k += 1
    f = lambda s, z: 0 if z else ((s - 1) % 65535) + 1
    return (f(s2, all_zero) << 16) | f(s1, s1 == 0)


def py_lzf_decode(data):
    """LZF decoder from the stream format (liblzf lzf_d.c): literal runs 000LLLLL; back references
    LLLooooo oooooooo (length 3..8) and 111ooooo LLLLLLLL oooooooo (length 9..264, length byte first)."""
    out = bytearray()
    i, n = 0, len(data)
    while i < n:
        c = data[i]
        i += 1
        if c < 32:
            run = c + 1
            if i + run > n:
                return None
            out += data[i:i + run]
            i += run
        else:
            ln = c >> 5
            if ln == 7:
                if i >= n:
                    return None
                ln += data[i]
                i += 1
            if i >= n:
                return None
            ref = len(out) - ((c & 0x1F) << 8) - data[i] - 1
            i += 1
            if ref < 0:
                return None
            for _ in range(ln + 2):
                out.append(out[ref])
                ref += 1
    return bytes(out)


def py_decode_pipeline(filters, enc):
    """Undo a pipeline on the implementation's bytes with the oracle only. Returns bytes or an error string."""
    cur = enc
    for f in reversed(filters):
        t = f["t"]
        if t == "deflate":
            if len(cur) < 2 or (cur[0] & 0x0F) != 8 or ((cur[0] << 8) | cur[1]) % 31 != 0:
                return "not a zlib stream (RFC 1950 header check fails): %s" % cur[:4].hex()
            try:
                cur = zlib.decompress(cur)
            except zlib.error as e:
                return "zlib.decompress failed: %s" % e
        elif t == "shuffle":
            if not cur:
                continue
            if len(cur) % f["esz"]:
                return "shuffled length not a multiple of the element size"
            cur = py_unshuffle(f["esz"], cur)
        elif t == "fletcher32":
            if len(cur) < 4:
                return "no room for a checksum"
            stored = struct.unpack("<I", cur[-4:])[0]
            if stored != py_fletcher32(cur[:-4]):
                return "stored Fletcher-32 %08x is not the HDF5 checksum %08x of the data" % (stored, py_fletcher32(cur[:-4]))
            cur = cur[:-4]
        elif t == "lzf":
            if cur:
                d = py_lzf_decode(cur)
                if d is None:
                    return "LZF stream does not decode"
                cur = d
    return cur


def py_message(filters):
    """The description message the writer is specified (by its own documentation/tests) to emit."""
    out = bytearray([2, len(filters) & 0xFF, 0, 0, 0, 0, 0, 0])
    for f in filters:
        t = f["t"]
        name = NAMES[t]
        cd = {"deflate": [norm_level(f.get("level", 0))], "shuffle": [f.get("esz", 0)], "fletcher32": [], "lzf": [0, 0, 0]}[t]
        out += struct.pack("<HHHH", IDS[t], len(name), 0, len(cd))
        out += name + b"\0" * ((-len(name)) % 8)
        for v in cd:
            out += struct.pack("<I", v)
    return bytes(out)


def norm_level(l):
    return l if 1 <= l <= 9 else 6


# --------------------------------------------------------------------------- generators
def gen_payload(rng, kind, n):
    if n == 0:
        return b""
    if kind == "random":
        return rng.randbytes(n)
    if kind == "zeros":
        return bytes(n)
    if kind == "ff":
        return b"\xff" * n
    if kind == "run":
        out = bytearray()
        while len(out) < n:
            out += bytes([rng.randrange(256)]) * rng.choice([1, 2, 3, 5, 9, 33, 264, 265, 300, 1000])
        return bytes(out[:n])
    if kind == "period":
        p = rng.choice([1, 2, 3, 4, 7, 8, 16, 255, 256, 257, 8191, 8192, 8193])
        unit = rng.randbytes(min(p, n))
        return (unit * (n // len(unit) + 1))[:n]
    if kind == "ramp":
        esz = rng.choice([2, 4, 8])
        out = bytearray()
        v = rng.randrange(1 << 16)
        while len(out) < n:
            out += (v & ((1 << (8 * esz)) - 1)).to_bytes(esz, "little")
            v += rng.choice([0, 1, 1, 2, 255])
        return bytes(out[:n])
    if kind == "text":
        words = [b"alpha", b"beta", b"gamma", b"hdf5", b"chunk", b" ", b"\n", b"0123456789"]
        out = bytearray()
        while len(out) < n:
            out += rng.choice(words)
        return bytes(out[:n])
    if kind == "sparse":
        out = bytearray(n)
        for _ in range(max(1, n // 50)):
            out[rng.randrange(n)] = rng.randrange(256)
        return bytes(out)
    raise ValueError(kind)


PAYLOAD_KINDS = ["random", "zeros", "ff", "run", "period", "ramp", "text", "sparse"]


def all_orders():
    """Every subset of the four filter kinds in every order (65 including the empty one)."""
    import itertools
    kinds = ["deflate", "shuffle", "fletcher32", "lzf"]
    out = []
    for k in range(0, 5):
        for sub in itertools.permutations(kinds, k):
            out.append(list(sub))
    return out


def inst(rng, kinds, esz=None, level=None):
    fs = []
    for t in kinds:
        if t == "deflate":
            fs.append({"t": t, "level": level if level is not None else rng.randrange(1, 10)})
        elif t == "shuffle":
            fs.append({"t": t, "esz": esz if esz is not None else rng.choice([1, 2, 4, 8, 3, 7, 16])})
        else:
            fs.append({"t": t})
    return fs


def code_of(ok, panic=False):
    return 2 if panic else (1 if ok else 0)


def ccase(f, inp, code, out):
    k = KIND[f["t"]]
    p = f.get("esz", 0) if k == 2 else (f.get("level", 0) if k == 1 else 0)
    return '(%d,%d,"%s",%d,"%s")' % (k, p, inp.hex(), code, out.hex())



# --------------------------------------------------------------------------- replay of one stored failing input
def replay_one(ctx, path):
    import json
    H = ctx.harness
    rp = json.load(open(path))
    d = rp.get("detail", rp)
    fi = d.get("failing_input")
    viol = []
    print("replay:", rp.get("what", d.get("what")))
    if fi is None:
        print("  no concrete failing input stored (model/implementation correspondence case):", str(d.get("case"))[:400])
        return dict(violations=[dict(what="replay file carries no failing input: " + str(rp.get("what")), nofail=True, case=d.get("case"))],
                    known=[], coverage=dict(evaluations=0, distinct_nontrivial=0, rule="replay", samples=[]))
    if "positions" in fi:                                   # altered stored chunk
        x = bytes.fromhex(fi["payload_hex"]); fs = fi["filters"]
        stored = bytes.fromhex(fi["stored"])
        multi = [[[p, stored[p] ^ v] for p, v in zip(fi["positions"], fi["values"])]]
        r = vlib.run_harness(H, "c08corrupt", [{"data": x.hex(), "filters": fs, "xors": [], "sets": [], "positions": [], "multi": multi}])[0]
        print("  implementation:", {k: r.get(k) for k in ("total", "writer_detected", "reader_detected", "misses")})
        mod = bytearray(stored)
        for p, v in zip(fi["positions"], fi["values"]):
            mod[p] = v
        exp = py_decode_pipeline(fs, bytes(mod))
        print("  specification (oracle decode of the altered chunk):", exp if isinstance(exp, str) else ("decodes to %d bytes, equal to payload: %s" % (len(exp), exp == x)))
        for m in r.get("misses", []):
            if (not m["writer_err"] and not m["writer_eq"]) or (not m["reader_err"] and not m["reader_eq"]) or (fs[-1]["t"] == "fletcher32" and isinstance(exp, str)):
                viol.append(dict(what=rp.get("what"), failing_input=fi, impl=m))
    elif "payload_hex" in fi:                               # payload x pipeline
        x = bytes.fromhex(fi["payload_hex"]); fs = fi["filters"]
        r = vlib.run_harness(H, "c08", [{"data": x.hex(), "filters": fs, "stages": len(x) <= 65536}])[0]
        show = {k: (v if not isinstance(v, str) or len(v) < 200 else v[:200] + "...") for k, v in r.items() if k not in ("stages",)}
        print("  implementation:", show)
        bad = []
        if r.get("apply_ok"):
            enc = bytes.fromhex(r["enc"])
            dec = py_decode_pipeline(fs, enc)
            print("  specification (oracle decode of the stored chunk):", dec if isinstance(dec, str) else "equal to payload: %s" % (dec == x))
            if dec != x:
                bad.append("stored chunk not in the specified format")
            if not r.get("remove_eq"):
                bad.append("writer Remove does not restore the payload")
            if fs and not r.get("reader_eq"):
                bad.append("reader does not decode the writer's chunk")
        if fs and (r.get("msg") != py_message(fs).hex() or not r.get("parse_ok")):
            bad.append("pipeline message")
        for b in bad:
            viol.append(dict(what=b, failing_input=fi, impl=show))
    elif "stored" in fi:                                    # malformed chunk through the reader
        f = fi["filter"]; stored = bytes.fromhex(fi["stored"])
        r = vlib.run_harness(H, "c08read", [{"msg": py_message([f]).hex(), "data": stored.hex()}])[0]
        exp = py_decode_pipeline([f], stored)
        print("  implementation:", r)
        print("  specification:", exp if isinstance(exp, str) else exp.hex())
        if r.get("reader_ok") and (isinstance(exp, str) or bytes.fromhex(r["reader"]) != exp):
            viol.append(dict(what=rp.get("what"), failing_input=fi, impl=r))
    elif "message" in fi:
        r = vlib.run_harness(H, "c08read", [{"msg": fi["message"], "data": ""}])[0]
        print("  implementation:", r)
        if "panic" in r:
            viol.append(dict(what=rp.get("what"), failing_input=fi, impl=r))
    elif "dtype" in fi:                                     # end to end
        c = dict(fi, dir=os.path.join(vlib.BUILD, "c08-e2e"))
        c.pop("flipped_offset", None); c.pop("chunk_offset", None)
        os.makedirs(c["dir"], exist_ok=True)
        r = vlib.run_harness(H, "c08e2e", [c])[0]
        print("  implementation:", {k: (v if k != "values" else v[:16]) for k, v in r.items()})
        print("  specification: values read back equal the values written:", r.get("values") == fi.get("values"))
        if r.get("values") != fi.get("values"):
            viol.append(dict(what=rp.get("what"), failing_input=fi, impl={k: v for k, v in r.items() if k != "values"}))
    else:
        print("  unrecognised failing input:", str(fi)[:300])
        viol.append(dict(what="unrecognised replay payload", nofail=True, case=fi))
    print("  verdict:", "still violated" if viol else "holds on this input")
    return dict(violations=viol, known=[], coverage=dict(evaluations=1, distinct_nontrivial=1, rule="replay of one stored case", samples=[fi if len(str(fi)) < 2000 else str(fi)[:2000]]))


# --------------------------------------------------------------------------- the check
def run(ctx):
    H, rng = ctx.harness, ctx.rng
    if getattr(ctx, "replay", None):
        return replay_one(ctx, ctx.replay)
    quick = ctx.tier == "quick"
    viol, known, samples = [], [], []
    t_start = time.time()
    build = os.path.join(vlib.BUILD, "c08-e2e")
    os.makedirs(build, exist_ok=True)

    def violation(what, **kw):
        if len(viol) < 40:
            viol.append(dict(what=what, **kw))

    # ------------------------------------------------------------------ A: payload x pipeline
    orders = all_orders()
    cases = []       # harness cases
    meta = []        # (payload, filters, class)
    small_sizes = [0, 1, 2, 3, 4, 5, 7, 8, 9, 15, 16, 17, 31, 32, 33, 34, 63, 64, 65, 100, 127, 128, 129, 255, 256, 257,
                   263, 264, 265, 266, 300, 511, 512, 513, 1000, 1024, 2048, 4096]
    reps = 1 if quick else 30
    for _ in range(reps):
        for kinds in orders:
            # one small payload per ordering that satisfies the shuffle precondition, one arbitrary
            esz = rng.choice([1, 2, 4, 8, 3, 7])
            for mode in ("multiple", "any"):
                n = rng.choice(small_sizes)
                if mode == "multiple":
                    n -= n % esz
                x = gen_payload(rng, rng.choice(PAYLOAD_KINDS), n)
                fs = inst(rng, kinds, esz=esz)
                cases.append({"data": x.hex(), "filters": fs, "stages": True})
                meta.append((x, fs, "small"))
    # explicit boundary payloads for every single filter and every deflate level
    for n in [0, 1, 2, 3, 4, 5, 6, 7, 8]:
        x = gen_payload(rng, "random", n)
        for fs in ([{"t": "shuffle", "esz": e}] for e in (0, 1, 2, 3, 4, 8)):
            cases.append({"data": x.hex(), "filters": fs, "stages": True}); meta.append((x, fs, "boundary"))
        for fs in ([{"t": "fletcher32"}], [{"t": "lzf"}]):
            cases.append({"data": x.hex(), "filters": fs, "stages": True}); meta.append((x, fs, "boundary"))
    for level in list(range(1, 10)) + [0, 10, 255]:
        x = gen_payload(rng, rng.choice(PAYLOAD_KINDS), rng.choice([0, 1, 100, 5000]))
        fs = [{"t": "deflate", "level": level}]
        cases.append({"data": x.hex(), "filters": fs, "stages": True}); meta.append((x, fs, "levels"))
    # repeated filters
    for _ in range(10 if quick else 100):
        kinds = [rng.choice(["deflate", "shuffle", "fletcher32", "lzf"]) for _ in range(rng.randrange(2, 7))]
        esz = rng.choice([1, 2, 4])
        x = gen_payload(rng, rng.choice(PAYLOAD_KINDS), rng.choice([0, 4, 64, 1000]) // esz * esz)
        fs = inst(rng, kinds, esz=esz)
        cases.append({"data": x.hex(), "filters": fs, "stages": True}); meta.append((x, fs, "repeated"))
    # LZF structure: long matches, window edge (offsets around 8192), literal runs around 32
    lzf_special = []
    for n, kind in [(8190, "random"), (8300, "random")]:
        unit = gen_payload(rng, kind, n)
        lzf_special.append(unit + unit[:600])
    # repeat distance exactly at the window limit: implementation + oracle only (too long for the model transport)
    for n in (8191, 8192, 8193, 8194):
        unit = gen_payload(rng, "random", n)
        x = unit + unit[:300]
        cases.append({"data": x.hex(), "filters": [{"t": "lzf"}]}); meta.append((x, [{"t": "lzf"}], "lzf-window"))
    lzf_special.append(gen_payload(rng, "random", 40) + bytes(9000) + gen_payload(rng, "random", 40))
    lzf_special.append((b"abc" * 400) + gen_payload(rng, "random", 33) + (b"abc" * 100))
    for x in lzf_special[: (3 if quick else 4)]:
        fs = [{"t": "lzf"}]
        cases.append({"data": x.hex(), "filters": fs, "stages": True}); meta.append((x, fs, "lzf-structure"))
    for _ in range(40 if quick else 600):
        x = gen_payload(rng, rng.choice(["run", "period", "text", "ramp", "sparse", "random"]), rng.choice([10, 100, 700, 2000, 3000]))
        fs = [{"t": "lzf"}]
        cases.append({"data": x.hex(), "filters": fs, "stages": True}); meta.append((x, fs, "lzf"))
    # large payloads: implementation + oracle only
    big = [1 << 20] if quick else [1 << 20, (1 << 22) - 8, 1 << 22]
    bigsets = [["shuffle", "deflate", "fletcher32"], ["lzf"], ["shuffle", "lzf", "fletcher32"], ["fletcher32", "deflate"],
               ["deflate", "lzf", "shuffle", "fletcher32"]]
    for n in big:
        for kinds in (bigsets if not quick else bigsets[:4]):
            x = gen_payload(rng, rng.choice(["random", "ramp", "period", "run", "zeros"]), n)
            fs = inst(rng, kinds, esz=rng.choice([4, 8]))
            cases.append({"data": x.hex(), "filters": fs})
            meta.append((x, fs, "large"))
    # maximally compressible large chunks at every deflate strength (the stored chunk is ~1000x smaller than the payload:
    # any reader-side limit derived from the stored size must still admit what the writer produced; seeded change C08-c)
    for n in ([1 << 20, 1 << 21] if quick else [1 << 20, 1 << 21, 1 << 22, 1 << 24]):
        for level in ([1, 4, 6, 9] if quick else range(1, 10)):
            for kind in ("zeros", "ff"):
                x = gen_payload(rng, kind, n)
                fs = [{"t": "deflate", "level": level}]
                if level in (6,):
                    fs = [{"t": "shuffle", "esz": 8}] + fs + [{"t": "fletcher32"}]
                cases.append({"data": x.hex(), "filters": fs})
                meta.append((x, fs, "large"))
    for n in [65536, 100000 // 8 * 8, 300000 // 8 * 8]:
        for kinds in rng.sample(orders[1:], 4 if quick else 20):
            x = gen_payload(rng, rng.choice(PAYLOAD_KINDS), n)
            fs = inst(rng, kinds, esz=rng.choice([2, 4, 8]))
            cases.append({"data": x.hex(), "filters": fs}); meta.append((x, fs, "medium"))
    # filters the writer cannot encode: must be refused, never silently stored
    for t in ("bzip2", "szip"):
        cases.append({"data": "00010203", "filters": [{"t": t, "level": 9}]}); meta.append((b"\0\1\2\3", [{"t": t}], "unsupported"))

    res = vlib.run_harness_parallel(H, "c08", cases, workers=8)
    evaluations = len(cases)
    coq_stage, coq_rstep, coq_msg = [], [], []
    seen_stage = set()
    class_hist, size_hist, pipe_hist = {}, {}, {}
    accepted = rejected = 0
    for (x, fs, cls), c, r in zip(meta, cases, res):
        class_hist[cls] = class_hist.get(cls, 0) + 1
        b = 0 if not x else len(x).bit_length()
        size_hist["2^%d" % b] = size_hist.get("2^%d" % b, 0) + 1
        key = "+".join(f["t"] for f in fs) or "(none)"
        pipe_hist[key] = pipe_hist.get(key, 0) + 1
        rep = dict(payload_len=len(x), payload_hex=x.hex(), filters=fs)
        if "panic" in r or any(k.endswith("_panic") for k in r):
            violation("a filter call panicked", failing_input=rep, impl={k: v for k, v in r.items() if "panic" in k})
            continue
        if "harness_error" in r:
            raise RuntimeError("harness: %s" % r["harness_error"])
        if cls == "unsupported":
            if r.get("apply_ok"):
                violation("writer claims to have encoded a chunk with %s" % fs[0]["t"], failing_input=rep, impl=r)
            continue
        # specification of acceptance: only shuffle has a precondition (checked stage by stage by the oracle below)
        if r.get("input_mutated"):
            violation("Apply modified the caller's buffer", failing_input=rep)
        # message (non-empty pipelines)
        if fs:
            exp_msg = py_message(fs)
            if r.get("msg_err") or bytes.fromhex(r.get("msg", "")) != exp_msg:
                violation("pipeline message differs from the documented layout", failing_input=rep,
                          impl=r.get("msg"), spec=exp_msg.hex())
            if not r.get("parse_ok"):
                violation("reader cannot parse the writer's pipeline message: %s" % r.get("parse_err"), failing_input=rep, impl=r.get("msg"))
            else:
                got = [(p["id"], bytes.fromhex(p["name"]), p["flags"], p["cd"]) for p in r["parsed"]]
                want = [(IDS[f["t"]], NAMES[f["t"]], 0,
                         {"deflate": [norm_level(f.get("level", 0))], "shuffle": [f.get("esz", 0)], "fletcher32": [], "lzf": [0, 0, 0]}[f["t"]]) for f in fs]
                if got != want:
                    violation("reader parses the writer's pipeline message into a different filter list", failing_input=rep, impl=got, spec=want)
            if len(coq_msg) < (150 if quick else 1500) and all(f["t"] in KIND for f in fs):
                coq_msg.append(("[%s]" % ";".join("(%d,%d)" % (KIND[f["t"]], f.get("esz", f.get("level", 0))) for f in fs), r.get("msg", "")))
        # expected acceptance from the oracle: walk the stages
        if not r.get("apply_ok"):
            rejected += 1
            # the writer may refuse only when a shuffle stage meets a length that is not a multiple
            ok_to_refuse = False
            lens = [len(x)] + list(r.get("stage_lens") or [])
            for i, f in enumerate(fs):
                if i >= len(lens):
                    break
                if f["t"] == "shuffle" and lens[i] and (f["esz"] == 0 or lens[i] % f["esz"]):
                    ok_to_refuse = i == len(lens) - 1      # the refusing stage is exactly that shuffle
                    break
            if not ok_to_refuse:
                violation("writer refused a payload that meets every filter's precondition: %s" % r.get("apply_err"), failing_input=rep)
            # model agrees on the failing stage (deflate-free prefix only)
            st = r.get("stages") or []
            cur = x
            for i, f in enumerate(fs):
                if i < len(st):
                    nxt = bytes.fromhex(st[i])
                    if f["t"] != "deflate" and len(cur) <= 4096 and (f["t"], cur) not in seen_stage:
                        seen_stage.add((f["t"], cur)); coq_stage.append((ccase(f, cur, 1, nxt), f, cur))
                    cur = nxt
                else:
                    if f["t"] != "deflate" and len(cur) <= 4096:
                        coq_stage.append((ccase(f, cur, 0, b""), f, cur))
                    break
            continue
        accepted += 1
        enc = bytes.fromhex(r["enc"]) if "enc" in r else None
        # writer round trip and reader on the writer's bytes
        if not r.get("remove_ok") or not r.get("remove_eq"):
            violation("writer Remove does not restore the payload its Apply encoded: %s" % r.get("remove_err"), failing_input=rep,
                      impl=dict(remove=r.get("remove"), err=r.get("remove_err")))
        if fs and r.get("parse_ok") and (not r.get("reader_ok") or not r.get("reader_eq")):
            violation("reader does not decode what the writer encoded: %s" % r.get("reader_err"), failing_input=rep,
                      impl=dict(reader=r.get("reader"), err=r.get("reader_err")))
        # oracle on the stored bytes (container formats)
        if enc is not None:
            dec = py_decode_pipeline(fs, enc)
            if dec != x:
                violation("stored chunk is not in the specified container format: %s" % (dec if isinstance(dec, str) else "oracle decodes different data"),
                          failing_input=rep, impl=enc[:64].hex())
        # stages -> Coq
        st = r.get("stages")
        if st is not None and len(st) == len(fs):
            cur = x
            for f, s in zip(fs, st):
                nxt = bytes.fromhex(s)
                if f["t"] == "deflate":
                    try:
                        if zlib.decompress(nxt) != cur:
                            violation("deflate stage output does not inflate to its input", failing_input=rep)
                    except zlib.error as e:
                        violation("deflate stage output is not a zlib stream: %s" % e, failing_input=rep, impl=nxt[:16].hex())
                else:
                    lim = 12000 if f["t"] == "lzf" else 4096
                    if len(cur) <= lim and (f["t"], f.get("esz"), cur) not in seen_stage:
                        seen_stage.add((f["t"], f.get("esz"), cur))
                        coq_stage.append((ccase(f, cur, 1, nxt), f, cur))
                cur = nxt
        if len(samples) < 6 and cls in ("small", "lzf", "repeated") and len(x) <= 64:
            samples.append(dict(payload=x.hex(), filters=fs, encoded=r.get("enc"), message=r.get("msg")))

    # ------------------------------------------------------------------ D: malformed chunk streams (reader and writer Remove)
    mal_cases, mal_meta = [], []
    def add_mal(f, stored):
        mal_cases.append({"msg": py_message([f]).hex(), "data": stored.hex()})
        mal_meta.append((f, stored))
    nmal = 250 if quick else 4000
    for _ in range(nmal):
        which = rng.random()
        if which < 0.55:
            f = {"t": "lzf"}
            base = rng.choice(lzf_special[2:] + [gen_payload(rng, rng.choice(["run", "text", "period", "random"]), rng.choice([5, 40, 300]))])
            base = base[:200]
            m = rng.random()
            if m < 0.3:
                stored = rng.randbytes(rng.choice([1, 2, 3, 5, 20, 100]))
            else:
                # a valid stream (from the oracle's point of view: literal-only encoding) damaged
                lit = bytearray()
                for i in range(0, len(base), 32):
                    ch = base[i:i + 32]
                    lit += bytes([len(ch) - 1]) + ch
                    if rng.random() < 0.3 and len(lit) > 40:
                        off = rng.randrange(1, 40); ln = rng.randrange(3, 270)
                        lit += (bytes([((ln - 2) << 5) | ((off - 1) >> 8), (off - 1) & 0xFF]) if ln <= 8
                                else bytes([0xE0 | ((off - 1) >> 8), min(ln - 9, 255), (off - 1) & 0xFF]))
                stored = bytes(lit)
                if m < 0.6:
                    stored = stored[:rng.randrange(len(stored) + 1)]
                elif m < 0.85 and stored:
                    s2 = bytearray(stored); s2[rng.randrange(len(s2))] = rng.randrange(256); stored = bytes(s2)
            add_mal(f, stored)
        elif which < 0.8:
            f = {"t": "fletcher32"}
            x = gen_payload(rng, rng.choice(PAYLOAD_KINDS), rng.choice([0, 1, 2, 3, 4, 5, 64, 65]))
            stored = bytearray(x + struct.pack("<I", py_fletcher32(x)))
            m = rng.random()
            if m < 0.5 and stored:
                stored[rng.randrange(len(stored))] ^= rng.randrange(1, 256)
            elif m < 0.7:
                stored = stored[:rng.randrange(0, 6)]
            add_mal(f, bytes(stored))
        else:
            f = {"t": "shuffle", "esz": rng.choice([1, 2, 3, 4, 8, 16, 1000])}
            add_mal(f, gen_payload(rng, "random", rng.choice([0, 1, 2, 3, 4, 6, 8, 9, 12, 16, 17, 24])))
    mal_res = vlib.run_harness(H, "c08read", mal_cases)
    evaluations += len(mal_cases)
    mal_err = 0
    for (f, stored), r in zip(mal_meta, mal_res):
        if "panic" in r:
            violation("reader panicked on a malformed chunk", failing_input=dict(filter=f, stored=stored.hex()), impl=r["panic"])
            continue
        if not r.get("parse_ok"):
            violation("reader cannot parse a single-filter message", failing_input=dict(filter=f), impl=r)
            continue
        ok = r.get("reader_ok")
        mal_err += 0 if ok else 1
        out = bytes.fromhex(r.get("reader", "")) if ok else b""
        coq_rstep.append((ccase(f, stored, code_of(ok), out), f, stored))
        # oracle: a value is only acceptable if the stream really decodes to it
        if ok:
            exp = py_decode_pipeline([f], stored)
            if exp != out:
                violation("reader returned data for a chunk the format does not decode to", failing_input=dict(filter=f, stored=stored.hex()),
                          impl=out.hex(), spec=(exp if isinstance(exp, str) else exp.hex()))

    # malformed / foreign description messages: parser correspondence
    pm_cases, pm_meta = [], []
    def v1_message(fl):
        out = bytearray([1, len(fl), 0, 0, 0, 0, 0, 0])
        for (fid, name, flags, cd) in fl:
            nm = name + b"\0" if name else b""
            nm += b"\0" * ((-len(nm)) % 8)
            out += struct.pack("<HHHH", fid, len(nm), flags, len(cd)) + nm
            for v in cd:
                out += struct.pack("<I", v)
            if len(cd) % 2:
                out += b"\0\0\0\0"
        return bytes(out)
    def v2_message(fl):
        out = bytearray([2, len(fl)])
        for (fid, name, flags, cd) in fl:
            out += struct.pack("<H", fid)
            if fid >= 256:
                out += struct.pack("<H", len(name))
            out += struct.pack("<HH", flags, len(cd))
            if fid >= 256:
                out += name
            for v in cd:
                out += struct.pack("<I", v)
        return bytes(out)
    std = [(1, b"deflate", 0, [6]), (2, b"shuffle", 0, [4]), (3, b"fletcher32", 0, []), (2, b"", 1, [8]), (1, b"", 0, [9]),
           (32000, b"lzf", 1, [4, 0, 4096]), (307, b"bzip2", 0, [9]), (4, b"szip", 0, [141, 32, 0, 0])]
    npm = 250 if quick else 4000
    for _ in range(npm):
        fl = [rng.choice(std) for _ in range(rng.randrange(0, 4))]
        kind = rng.random()
        if kind < 0.3:
            m = v1_message(fl)
        elif kind < 0.55:
            m = v2_message([f for f in fl if f[0] < 256] if rng.random() < 0.7 else fl)
        elif kind < 0.8:
            fs_ = inst(rng, [rng.choice(["deflate", "shuffle", "fletcher32", "lzf"]) for _ in range(rng.randrange(1, 5))])
            m = py_message(fs_)
        else:
            m = rng.randbytes(rng.randrange(0, 40))
            if m and rng.random() < 0.7:
                m = bytes([rng.choice([1, 2]), rng.randrange(0, 4)]) + m[2:]
        if kind < 0.3 and len(m) >= 12 and rng.random() < 0.15:
            # name length near 65535: the padded length must not wrap around 16 bits
            b2 = bytearray(m); b2[10:12] = struct.pack("<H", rng.choice([0xFFFF, 0xFFF9, 0xFFF8, 0xFFF1])); m = bytes(b2)
        mm = rng.random()
        if mm < 0.25:
            m = m[:rng.randrange(len(m) + 1)]
        elif mm < 0.45 and m:
            b2 = bytearray(m); b2[rng.randrange(len(b2))] = rng.choice([0, 1, 2, 255, rng.randrange(256)]); m = bytes(b2)
        pm_cases.append({"msg": m.hex(), "data": ""}); pm_meta.append(m)
    pm_res = vlib.run_harness(H, "c08read", pm_cases)
    evaluations += len(pm_cases)
    coq_parse = []
    for m, r in zip(pm_meta, pm_res):
        if "panic" in r:
            violation("ParseFilterPipelineMessage panicked", failing_input=dict(message=m.hex()), impl=r["panic"])
            continue
        if r.get("parse_ok"):
            gs = ";".join('(%d,%d,%d,%d,"%s",[%s])' % (p["id"], p["namelen"], p["flags"], p["ncd"], p["name"], ";".join(str(v) for v in p["cd"]))
                          for p in r["parsed"])
            nf = m[1]
            coq_parse.append(('("%s",1,%d,%d,[%s])' % (m.hex(), r["parsed_version"], nf, gs), m))
        else:
            coq_parse.append(('("%s",0,0,0,[])' % m.hex(), m))

    # foreign descriptions (optional flag, LZF size hint in cd[2], unknown ids) x chunk: reader_apply correspondence
    rd_cases, coq_read = [], []
    nfree = [(2, b"shuffle", 0, [4]), (2, b"", 1, [8]), (2, b"shuffle", 1, [3]), (3, b"fletcher32", 0, []), (3, b"", 1, []),
             (32000, b"lzf", 0, [4, 0, 0]), (32000, b"lzf", 1, [4, 0, 64]), (32000, b"lzf", 0, [4, 0, 16]), (999, b"x", 1, []), (999, b"", 0, [1]),
             (32000, b"lzf", 0, [4, 0, (1 << 30) + 1]), (32000, b"lzf", 1, [4, 0, 0xFFFFFFFF])]   # size hint above utils.MaxChunkSize: error
    for _ in range(150 if quick else 3000):
        fl = [rng.choice(nfree) for _ in range(rng.randrange(1, 4))]
        m = v1_message(fl) if rng.random() < 0.6 else v2_message([f for f in fl if f[0] < 256] or [nfree[0]])
        k = rng.random()
        x = gen_payload(rng, rng.choice(["zeros", "text", "random", "run"]), rng.choice([0, 3, 8, 16, 24, 64]))
        if k < 0.4:
            data = x
        elif k < 0.7:
            data = x + struct.pack("<I", py_fletcher32(x))
        else:
            lit = bytearray()
            for i in range(0, len(x), 32):
                lit += bytes([len(x[i:i + 32]) - 1]) + x[i:i + 32]
            data = bytes(lit)
        rd_cases.append({"msg": m.hex(), "data": data.hex()})
    rd_res = vlib.run_harness(H, "c08read", rd_cases)
    evaluations += len(rd_cases)
    for c, r in zip(rd_cases, rd_res):
        if "panic" in r:
            violation("reader panicked", failing_input=dict(message=c["msg"], stored=c["data"]), impl=r["panic"]); continue
        if not r.get("parse_ok"):
            continue
        coq_read.append(('("%s","%s",%d,"%s")' % (c["msg"], c["data"], code_of(r.get("reader_ok")), r.get("reader", "") if r.get("reader_ok") else ""), c))

    # ------------------------------------------------------------------ C: corruption
    cor_cases, cor_meta = [], []
    ncor = 54 if quick else 5000
    for i in range(ncor):
        n = rng.choice([0, 1, 2, 3, 4, 5, 8, 16, 31, 33, 64, 100, 200, 256, 400, 507, 508])
        esz = rng.choice([1, 2, 4])
        n -= n % esz
        x = gen_payload(rng, rng.choice(PAYLOAD_KINDS), n)
        if i % 3 == 0:
            kinds = ["fletcher32"]
        else:
            pre = [rng.choice(["shuffle", "lzf", "deflate", "fletcher32"]) for _ in range(rng.randrange(0, 3))]
            if i % 3 == 1:
                kinds = pre + ["fletcher32"]              # Fletcher outermost
            else:
                kinds = ["fletcher32"] + [k for k in pre if k != "fletcher32"][:2] or ["fletcher32"]   # Fletcher innermost
                if kinds == ["fletcher32"]:
                    kinds = ["fletcher32", "shuffle"]
        fs = inst(rng, kinds, esz=esz)
        multi = []
        for _ in range(40 if quick else 200):
            k = rng.randrange(2, 5)
            multi.append([[rng.randrange(0, max(1, n + 4)), rng.randrange(1, 256)] for _ in range(k)])
        if kinds == ["fletcher32"] and n > 0:
            # the stored trailer replaced by TRANSFORMS of the right checksum (bytes of each 16-bit sum swapped, the two sums
            # exchanged, all four bytes reversed, +-1, complement): "verify" is exact equality in the model; an implementation that
            # accepts an equivalent spelling of the checksum lets crafted single-byte alterations through (seeded change C08-e)
            t = struct.pack("<I", py_fletcher32(x))
            for t2 in (bytes([t[1], t[0], t[3], t[2]]), t[2:] + t[:2], t[::-1], bytes([t[3], t[2], t[1], t[0]]),
                       struct.pack("<I", (py_fletcher32(x) + 1) & 0xFFFFFFFF), struct.pack("<I", (py_fletcher32(x) - 1) & 0xFFFFFFFF),
                       bytes(b ^ 0xFF for b in t), bytes([t[1], t[0], t[2], t[3]]), bytes([t[0], t[1], t[3], t[2]])):
                m = [[n + j, t[j] ^ t2[j]] for j in range(4) if t[j] != t2[j]]
                if m:
                    multi.append(m)
        cor_cases.append({"data": x.hex(), "filters": fs, "xors": [1, 0x80, 0xFF], "sets": [0, 255], "multi": multi})
        cor_meta.append((x, fs))
    # crafted chunks: 8-byte payloads whose two sums have low byte = high byte + 1 (sum1) and low - high = distance (sum2), so that ONE
    # byte going 0x00 -> 0xff turns both sums into their byte-swapped spelling: only an exact comparison of the checksum detects it
    for wpos in range(4):
        for _ in range(3):
            h1 = rng.randrange(1, 250); h2 = rng.randrange(1, 240)
            k = 4 - wpos                                   # weight of word wpos in the second sum (4 words)
            want1 = (h1 << 8) | (h1 + 1)                   # sum1 before the alteration
            want2 = (h2 << 8) | ((h2 + k) & 0xFF) if h2 + k < 256 else None
            if want2 is None:
                continue
            # words w0..w3 with w[wpos] having low byte 0; solve w_a, w_b (two other positions) for the two sums mod 65535
            words = [0, 0, 0, 0]
            words[wpos] = rng.randrange(1, 200) << 8
            others = [i for i in range(4) if i != wpos]
            a, b, c = others
            words[c] = rng.randrange(0, 65535)
            ka, kb = 4 - a, 4 - b
            r1 = (want1 - sum(words)) % 65535
            r2 = (want2 - sum((4 - i) * words[i] for i in range(4))) % 65535
            # wa + wb = r1 ; ka*wa + kb*wb = r2  (mod 65535)  ->  (ka-kb)*wa = r2 - kb*r1
            d = (ka - kb) % 65535
            try:
                wa = ((r2 - kb * r1) * pow(d, -1, 65535)) % 65535
            except ValueError:
                continue
            wb = (r1 - wa) % 65535
            words[a], words[b] = wa, wb
            x = b"".join(struct.pack(">H", w) for w in words)
            f = py_fletcher32(x)
            if (f & 0xFFFF) != want1 or (f >> 16) != want2:
                continue
            fs = inst(rng, ["fletcher32"], esz=1)
            cor_cases.append({"data": x.hex(), "filters": fs, "xors": [0xFF, 1], "sets": [0, 255], "multi": []})
            cor_meta.append((x, fs))
    cor_res = vlib.run_harness_parallel(H, "c08corrupt", cor_cases, workers=8)
    corruptions = 0
    outer_total = inner_total = multi_collisions = 0
    coq_cor = []
    inner_lzf_misses = []
    cor_refused = 0
    for (x, fs), r in zip(cor_meta, cor_res):
        rep = dict(payload_hex=x.hex(), filters=fs)
        if "panic" in r:
            violation("corruption run panicked", failing_input=rep, impl=r["panic"]); continue
        if r.get("apply_err") and any(f["t"] == "shuffle" for f in fs[1:]) and "not multiple" in r["apply_err"]:
            cor_refused += 1          # a shuffle stage met a compressed length that is not a multiple: legitimately refused
            continue
        if r.get("apply_err") or r.get("msg_err") or r.get("parse_err"):
            violation("Fletcher-protected pipeline could not be set up: %s" % r, failing_input=rep); continue
        if not r.get("clean_ok"):
            violation("unaltered Fletcher-protected chunk does not decode", failing_input=rep, impl=r); continue
        enc = bytes.fromhex(r["enc"])
        if len(enc) > 512 + 64:
            continue
        corruptions += r["total"]
        outermost = fs[-1]["t"] == "fletcher32"
        if outermost:
            outer_total += r["total"]
        else:
            inner_total += r["total"]
        for m in r["misses"]:
            alt = dict(rep, stored=enc.hex(), positions=m["pos"], values=m["val"])
            if m.get("panic"):
                violation("decoding an altered chunk panicked", failing_input=alt, impl=m["panic"]); continue
            mod = bytearray(enc)
            for p, v in zip(m["pos"], m["val"]):
                mod[p] = v
            if outermost:
                # oracle: the stored checksum no longer matches unless the alteration is a genuine Fletcher collision
                stored = struct.unpack("<I", bytes(mod[-4:]))[0]
                collide = stored == py_fletcher32(bytes(mod[:-4]))
                if collide and len(m["pos"]) > 1:
                    multi_collisions += 1
                    continue
                side = "writer Remove" if not m["writer_err"] else "reader ApplyFilters"
                violation("%s accepts an altered Fletcher-32-protected chunk (%d byte(s) changed)" % (side, len(m["pos"])), failing_input=alt,
                          impl=dict(writer_err=m["writer_err"], reader_err=m["reader_err"]))
            else:
                # Fletcher inside other filters: an alteration may be invisible to the outer decoder, but data must never differ
                if (not m["writer_err"] and not m["writer_eq"]) or (not m["reader_err"] and not m["reader_eq"]):
                    last_fl = max(i for i, f in enumerate(fs) if f["t"] == "fletcher32")
                    if any(f["t"] == "lzf" for f in fs[last_fl + 1:]):
                        inner_lzf_misses.append(alt)      # finding C08-fletcher-not-outermost-lzf
                    else:
                        violation("an altered chunk decodes to different data without an error", failing_input=alt, impl=m)
        # a sample of single-byte alterations through the model
        if outermost and len(coq_cor) < (300 if quick else 3000) and len(enc) <= 300:
            for _ in range(12):
                p = rng.randrange(len(enc)); v = rng.choice([enc[p] ^ 1, enc[p] ^ 0x80, enc[p] ^ 0xFF, 0, 255])
                if v == enc[p]:
                    continue
                mod = bytearray(enc); mod[p] = v
                coq_cor.append((ccase({"t": "fletcher32"}, bytes(mod), 0, b""), None, bytes(mod)))
    evaluations += corruptions
    # the listed finding is re-confirmed on its committed witness every run
    wit = vlib.run_harness(H, "c08corrupt", [{"data": "00" * 40, "filters": [{"t": "fletcher32"}, {"t": "lzf"}], "xors": [], "sets": [29],
                                              "positions": [4], "multi": []}])[0]
    wit_repro = bool(wit.get("misses")) and not wit["misses"][0]["writer_err"] and not wit["misses"][0]["reader_err"] and not wit["misses"][0]["reader_eq"]
    kf = [k for k in vlib.known_findings("C08") if k["id"] == "C08-fletcher-not-outermost-lzf"]
    if wit_repro or inner_lzf_misses:
        if kf:
            known.append("Fletcher-32 not outermost with an LZF stage after it: an altered stored byte is decoded to different data without an error "
                         "(witness [fletcher32,lzf], 40 zero bytes, stored length byte 4 33->29 reproduced=%s; %d further generated alterations) (%s)"
                         % (wit_repro, len(inner_lzf_misses), kf[0]["id"]))
        else:
            violation("an altered Fletcher-32-protected chunk decodes to different data without an error (Fletcher-32 not outermost, LZF after it)",
                      failing_input=(inner_lzf_misses[0] if inner_lzf_misses else dict(payload_hex="00" * 40, filters=[{"t": "fletcher32"}, {"t": "lzf"}],
                                                                                           stored=wit.get("enc"), positions=[4], values=[29])),
                      impl=wit.get("misses"))
    elif kf:
        known_stale = "finding %s is listed but did not reproduce" % kf[0]["id"]
        samples.append(dict(note=known_stale))

    # ------------------------------------------------------------------ E: end to end
    e2e_cases, e2e_meta = [], []
    ne2e = 40 if quick else 400
    optsets = [["deflate"], ["shuffle"], ["fletcher32"], ["shuffle", "deflate"], ["deflate", "fletcher32"], ["shuffle", "deflate", "fletcher32"],
               ["fletcher32", "deflate"], ["deflate", "shuffle"], ["fletcher32", "shuffle", "deflate"], ["deflate", "deflate"], ["shuffle", "fletcher32"]]
    for i in range(ne2e):
        dtype = rng.choice(["int32", "int64", "float32", "float64"])
        if rng.random() < 0.6:
            dims = [rng.choice([1, 2, 7, 10, 64, 100, 1000])]
            chunk = [rng.choice([1, 2, 3, 4, 10, 64, 128])]
        else:
            dims = [rng.choice([1, 3, 8, 20]), rng.choice([1, 4, 6, 33])]
            chunk = [rng.choice([1, 2, 4, 8]), rng.choice([1, 2, 3, 16])]
        chunk = [min(c, d) for c, d in zip(chunk, dims)]
        nel = 1
        for d in dims:
            nel *= d
        style = rng.choice(["ramp", "const", "rand"])
        if dtype.startswith("int"):
            lim = (1 << 31) - 1 if dtype == "int32" else (1 << 52)
            vals = [float({"ramp": k - 5, "const": 7, "rand": rng.randrange(-lim, lim)}[style]) for k in range(nel)]
        else:
            vals = [{"ramp": k * 0.5, "const": -1.25, "rand": float(rng.randrange(-1 << 20, 1 << 20)) / 64.0}[style] for k in range(nel)]
        opts = inst(rng, optsets[i % len(optsets)])
        for o in opts:
            o.pop("esz", None)
        sb = rng.choice([2, 2, 2, 0, 3])
        e2e_cases.append({"dir": build, "dtype": dtype, "dims": dims, "chunk": chunk, "values": vals, "opts": opts, "sb": sb})
        e2e_meta.append(vals)
    # controls without filters (a failure there belongs to another property)
    ctrl_cases = [dict(c, opts=[]) for c in e2e_cases]
    e2e_res = vlib.run_harness_parallel(H, "c08e2e", e2e_cases, workers=8)
    ctrl_res = vlib.run_harness_parallel(H, "c08e2e", ctrl_cases, workers=8)
    evaluations += len(e2e_cases)
    e2e_ok = e2e_skipped = 0
    for c, vals, r, cr in zip(e2e_cases, e2e_meta, e2e_res, ctrl_res):
        rep = {k: c[k] for k in ("dtype", "dims", "chunk", "opts", "sb", "values")}
        if cr.get("values") != vals:
            e2e_skipped += 1      # the unfiltered dataset already fails: not a filter matter
            continue
        if "panic" in r:
            violation("end-to-end filtered dataset: panic", failing_input=rep, impl=r["panic"]); continue
        err = next((r[k] for k in ("create_err", "dataset_err", "write_err", "close_err", "open_err", "read_err") if k in r), None)
        if err is not None:
            violation("dataset written with filter options cannot be read back by the library: %s" % err, failing_input=rep, impl=r)
        elif r.get("values") != vals:
            violation("dataset written with filter options reads back different values", failing_input=rep,
                      impl=(r.get("values") or [])[:16], spec=vals[:16])
        else:
            e2e_ok += 1
    # one flipped byte inside a stored chunk of a Fletcher-protected dataset
    flips = 0
    for j in range(6 if quick else 40):
        vals = [float(rng.randrange(-1000, 1000)) for _ in range(12)]
        pre = rng.choice([[], [{"t": "shuffle"}], [{"t": "deflate", "level": rng.randrange(1, 10)}]])
        c = {"dir": build, "dtype": "int32", "dims": [12], "chunk": [4], "values": vals, "opts": pre + [{"t": "fletcher32"}], "sb": 2, "keep": True}
        r = vlib.run_harness(H, "c08e2e", [c])[0]
        path = r.get("path")
        try:
            if r.get("values") != vals or not path:
                violation("Fletcher-protected dataset does not read back", failing_input=c, impl=r); continue
            raw = struct.pack("<4i", *[int(v) for v in vals[:4]])
            wfs = [dict(o, esz=4) if o["t"] == "shuffle" else o for o in c["opts"]]
            enc = bytes.fromhex(vlib.run_harness(H, "c08", [{"data": raw.hex(), "filters": wfs}])[0]["enc"])
            blob = bytearray(open(path, "rb").read())
            at = blob.find(enc)
            if at < 0:
                violation("stored chunk not found in the file (encoding of the first chunk differs from the writer pipeline)", failing_input=c)
                continue
            pos = at + rng.randrange(len(enc))
            blob[pos] ^= rng.choice([1, 0x80, 0xFF])
            open(path, "wb").write(bytes(blob))
            fr = vlib.run_harness(H, "c08file", [{"path": path}])[0]
            d = (fr.get("datasets") or {}).get("/d") or next(iter((fr.get("datasets") or {}).values()), {})
            flips += 1
            if d.get("panic"):
                violation("reading a file with one altered chunk byte panicked", failing_input=dict(c, flipped_offset=pos), impl=d["panic"])
            elif not d.get("err") and not fr.get("open_err"):
                violation("a file whose Fletcher-32-protected chunk has one altered byte reads without error",
                          failing_input=dict(c, flipped_offset=pos, chunk_offset=at), impl=d)
        finally:
            if path and os.path.exists(path):
                os.remove(path)
    evaluations += flips
    # chunks written by the reference C library must verify (guards the checksum definition)
    ref_checked = 0
    refs = [("testdata/hdf5_official/tfilters.h5", "/fletcher32", 200),
            ("testdata/hdf5_official/h5ex_d_lzf.h5", "/DS1", 2048)]      # LZF stream written by the reference filter (long back references)
    for rel, ds, n in refs:
        p = os.path.join(vlib.REPO, rel)
        if not os.path.exists(p):
            continue
        fr = vlib.run_harness(H, "c08file", [{"path": p}])[0]
        d = (fr.get("datasets") or {}).get(ds)
        if d is None:
            continue
        ref_checked += 1
        if d.get("err") or d.get("n") != n:
            violation("filtered chunks written by the reference library no longer verify/read: %s" % d.get("err"),
                      failing_input=dict(file=rel, dataset=ds), impl=d)

    # ------------------------------------------------------------------ Coq: model vs implementation
    # transport of byte strings into Coq costs ~50 us per hex digit: the quick tier spends a byte budget,
    # smallest inputs first (boundaries), plus the few large structural cases
    def budget(lst, nbytes, keep_big=0):
        lst = sorted(lst, key=lambda c: len(c[2]))
        out, used = [], 0
        bigs = [c for c in lst if len(c[2]) > 3000][:keep_big]
        pool = [c for c in lst if len(c[2]) <= 3000]
        rng.shuffle(pool)
        pool.sort(key=lambda c: len(c[2]) > 64)     # all tiny cases first, the rest in random order
        for c in pool:
            if used + len(c[2]) > nbytes:
                continue
            out.append(c); used += len(c[2])
        return out + bigs
    if quick:
        coq_stage = budget([c for c in coq_stage if not (c[1]['t'] == 'shuffle' and len(c[2]) > 1100)], 32000, keep_big=1)
        coq_rstep = budget(coq_rstep, 16000)
        coq_cor = budget(coq_cor, 10000)
    else:
        coq_stage = budget(coq_stage, 500000, keep_big=8)
        coq_rstep = budget(coq_rstep, 150000)
        coq_cor = budget(coq_cor, 100000)
    groups = [("st", "stage3_ok", coq_stage), ("rs", "rstep_ok", coq_rstep), ("co", "decode2_ok", coq_cor)]
    vparts = ["From HV Require Import Base.Prelude Model.Filters Model.FiltersTie.\nOpen Scope string_scope.\n"]
    labels = []
    for tag, pred, lst in groups:
        for k in range(0, len(lst), 400):
            name = "%s_%d" % (tag, k)
            vparts.append("Definition %s : list case := [%s].\n" % (name, ";".join(c[0] for c in lst[k:k + 400])))
            vparts.append("Definition bad_%s := Eval vm_compute in mismatches %s %s.\n" % (name, pred, name))
            labels.append(("bad_" + name, tag, lst[k:k + 400]))
    for k in range(0, len(coq_msg), 400):
        name = "msg_%d" % k
        vparts.append("Definition %s : list (list (N*N) * string) := [%s].\n" % (name, ";".join('(%s,"%s")' % c for c in coq_msg[k:k + 400])))
        vparts.append("Definition bad_%s := Eval vm_compute in mismatches msg_ok %s.\n" % (name, name))
        labels.append(("bad_" + name, "msg", coq_msg[k:k + 400]))
    for k in range(0, len(coq_parse), 400):
        name = "pm_%d" % k
        vparts.append("Definition %s : list (string * N * N * N * list gdesc) := [%s].\n" % (name, ";".join(c[0] for c in coq_parse[k:k + 400])))
        # the variant of the version 2 filter name switch that the source tree under test implements (tools/props/c06switch.py)
        vparts.append("Definition bad_%s := Eval vm_compute in mismatches (parse_ok_gen %s) %s.\n" % (name, c06switch.cb(c06switch.pipeline()), name))
        labels.append(("bad_" + name, "parse", coq_parse[k:k + 400]))
    for k in range(0, len(coq_read), 400):
        name = "rd_%d" % k
        vparts.append("Definition %s : list (string * string * N * string) := [%s].\n" % (name, ";".join(c[0] for c in coq_read[k:k + 400])))
        vparts.append("Definition bad_%s := Eval vm_compute in mismatches (read_ok_gen %s) %s.\n" % (name, c06switch.cb(c06switch.pipeline()), name))
        labels.append(("bad_" + name, "read", coq_read[k:k + 400]))
    vparts.append("Definition ALLBAD := Eval vm_compute in [%s].\nPrint ALLBAD.\n" % ";".join("N.of_nat (List.length %s)" % l[0] for l in labels))
    for l in labels:
        vparts.append("Print %s.\n" % l[0])
    t_coq = time.time()
    if os.environ.get("C08_KEEP_CASES"):
        open(os.path.join(vlib.BUILD, "c08cases.v"), "w").write("".join(vparts))
    out = vlib.coq_eval("".join(vparts), "c08cases")
    t_coq = time.time() - t_coq
    counts = vlib.parse_nlist(out, "ALLBAD")
    ncoq = sum(len(l[2]) for l in labels)
    what_of = {"st": "one filter stage (writer Apply, writer Remove, reader step)", "rs": "reader step on a malformed chunk",
               "co": "writer Remove / reader on an altered Fletcher chunk",
               "msg": "pipeline message bytes", "parse": "ParseFilterPipelineMessage", "read": "ApplyFilters on a foreign description"}
    for (lab, tag, chunk), nbad in zip(labels, counts):
        if nbad == 0:
            continue
        for i in vlib.parse_nlist(out, lab)[:2]:
            c = chunk[i]
            # the specification checks above (oracle) already ran on every implementation output; a model-only
            # difference with no oracle complaint is a broken correspondence, not a refuted property
            v = dict(what="implementation and Coq model disagree: %s" % what_of[tag], case=(c[0] if len(c[0]) < 3000 else c[0][:3000] + "..."))
            if not any(not x.get("nofail") for x in viol):
                v["nofail"] = True
                v["correspondence"] = "Model.Filters vs /repo (%s); theorems in Props/C08.v are about the model" % what_of[tag]
            viol.append(v)

    distinct = len(seen_stage) + len(set(m for m in pm_meta)) + len(set(s for _, s in mal_meta)) + corruptions + e2e_ok
    cov = dict(
        evaluations=evaluations, distinct_nontrivial=distinct,
        rule="one evaluation = one payload x pipeline run through writer Apply/Remove + message + reader, one malformed chunk or message "
             "through the reader, one altered stored chunk through writer Remove and reader ApplyFilters, or one dataset written/reopened/read; "
             "distinct = distinct (filter, stage input) pairs + distinct malformed chunks/messages + altered chunks + datasets read back",
        samples=samples,
        pipelines=dict(orderings=len(orders), accepted=accepted, refused_by_shuffle_precondition=rejected, histogram_top=sorted(pipe_hist.items(), key=lambda kv: -kv[1])[:12]),
        payload_classes=class_hist, payload_sizes=size_hist,
        corruption=dict(altered_chunks=corruptions, fletcher_outermost=outer_total, fletcher_inner=inner_total,
                        multi_byte_true_collisions_skipped=multi_collisions, file_level_flips=flips,
                        pipelines_refused_by_shuffle=cor_refused),
        malformed=dict(chunks=len(mal_cases), rejected=mal_err, messages=len(pm_cases), messages_rejected=sum(1 for r in pm_res if not r.get("parse_ok"))),
        end_to_end=dict(cases=len(e2e_cases), read_back_equal=e2e_ok, skipped_control_fails=e2e_skipped, reference_library_files=ref_checked),
        model_evaluations_in_coq=ncoq, coq_seconds=round(t_coq, 1), programs=len(cases) + len(e2e_cases), disagreements_checked=ncoq,
        wall_parts=dict(total=round(time.time() - t_start, 1)),
    )
    # the property speaks of a SINGLE altered byte: such a witness, when there is one, is the replay
    viol.sort(key=lambda v: 0 if "(1 byte(s) changed)" in v.get("what", "") else 1)
    return dict(violations=viol, known=known, coverage=cov)
