"""C13 - resize keeps retained data, zero-fills new space, respects the declared maximum."""
import histcheck, histgen
from histlib import ESZ, UNLIMITED, prod

TRUSTED = ["C13: tools/histlib.py resize_arr oracle and the hist harness glue",
           "C13-unit (tools/props/c13unit.py): the header rewrite of Resize is tied byte for byte to Model/Resize.v (theorems Props/C13Header.v); "
           "the Python object-header / dataspace parser there is the independent oracle"]


def one_history(rng, shrink_grow=False, spec_safe=False):
    dt = rng.choice(["int32", "float64", "uint8", "int16", "uint64", "float32"])
    ext = None
    if rng.random() < 0.15:     # resizable datasets of the array / enum / opaque / reference kinds (element size != base type size)
        ext = histgen.rand_ext_kind(rng, spec_safe, vlen=False)
        dt = ext["dtype"]
    rank = rng.choice([1, 1, 2, 2, 3])
    dims = [rng.choice([1, 2, 3, 5, 8, 13]) for _ in range(rank)]
    chunk = [max(1, min(d, rng.choice([1, 2, 3, 4, d]))) for d in dims]
    maxd = [rng.choice([UNLIMITED, d, d + rng.choice([1, 4, 9])]) for d in dims]
    ops = [dict({"op": "mkds", "path": "/r", "dtype": dt, "dims": dims, "chunk": chunk, "maxdims": maxd}, **(ext or {}))]
    W = lambda shape: histgen.write_op(rng, "/r", dict(ext or {"dtype": dt}, dims=shape))
    if rng.random() < 0.9:
        ops.append(W(dims))
    cur = list(dims)
    wext = list(dims)           # extents the chunk index describes: those of the last full write (creation: no chunk at all)
    # shrunk[k]: dimension k has been below wext[k] since the last full write.  Growing it again is then outside
    # chain_covers (Props/C13.v C13_read_after_resizes; C13_read_after_resizes_tight: stale data for some content) =
    # KNOWN-FINDING C13-shrink-then-grow.  Shrinking that stays at or above wext[k] loses nothing the index holds, so
    # growing afterwards is inside the theorem and is generated.
    shrunk = [False] * rank
    for _ in range(rng.choice([1, 2, 4, 8, 12])):
        r = rng.random()
        if r < 0.15:       # beyond the maximum / wrong rank: must be rejected
            bad = [(m + rng.choice([1, 5]) if m != UNLIMITED else c) for m, c in zip(maxd, cur)]
            if bad != cur and any(m != UNLIMITED for m in maxd):
                ops.append({"op": "resize", "path": "/r", "dims": bad})
            else:
                ops.append({"op": "resize", "path": "/r", "dims": cur + [1]})
            continue
        nd = []
        for c, m, s in zip(cur, maxd, shrunk):
            hi = min(c + 7, m) if m != UNLIMITED else c + 7
            if s and not shrink_grow:
                hi = c
            nd.append(rng.choice([1, c, rng.randint(1, max(1, hi)), max(1, hi)]))
        ops.append({"op": "resize", "path": "/r", "dims": nd})
        shrunk = [s or (b < w) for s, w, b in zip(shrunk, wext, nd)]
        cur = nd
        if rng.random() < 0.45:
            ops.append(W(cur))
            wext = list(cur)
            shrunk = [False] * rank
        if rng.random() < 0.2:
            ops.append({"op": "setattr", "path": "/r", "name": "6e", "kind": "i32", "val": "07000000"})
    return ops


KNOWN = [dict(id="C13-shrink-then-grow", match="bytes differ",
              case={"sb": 2, "ops": [{"op": "mkds", "path": "/c", "dtype": "uint8", "dims": [8], "chunk": [4], "maxdims": [32]},
                                     {"op": "write", "path": "/c", "val": "0102030405060708"},
                                     {"op": "resize", "path": "/c", "dims": [3]}, {"op": "resize", "path": "/c", "dims": [7]}]})]


def cases_for(rng, tier):
    n = 1500 if tier == "quick" else 40000
    return [{"sb": rng.choice([0, 2, 3]), "ops": one_history(rng)} for _ in range(n)]


def run(ctx):
    return histcheck.run(ctx, cases_for(ctx.rng, ctx.tier), "C13", tags={"data", "must-fail-accepted", "must-succeed-refused"},
                         known=KNOWN, unit_modules=["c01unit", "c13unit"],
                         rule_extra="C13 cases: grow/shrink/rewrite sequences (1..12 resizes) over ranks 1-3, chunk shapes, fixed and unlimited "
                                    "maxima, requests beyond the maximum; the resize chains generated are exactly those inside chain_covers (theorem "
                                    "C13_read_after_resizes): growing a dimension again after it was shrunk BELOW the extent of the last full write, "
                                    "without a rewrite, is excluded from gating (KNOWN-FINDING C13-shrink-then-grow, C13_read_after_resizes_tight) "
                                    "and re-confirmed separately.")
