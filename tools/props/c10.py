"""C10 - reopening a file for modification preserves everything not modified."""
import histcheck, histgen
from histlib import hx

TRUSTED = ["C10: tools/histlib.py oracle across sessions and the hist harness glue (OpenForWrite / OpenDataset)"]


def noop_case(rng):
    ops = histgen.gen_mixed(rng, nops=rng.choice([8, 20]), fail_rate=0.0, sessions=1)
    ops = [o for o in ops if o["op"] != "close"]
    ops += [{"op": "close"}, {"op": "dump"}]
    for _ in range(rng.choice([1, 2, 3])):
        ops += [{"op": "reopen"}]
        if rng.random() < 0.5:      # only failing calls in this session
            ops += [{"op": "delattr", "path": "/nonexistent", "name": "61"}, {"op": "mkgroup", "path": "relative"}]
        ops += [{"op": "close"}, {"op": "dump"}]
    return ops


def cases_for(rng, tier):
    n = 600 if tier == "quick" else 20000
    cases = []
    for _ in range(n):
        cases.append({"sb": rng.choice([0, 2, 3]),
                      "ops": histgen.gen_mixed(rng, nops=rng.choice([20, 40, 80]), sessions=rng.choice([2, 3, 4, 6]), fail_rate=0.08)})
    # several live handles on one object inside a reopened session (OpenDataset called again for the same path)
    for _ in range(500 if tier == "quick" else 12000):
        cases.append({"sb": rng.choice([0, 2, 3]),
                      "ops": histgen.gen_mixed(rng, nops=rng.choice([30, 60]), sessions=rng.choice([2, 3]), fail_rate=0.04,
                                               handles=rng.choice([0.1, 0.25]), resize=False, links=False)})
    for _ in range(400 if tier == "quick" else 10000):
        cases.append({"sb": rng.choice([0, 2, 3]), "ops": histgen.gen_handles(rng, nsess=rng.choice([1, 2, 3]), nops=rng.choice([10, 24, 40]))})
    # every kind of object as the LAST allocation of the creating session (compound / array / enum / ... datasets, groups, dense groups),
    # then sessions that allocate for another object (compact -> dense attributes) and grow the last object (seeded change C10-c)
    for _ in range(400 if tier == "quick" else 10000):
        cases.append({"sb": rng.choice([0, 2, 3]), "ops": histgen.gen_tail_kind(rng)})
    for _ in range(150 if tier == "quick" else 3000):
        cases.append({"sb": rng.choice([0, 2, 3]), "ops": noop_case(rng), "noop": True})
    return cases


def run(ctx):
    cases = cases_for(ctx.rng, ctx.tier)
    res = histcheck.run(ctx, cases, "C10", tags=None, unit_modules=["c04unit"],
                        rule_extra="C10 cases: 2-6 open-modify-close sessions (attribute upserts/deletes through OpenDataset, data overwrite of "
                                   "contiguous datasets, creation attempts; in part of the cases several OpenDataset handles on the same dataset used in turn) with a dump after every session; datasets of every kind the write API creates (compound, array, enum, opaque, reference, variable-length) incl. histories whose last allocated object is of each kind in turn; plus sessions without any successful "
                                   "modification, for which the file's SHA-256 must not change.")
    # byte identity of no-op sessions
    import vlib, histcheck as hc
    noops = [c for c in cases if c.get("noop")]
    rs = vlib.run_harness_parallel(ctx.harness, "hist", [hc._mk(c) for c in noops])
    bad = 0
    for c, r in zip(noops, rs):
        shas = [d["dump"].get("sha") for d in (r.get("dumps") or [])] + [r["final"].get("sha")]
        if len(set(shas)) > 1:
            bad += 1
            if bad == 1:
                res["violations"].append(dict(what="a session without any successful modification changed the file bytes (SHA-256 differs between sessions)",
                                              failing_input=dict(sb=c["sb"], ops=c["ops"]), shas=shas))
    res["coverage"]["noop_sessions_checked"] = len(noops)
    return res
