"""C06, second oracle: the whole-file specification WALKER written in Coq (coq/theories/Spec/Walk.v, evaluated through
Model/RefWalkTie.v by vm_compute) as the reference for what the Go reader returns on reference-library files.

For every distinct corpus file within the size budget Coq computes the STRICT walk of the complete bytes: the tree summary
(object header address, path, kind, shape, dataspace type, datatype class / size / byte order / sign / padding, layout class,
attribute names, link names of groups) or a rejection with a reason code.  Props/C06Walk.v proves that strict acceptance implies
acceptance under every tolerance with the same result and no deviation tag, and that the summary is a function of the bytes alone,
which is what makes "the strict walk accepts" a sound filter for "the file conforms to the specification as encoded in Spec/".

Gate (the statement of C06 with the walker as the reference), per file the strict walk accepts and the Go reader opens:
  * every object the walker lists is returned by the reader at the same path, unless an enclosing call reported an error
    (missing-member:<kind>); a link name the walker lists for a group the reader returned is among Children() (missing-member);
  * kind, shape (dataspace type + dimensions), datatype (class, size, byte order, signedness, string padding) of every returned
    object equal the walker's, unless the call that produced them reported an error;
  * the attribute NAME set Attributes() returned without error equals the walker's (missing-attribute / extra-attribute);
  * the reader returns nothing the walker does not have (extra-member), when the walker followed the whole tree.
A disagreement listed in corpus/C06/known.json ((file, object, kind) triples) is a known finding; anything else is a violation with
the file and the object as the failing input.  Files the walker rejects are counted by reason and not compared.
"""
import collections, concurrent.futures as cf, hashlib, os, re, sys, time
sys.path.insert(0, os.path.dirname(os.path.dirname(os.path.abspath(__file__))))
import vlib

HEADER = "From HV Require Import Base.Prelude Model.RefWalkTie.\n"
CORR = "Spec.Walk.walk wstrict (through Model.RefWalkTie.walk6_obs; theorems Props/C06Walk.v) vs the Go reader (verifharness c06)"

REASONS = {
    1: "a structural clause of the specification failed", 2: "a decoder rejected a structure / a read left the file",
    3: "an extent is empty or leaves the file", 4: "fuel exhausted",
    5: "superblock extension: a message other than B-tree K / shared message table / file space info, or not decodable",
    6: "superblock: non-zero base address (not followed)",
    10: "superblock: not decodable", 11: "superblock: driver information block (not followed)",
    12: "object header v2: not decodable", 13: "object header v1: not decodable", 14: "shared message (not followed)",
    15: "object header v1: message count differs", 16: "a once-only message is repeated",
    17: "local heap: not decodable", 18: "symbol table node: not decodable", 19: "v1 B-tree node: not decodable",
    20: "new-style group (not followed)", 21: "symbolic link entry in a symbol table (not followed)",
    22: "creation-order index (not followed)", 23: "fractal heap: filtered / huge objects / free-space manager (not followed)",
    24: "fractal heap: indirect root block (not followed)", 25: "v2 B-tree of depth > 0 (not followed)",
    26: "fractal heap header: not decodable", 27: "v2 B-tree: not decodable", 28: "dense storage: a record does not resolve",
    30: "object without symbol table / link / dataset messages", 31: "datatype message: not decodable",
    32: "dataspace message: not decodable", 33: "layout message: not decodable",
    34: "filter pipeline message: not decodable", 35: "filter other than deflate / shuffle / fletcher32",
    36: "fill value message: not decodable", 37: "attribute message: not decodable",
    38: "filtered dataset that is not chunked", 39: "link message: not decodable", 40: "link info message: not decodable",
    41: "link to an object that is not followed (user-defined link)", 42: "global heap collection: not decodable",
    43: "variable-length element does not resolve in its global heap collection",
    44: "fractal heap: indirect block not decodable", 45: "v2 B-tree internal node: not decodable",
    46: "shared message: not resolvable", 47: "committed datatype header without a datatype message",
    48: "layout v4: fixed array chunk index (not followed)", 49: "layout v4: extensible array chunk index (not followed)",
    50: "layout v4: v2 B-tree chunk index (not followed)", 51: "virtual dataset layout (not followed)",
    900: "strict walk accepts, the summary is too long to transport (more than 50000 numbers: link names of 64 kB)",
    # the structural clauses of Spec/Walk.v, one code each
    60: "clause: local heap: the free list is malformed",
    61: "clause: v1 B-tree: the root node has siblings",
    62: "clause: v1 B-tree: node level differs from what its parent implies",
    63: "clause: chunk B-tree: keys are not increasing",
    64: "clause: fractal heap: heap ID length too small for offset and length",
    65: "clause: fractal heap: no root block although managed objects are counted",
    66: "clause: fractal heap: allocated managed space differs from the blocks found",
    67: "clause: dense attributes: type 8 record size is not heap ID length + 9",
    68: "clause: dense attributes: type 5 record size is not 11",
    69: "clause: dense attributes: name index of a type other than 5 / 8",
    70: "clause: dense attributes: number of index records differs from the heap's managed objects",
    71: "clause: dense attributes: index records not sorted by hash",
    72: "clause: link info: a name index without a heap",
    73: "clause: dense links: name index is not type 5 with 11-byte records",
    74: "clause: dense links: heap ID length is neither 7 nor 8",
    75: "clause: dense links: number of index records differs from the heap's managed objects",
    76: "clause: dense links: index records not sorted by hash",
    77: "clause: layout v4 chunked: dimensionality is not rank + 1 or the last dimension is not the element size",
    78: "clause: layout v4 single chunk: filtered size without a filter pipeline",
    79: "clause: layout v4 single chunk: empty chunk",
    80: "clause: layout v4 implicit index with a filter pipeline",
    81: "clause: layout v4 implicit index: no chunks",
    82: "clause: compact layout: data size differs from dataspace x element size",
    83: "clause: contiguous layout with a filter pipeline",
    84: "clause: contiguous layout: size differs from dataspace x element size",
    85: "clause: chunked layout: the last dimension is not the element size",
    86: "clause: chunked layout: dimensionality is neither rank + 1 nor rank",
    87: "clause: chunked layout: a chunk dimension is 0",
    88: "clause: chunk key: the offset of the element-size dimension is not 0",
    89: "clause: chunk key: an offset is not a multiple of the chunk dimension",
    90: "clause: chunk of size 0",
    91: "clause: unfiltered chunk: filter mask set or size differs from the chunk size",
    92: "clause: attribute info message 0x15 next to a message 0x0f",
    93: "clause: duplicate attribute names",
    94: "clause: symbol-table group: duplicate or empty link names",
    95: "clause: symbol table entry cache differs from the child's symbol table message",
    96: "clause: symbol table entry caches group addresses but the child has no symbol table message",
    97: "clause: new-style group: link messages and dense link storage together",
    98: "clause: new-style group: duplicate link names",
    99: "clause: new-style group with a layout / datatype message",
    100: "clause: superblock root entry cache differs from the root group's symbol table message",
    101: "clause: superblock root entry: the root object has no symbol table message",
    102: "clause: superblock: end-of-file address beyond the file",
}


def reason_name(code):
    if code >= 1000:
        return "message type 0x%04x is not interpreted" % (code - 1000)
    if 200 <= code < 400:
        return "strict: deviation tag %d is not tolerated" % (code - 200)
    return REASONS.get(code, "reason %d" % code)


# ----------------------------------------------------------------------------- transport

_ZRUN = re.compile(rb"\0{48,}")


def pieces_literal(d):
    """bytes -> Coq literal of type list piece: hex strings of at most 1500 bytes, runs of >= 48 zero bytes as PZ n"""
    out, pos = [], 0

    def hexes(b):
        for i in range(0, len(b), 1500):
            out.append('PH "%s"' % b[i:i + 1500].hex())
    for m in _ZRUN.finditer(d):
        if m.start() > pos:
            hexes(d[pos:m.start()])
        out.append("PZ %d" % (m.end() - m.start()))
        pos = m.end()
    if pos < len(d):
        hexes(d[pos:])
    return "[" + "; ".join(out) + "]", sum(len(x) for x in out)


def parse_nested(out, label):
    m = re.search(re.escape(label) + r"\s*=\s*", out)
    if not m:
        raise RuntimeError("cannot find %s in coqc output:\n%s" % (label, out[-2000:]))
    i = m.end()
    j = out.index("\n     :", i) if "\n     :" in out[i:] else len(out)
    body = re.sub(r"%[A-Za-z]+", "", out[i:j])
    return [[int(x) for x in re.findall(r"\d+", part)] for part in re.findall(r"\[([^\[\]]*)\]", body)]


def _eval_part(args):
    k, lits = args
    v = [HEADER, "Open Scope string_scope.\nOpen Scope N_scope.\n"]
    v.append("Definition fs : list (list piece) := [%s].\n" % ";\n".join(lits))
    v.append("Definition r := Eval vm_compute in map walk6_pieces fs.\nPrint r.\n")
    out = vlib.coq_eval("".join(v), "c06walk_%d" % k)
    got = parse_nested(out, "r")
    if len(got) != len(lits):
        raise RuntimeError("c06walk: %d results for %d files:\n%s" % (len(got), len(lits), out[-1500:]))
    return got


def parse_obs(l):
    if l[0] == 0:
        return dict(accept=False, reason=l[1])
    p = [1]

    def take():
        v = l[p[0]]
        p[0] += 1
        return v

    def take_bytes():
        n = take()
        b = bytes(l[p[0]:p[0] + n])
        p[0] += n
        return b
    d = dict(accept=True, version=take(), ntags=take(), tree=[])
    for _ in range(take()):
        o = dict(addr=take(), kind=take(), cls=take(), size=take(), bits=take(), space=take(), layout=take())
        o["dims"] = [take() for _ in range(take())]
        o["path"] = take_bytes()
        o["attrs"] = [take_bytes() for _ in range(take())]
        o["links"] = [(take(), take_bytes()) for _ in range(take())]
        d["tree"].append(o)
    if p[0] != len(l):
        raise RuntimeError("walk6_obs: %d numbers left over" % (len(l) - p[0]))
    return d


def coq_walk(datas, workers=14):
    """-> parsed walk6_obs per file (strict walk of the complete bytes)"""
    if not datas:
        return []
    lits = [pieces_literal(d) for d in datas]
    order = sorted(range(len(datas)), key=lambda i: -lits[i][1])
    nsh = max(1, min(len(datas), workers * 2))
    shards, load = [[] for _ in range(nsh)], [0] * nsh
    for i in order:
        s = min(range(nsh), key=lambda j: load[j])
        shards[s].append(i)
        load[s] += lits[i][1] + 2000
    shards = [sh for sh in shards if sh]
    with cf.ThreadPoolExecutor(workers) as ex:
        res = list(ex.map(_eval_part, [(k, [lits[i][0] for i in sh]) for k, sh in enumerate(shards)]))
    out = [None] * len(datas)
    for sh, r in zip(shards, res):
        for i, l in zip(sh, r):
            out[i] = parse_obs(l)
    return out


# ----------------------------------------------------------------------------- selection

def select(files, tier):
    """distinct corpus files within the budget -> ([(rel, data, [all rel paths with these bytes])], skipped Counter)"""
    maxsize = 70000 if tier == "quick" else 400000
    by, skipped = {}, collections.Counter()
    for f in files:
        rel = os.path.relpath(f, vlib.REPO)
        sz = os.path.getsize(f)
        if sz == 0:
            skipped["empty file"] += 1
            continue
        if sz > maxsize:
            skipped["larger than %d bytes" % maxsize] += 1
            continue
        d = open(f, "rb").read()
        h = hashlib.sha256(d).hexdigest()
        if h in by:
            by[h][2].append(rel)
            skipped["same bytes as another corpus file (compared once, reported for every path)"] += 1
            continue
        by[h] = (rel, d, [rel])
    return [by[h] for h in sorted(by, key=lambda h: by[h][0])], skipped


# ----------------------------------------------------------------------------- comparison with the Go reader

# a member the reader drops: "missing-member:<kind>" here, "dropped-link:<kind>" in c06.py's check of the reader's own link parse
ALIAS = {"missing-member:softlink": "dropped-link:softlink", "missing-member:extlink": "dropped-link:extlink",
         "missing-member:dataset": "dropped-link:child", "missing-member:group": "dropped-link:child",
         "missing-member:datatype": "dropped-link:child"}
GOKIND = {"group": 1, "dataset": 2}
KINDNAME = {1: "group", 2: "dataset", 3: "linkobject", 4: "datatype"}


def _gokind(o):
    k = o["kind"]
    if k in GOKIND:
        return GOKIND[k]
    if "NamedDatatype" in k:
        return 4
    return 0


def _s(b):
    return b.decode("utf-8", "surrogateescape")


def norm_path(p):
    return p if p == "/" else p.rstrip("/")


def dt_discrepancy(w, cls, size, bits):
    """walker datatype summary vs (class, size, class bit field) the reader parsed"""
    if w["cls"] != cls:
        return "datatype class %d, reader class %d" % (w["cls"], cls)
    if w["size"] != size:
        return "datatype size %d, reader size %d" % (w["size"], size)
    wb = w["bits"]
    if cls in (0, 1, 2, 4) and (wb & 1) != (bits & 1):
        return "byte order bit %d, reader %d" % (wb & 1, bits & 1)
    if cls == 0 and (wb & 8) != (bits & 8):
        return "sign bit %d, reader %d" % ((wb >> 3) & 1, (bits >> 3) & 1)
    if cls == 3 and (wb & 0xFF) != (bits & 0xFF):
        return "string padding/character set 0x%02x, reader 0x%02x" % (wb & 0xFF, bits & 0xFF)
    if cls == 9 and (wb & 0xF) != (bits & 0xF):
        return "variable-length type %d, reader %d" % (wb & 0xF, bits & 0xF)
    return None


def compare_file(rel, w, out, disc, stats):
    """w: accepted walker result; out: harness c06 JSON of the same file.  Appends dicts to disc."""
    fname = rel.replace("testdata/", "", 1)
    d = out["dump"]
    extra = out.get("extra") or {}
    gobjs = {}
    for o in d["objects"]:
        gobjs.setdefault(norm_path(o["path"]), o)

    def D(path, kind, expected, got):
        disc.append(dict(file=fname, path=path, kind=kind, expected=str(expected)[:300], got=str(got)[:300], ddl="coq-walker"))
    wpaths = {}
    for o in w["tree"]:
        wpaths.setdefault(_s(o["path"]), o)
    reported = set()
    for path, o in sorted(wpaths.items()):
        if o["kind"] == 3:
            stats["walker link objects (no counterpart in the read API)"] += 1
            continue
        stats["objects_compared"] += 1
        g = gobjs.get(path)
        if g is None:
            # the topmost missing ancestor whose parent the reader returned
            a = path
            while True:
                par = a.rsplit("/", 1)[0] or "/"
                if par in gobjs or par == a:
                    break
                a = par
            if a in reported:
                continue
            reported.add(a)
            par = a.rsplit("/", 1)[0] or "/"
            k = KINDNAME[o["kind"]] if a == path else "group"
            D(a, "missing-member:" + k, "%s %s (specification walk)" % (k, a), "absent from %s, no error reported" % par)
            continue
        gk = _gokind(g)
        if gk != o["kind"]:
            D(path, "kind", KINDNAME[o["kind"]], g["kind"])
            continue
        # ---- membership of groups
        if o["kind"] == 1:
            have = set(bytes.fromhex(c) for c in g.get("children") or [])
            for lt, nm in o["links"]:
                stats["members_compared"] += 1
                if nm not in have:
                    cp = norm_path(path.rstrip("/") + "/" + _s(nm))
                    if cp not in reported:
                        reported.add(cp)
                        wk = wpaths.get(cp)
                        lk = {1: "softlink", 64: "extlink"}.get(lt) or (KINDNAME[wk["kind"]] if wk else "object")
                        D(cp, "missing-member:" + lk, "member %r of group %s (specification walk)" % (_s(nm), path), "absent, no error reported")
            wl = set(nm for _, nm in o["links"])
            for nm in have:
                if nm not in wl:
                    D(norm_path(path.rstrip("/") + "/" + _s(nm)), "extra-member", "no such link in the file", "member %r returned" % _s(nm))
        # ---- attributes: the name set
        if o["kind"] in (1, 2):
            if g.get("attrerr"):
                stats["attribute_lists_erred"] += 1
            else:
                gn = [bytes.fromhex(a["name"]) for a in g.get("attrs") or []]
                stats["attribute_lists_compared"] += 1
                stats["attribute_names_compared"] += len(o["attrs"])
                for nm in o["attrs"]:
                    if nm not in gn:
                        D(path + "@" + _s(nm), "missing-attribute", "attribute %r (specification walk)" % _s(nm), "absent, Attributes() reported no error")
                for nm in gn:
                    if nm not in o["attrs"]:
                        D(path + "@" + _s(nm), "extra-attribute", "no such attribute in the file", "attribute returned")
        # ---- datasets: datatype and shape
        if o["kind"] == 2:
            if g.get("hdrerr") or g.get("infoerr"):
                stats["dataset_headers_erred"] += 1
                continue
            if not (g.get("layout") or g.get("dims") or g.get("size")):
                stats["dataset_without_metadata_in_dump"] += 1
                continue
            stats["datasets_compared"] += 1
            t = dt_discrepancy(o, g["class"], g["size"], g["bits"])
            if t:
                D(path, "type", "specification walk: " + t, "class=%d size=%d bits=0x%x" % (g["class"], g["size"], g["bits"]))
            ex = extra.get(g["path"]) or {}
            dst = ex.get("dstype", -1)
            if dst in (0, 1, 2):
                if dst != o["space"]:
                    D(path, "shape", "dataspace type %d dims %s" % (o["space"], o["dims"]), "dataspace type %d dims %s" % (dst, g.get("dims")))
                elif dst == 1 and list(g.get("dims") or []) != o["dims"]:
                    D(path, "shape", o["dims"], list(g.get("dims") or []))
    # ---- nothing but what the file has.  The walker lists an object under the first path it is reached by; a further hard link to it
    # is a link name of the parent group, and the reader's object there must be the object at that header address
    linkpaths = set()
    for path, o in wpaths.items():
        for lt, nm in o["links"]:
            linkpaths.add(norm_path(path.rstrip("/") + "/" + _s(nm)))
    byaddr = {o["addr"]: o for o in w["tree"]}
    for path, g in gobjs.items():
        if path not in wpaths and _gokind(g) in (1, 2, 4):
            par = path.rsplit("/", 1)[0] or "/"
            if path in linkpaths:
                stats["objects_under_a_second_hard_link"] += 1
                o = byaddr.get(g.get("addr"))
                if o is not None and o["kind"] != _gokind(g):
                    D(path, "kind", KINDNAME[o["kind"]], g["kind"])
            elif par in wpaths or path == "/":
                D(path, "extra-member", "no such object in the file (specification walk)", "%s returned" % g["kind"])


def run_oracle(ctx, files, outs, known_idx):
    """files: corpus paths; outs: path -> harness c06 output.  -> (violations, known counter by root cause, coverage)"""
    t0 = time.time()
    sel, skipped = select(files, ctx.tier)
    cqs = coq_walk([d for _, d, _ in sel])
    coq_wall = time.time() - t0
    reasons = collections.Counter()
    stats = collections.Counter()
    disc = []
    naccept = ncompared = 0
    tagviol = []
    for (rel, data, rels), w in zip(sel, cqs):
        if not w["accept"]:
            reasons[reason_name(w["reason"])] += 1
            continue
        naccept += 1
        if w["ntags"]:
            # not proved in Props/C06Walk.v (partial): the strict walk returns no deviation tag; checked on every accepted file
            tagviol.append(dict(what="the strict walk of %s returns %d deviation tags" % (rel, w["ntags"]), case=dict(file=rel), nofail=True,
                                correspondence="Spec.Walk.walk wstrict returns an empty tag list (sdev / xdev / dev reject under wstrict)"))
        for r in rels:
            o = outs.get(os.path.join(vlib.REPO, r))
            if o is None or "dump" not in o or (o.get("dump") or {}).get("openerr") or o.get("panic") or (o["dump"] or {}).get("panic"):
                skipped["strict walk accepts, the reader does not open the file (error / crash / timeout: not a value)"] += 1
                continue
            ncompared += 1
            compare_file(r, w, o, disc, stats)
    viol, by_rc = tagviol[:3], collections.Counter()
    seen = set()
    new = []
    for d in disc:
        key = (d["file"], d["path"], d["kind"])
        if key in seen:
            continue
        seen.add(key)
        rc = known_idx.get(key)
        if rc is None and d["kind"] in ALIAS:
            # the same (file, object) is listed under the label the DDL / link-message oracle of c06.py gives it
            rc = known_idx.get((d["file"], d["path"], ALIAS[d["kind"]]))
        if rc is None:
            new.append(d)
        else:
            by_rc[rc] += 1
    for d in new[:25]:
        viol.append(dict(what="%s: %s %s: the specification walk (Coq) finds %s, the reader returned %s (not a listed known finding)" % (
            d["file"], d["kind"], d["path"], d["expected"], d["got"]),
            failing_input=dict(file=d["file"], object=d["path"], kind=d["kind"], expected=d["expected"], got=d["got"], ddl="coq-walker"),
            replay_cmd="verifharness c06 <repo>/testdata/%s 0" % d["file"], oracle="walker_oracle", new_discrepancies_total=len(new)))
    cov = dict(files_offered=len(files), files_walked=len(sel), files_strict_accepted=naccept, files_compared=ncompared,
               objects_compared=int(stats["objects_compared"]), skipped_by_reason=dict(skipped),
               walker_rejections_by_reason=dict(reasons.most_common()), compared=dict(stats),
               discrepancies_total=len(seen), discrepancies_known=len(seen) - len(new), discrepancies_new=len(new),
               known_root_causes=dict(by_rc), bytes_walked=sum(len(d) for _, d, _ in sel),
               coq_wall_seconds=round(coq_wall, 1), wall_seconds=round(time.time() - t0, 1),
               rule="every distinct corpus file of at most %d bytes is walked strictly by Coq (vm_compute); accepted files are compared "
                    "object by object with the reader's dump" % (70000 if ctx.tier == "quick" else 400000),
               correspondence=CORR)
    return viol, by_rc, cov


if __name__ == "__main__":
    # histogram of the walker's answers over the corpus (development aid): python3 tools/props/c06walk.py [quick|thorough]
    from props import c06
    tier = sys.argv[1] if len(sys.argv) > 1 else "quick"
    t0 = time.time()
    sel, skipped = select(c06.corpus_files(), tier)
    cqs = coq_walk([d for _, d, _ in sel])
    print("walked %d files, %d bytes, %.1f s" % (len(sel), sum(len(d) for _, d, _ in sel), time.time() - t0))
    print("skipped", dict(skipped))
    h = collections.Counter(reason_name(w["reason"]) if not w["accept"] else "ACCEPT" for w in cqs)
    ex = {}
    for (rel, _, _), w in zip(sel, cqs):
        ex.setdefault(reason_name(w["reason"]) if not w["accept"] else "ACCEPT", []).append(rel)
    for k, n in h.most_common():
        print("%4d  %s   e.g. %s" % (n, k, ", ".join(os.path.basename(x) for x in ex[k][:4])))
    vlib.cleanup()
