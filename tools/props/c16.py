"""C16 - a write call that returns an error changes nothing; the writer stays usable; no panic; Close idempotent."""
import histcheck, histgen
from histlib import hx

TRUSTED = ["C16: tools/histlib.py oracle (failed calls are ignored by the model) and the hist harness glue"]


def capacity_case(rng):
    """drive one structure to its capacity so that calls start failing, then keep using the writer"""
    k = rng.choice(["group32", "heap", "header", "dense", "afterclose", "heapfull"])
    ops = [{"op": "mkds", "path": "/keep", "dtype": "int32", "dims": [2]}, {"op": "write", "path": "/keep", "val": "0100000002000000"},
           {"op": "setattr", "path": "/keep", "name": hx("k"), "kind": "str", "val": hx("kept")}]
    if k == "group32":
        ops.append({"op": "mkgroup", "path": "/g"})
        for i in range(rng.choice([31, 33, 40])):
            ops.append(rng.choice([{"op": "mkgroup", "path": "/g/s%d" % i}, {"op": "mkds", "path": "/g/s%d" % i, "dtype": "uint8", "dims": [1]}]))
    elif k == "heap":
        ops.append({"op": "mkgroup", "path": "/g"})
        for i in range(rng.choice([3, 6, 12])):
            ops.append({"op": "mkgroup", "path": "/g/" + "n%d" % i + "_" * rng.choice([30, 60, 120])})
    elif k == "header":
        for i in range(rng.choice([3, 6, 9])):
            kk, v = histgen.rand_attr_value(rng, big=True)
            ops.append({"op": "setattr", "path": "/keep", "name": hx("big%d" % i + "_" * rng.choice([0, 50, 150])), "kind": kk, "val": v.hex()})
    elif k == "dense":
        for i in range(rng.choice([10, 40, 120])):
            kk, v = histgen.rand_attr_value(rng, big=rng.random() < 0.3)
            ops.append({"op": "setattr", "path": "/keep", "name": hx("a%d" % i), "kind": kk, "val": v.hex()})
        for i in range(5):
            ops.append({"op": "delattr", "path": "/keep", "name": hx("a%d" % rng.randint(0, 150))})
    elif k == "heapfull":
        # dense attribute storage filled to the capacity of its single 64 KiB heap block: the insert that no longer fits is refused
        # when the heap is written back; nothing written before that point may survive the refusal (seeded change C16-c: the index
        # was written before the heap).  Then the refused name is retried with a value that fits, and the object keeps being used.
        for i in range(9):
            ops.append({"op": "setattr", "path": "/keep", "name": hx("s%d" % i), "kind": "i32", "val": "%08x" % i})
        big = rng.choice([8000, 8000, 12000, 30000])
        nbig = 65536 // big + 2
        for i in range(nbig):
            ops.append({"op": "setattr", "path": "/keep", "name": hx("big%d" % i), "kind": "str", "val": (bytes([65 + i % 26]) * (big - rng.choice([0, 1, 7]))).hex()})
        ops.append({"op": "setattr", "path": "/keep", "name": hx("big%d" % (nbig - 1)), "kind": "str", "val": hx("fits")})
        ops.append({"op": "setattr", "path": "/keep", "name": hx("s3"), "kind": "str", "val": (b"Z" * rng.choice([20, 3000])).hex()})   # size-changing upsert on a full heap
        ops.append({"op": "delattr", "path": "/keep", "name": hx("big0")})
        ops.append({"op": "setattr", "path": "/keep", "name": hx("late"), "kind": "i8", "val": "07"})
    else:
        ops += [{"op": "close"}, {"op": "close"}, {"op": "mkds", "path": "/late", "dtype": "int32", "dims": [1]},
                {"op": "write", "path": "/keep", "val": "0300000004000000"}, {"op": "setattr", "path": "/keep", "name": hx("z"), "kind": "i8", "val": "01"},
                {"op": "delattr", "path": "/keep", "name": hx("k")}, {"op": "mkgroup", "path": "/lateg"}, {"op": "hardlink", "path": "/l", "target": "/keep"},
                {"op": "resize", "path": "/keep", "dims": [2]}, {"op": "closeds", "path": "/keep"}, {"op": "close"}]
        return ops
    # the writer must stay usable
    ops += [{"op": "mkds", "path": "/after", "dtype": "float64", "dims": [1]}, {"op": "write", "path": "/after", "val": "000000000000f03f"},
            {"op": "setattr", "path": "/after", "name": hx("u"), "kind": "i32", "val": "05000000"}, {"op": "close"}, {"op": "close"}]
    return ops


def cached_header_case(rng):
    """calls that fail deep inside an operation on a handle that keeps a parsed header (after Resize, or OpenDataset
    in a later session): an oversized value fails inside the compact->dense transition / the dense insert"""
    ops = [{"op": "mkds", "path": "/keep", "dtype": "int32", "dims": [4], "chunk": [2], "maxdims": [16]},
           {"op": "write", "path": "/keep", "val": "01000000020000000300000004000000"}]
    n0 = rng.choice([1, 3, 6, 7, 9, 12])
    for i in range(n0):
        kk, v = histgen.rand_attr_value(rng)
        ops.append({"op": "setattr", "path": "/keep", "name": hx("a%d" % i), "kind": kk, "val": v.hex()})
    if rng.random() < 0.5:
        ops.append({"op": "resize", "path": "/keep", "dims": [rng.choice([4, 6, 9])]})
    else:
        ops += [{"op": "close"}, {"op": "dump"}, {"op": "reopen"}]
    for _ in range(rng.choice([1, 2, 3])):
        huge = rng.choice([600, 2500, 70000, 100000])   # 20 KB fits the heap block; 560/800 KB exceed the maximum object size
        ops.append({"op": "setattr", "path": "/keep", "name": hx(rng.choice(["a0", "huge", "a%d" % (n0 - 1)])), "kind": "[]f64",
                    "val": (bytes(range(8)) * huge).hex()})
        kk, v = histgen.rand_attr_value(rng)
        ops.append({"op": "setattr", "path": "/keep", "name": hx("after%d" % rng.randint(0, 2)), "kind": kk, "val": v.hex()})
        if rng.random() < 0.3:
            ops.append({"op": "delattr", "path": "/keep", "name": hx("a%d" % rng.randint(0, n0))})
    return ops


def invalid_args_case(rng):
    ops = [{"op": "mkds", "path": "/keep", "dtype": "int32", "dims": [2]}, {"op": "write", "path": "/keep", "val": "0100000002000000"}]
    bad = [
        {"op": "mkds", "path": "/z", "dtype": "int32", "dims": []}, {"op": "mkds", "path": "/z", "dtype": "int32", "dims": [0]},
        {"op": "mkds", "path": "/z", "dtype": "int32", "dims": [3], "chunk": [0]}, {"op": "mkds", "path": "/z", "dtype": "int32", "dims": [3], "chunk": [2, 2]},
        {"op": "mkds", "path": "/z", "dtype": "int32", "dims": [3], "chunk": [2], "maxdims": [2]},
        {"op": "mkds", "path": "/z", "dtype": "int32", "dims": [3], "maxdims": [8]},
        {"op": "mkds", "path": "/z", "dtype": "string", "dims": [3], "strsize": 0},
        {"op": "write", "path": "/keep", "val": "01000000"}, {"op": "write", "path": "/keep", "val": "010000000200000003000000"},
        {"op": "write", "path": "/keep", "dtype": "float64", "val": "000000000000f03f"},
        {"op": "setattr", "path": "/keep", "name": hx("n"), "kind": "nil", "val": ""}, {"op": "setattr", "path": "/keep", "name": hx("n"), "kind": "bool", "val": "01"},
        {"op": "setattr", "path": "/keep", "name": hx("n"), "kind": "[]i32", "val": ""}, {"op": "setattr", "path": "/keep", "name": hx("n"), "kind": "[]u8", "val": "0102"},
        {"op": "delattr", "path": "/keep", "name": hx("absent")}, {"op": "resize", "path": "/keep", "dims": [5]},
        {"op": "hardlink", "path": "/l", "target": "/absent"}, {"op": "hardlink", "path": "/nope/l", "target": "/keep"}, {"op": "hardlink", "path": "/keep", "target": "/keep"},
        {"op": "mkgroup", "path": "/keep"}, {"op": "mkgroup", "path": "/keep/sub"}, {"op": "mkds", "path": "/keep/sub", "dtype": "int32", "dims": [1]},
        {"op": "mkgroup", "path": "//x"}, {"op": "mkgroup", "path": "/a//b"}, {"op": "softlink", "path": "", "target": "/keep"},
        # the other creation paths of the write API
        {"op": "mkcompound", "path": "/z", "dims": [2], "members": [], "csize": 4, "enc": "v3"},
        {"op": "mkcompound", "path": "/z", "dims": [], "members": [{"name": "a", "type": "int32", "off": 0}], "csize": 4, "enc": "fields"},
        {"op": "mkcompound", "path": "/keep", "dims": [2], "members": [{"name": "a", "type": "int32", "off": 0}], "csize": 4, "enc": "fields"},
        {"op": "mkcompound", "path": "/z", "dims": [4], "chunk": [2], "members": [{"name": "a", "type": "int32", "off": 0}], "csize": 4, "enc": "fields"},
        {"op": "mkcompound", "path": "/z", "dims": [2], "members": [{"name": "a", "type": "int32", "off": 2}], "csize": 6, "enc": "fields"},
        {"op": "mkds", "path": "/z", "dtype": "array:int32", "dims": [2]}, {"op": "mkds", "path": "/z", "dtype": "enum:int8", "dims": [2]},
        {"op": "mkds", "path": "/z", "dtype": "enum:int8", "dims": [2], "enames": ["A", "B"], "evals": [1]},
        {"op": "mkds", "path": "/z", "dtype": "opaque", "dims": [2], "strsize": 0, "tag": "t"},
        {"op": "mkdense", "path": "/z", "links": {"a": "/absent"}}, {"op": "mkdense", "path": "/nope/z", "links": {"a": "/keep"}},
        {"op": "mkdense", "path": "/keep", "links": {"a": "/keep"}}, {"op": "mkdense", "path": "z", "links": {"a": "/keep"}},
        {"op": "mkgrouplinks", "path": "/z", "links": {"a": "/keep"}}, {"op": "mkgrouplinks", "path": "/z", "links": {"l%d" % i: "/absent" for i in range(9)}},
        {"op": "mkgrouplinks", "path": "/keep", "links": {}},
        {"op": "write", "path": "/keep", "vals": ["00", "01"]}, {"op": "write", "path": "/keep", "raw": True, "val": "0102"},
    ]
    rng.shuffle(bad)
    for b in bad[:rng.randint(3, len(bad))]:
        ops.append(b)
        if rng.random() < 0.3:
            kk, v = histgen.rand_attr_value(rng)
            ops.append({"op": "setattr", "path": "/keep", "name": hx("ok%d" % rng.randint(0, 3)), "kind": kk, "val": v.hex()})
    ops += [{"op": "mkds", "path": "/after", "dtype": "uint8", "dims": [2]}, {"op": "write", "path": "/after", "val": "0a0b"}]
    return ops


def refused_resize_case(rng):
    """a resizable chunked dataset of rank 2-3; a Resize that is refused for a zero extent in a LATER dimension while an earlier
    dimension asks for another number of chunk rows (also: beyond the maximum, rank mismatch); then a full Write through the same
    handle: the refused call must not have touched the handle's chunk grid (seeded change C16-e: data dropped / panic)"""
    rank = rng.choice([2, 2, 3])
    dims = [rng.choice([4, 6, 10, 20]) for _ in range(rank)]
    chunk = [max(1, min(d, rng.choice([2, 3, 5]))) for d in dims]
    maxd = [rng.choice([d * 4, histgen.UNLIMITED]) for d in dims]
    dt = rng.choice(["int32", "float64", "uint8"])
    d = dict(dtype=dt, dims=dims, chunk=chunk, maxdims=maxd)
    ops = [{"op": "mkds", "path": "/r", "dtype": dt, "dims": dims, "chunk": chunk, "maxdims": maxd}, histgen.write_op(rng, "/r", d),
           {"op": "mkds", "path": "/keep", "dtype": "int32", "dims": [2]}, {"op": "write", "path": "/keep", "val": "0100000002000000"}]
    for _ in range(rng.choice([1, 2, 3])):
        nd = list(dims)
        k = rng.choice(["zero-late", "zero-late", "zero-first", "beyond", "rank"])
        if k == "zero-late":
            z = rng.randrange(1, rank)
            for i in range(z):
                nd[i] = rng.choice([max(1, dims[i] // 4), dims[i] * 2, dims[i] * 3])
                if maxd[i] != histgen.UNLIMITED:
                    nd[i] = min(nd[i], maxd[i])
            nd[z] = 0
        elif k == "zero-first":
            nd[0] = 0; nd[-1] = max(1, dims[-1] // 2)
        elif k == "beyond":
            fixed = [i for i in range(rank) if maxd[i] != histgen.UNLIMITED]
            if fixed:
                nd[fixed[-1]] = maxd[fixed[-1]] + 1; nd[0] = max(1, dims[0] // 2)
            else:
                nd = nd + [1]
        else:
            nd = nd[:-1]
        ops.append({"op": "resize", "path": "/r", "dims": nd})
        if rng.random() < 0.8:
            ops.append(histgen.write_op(rng, "/r", d))
    ops += [{"op": "close"}, {"op": "close"}]
    return ops


def cases_for(rng, tier):
    n = 500 if tier == "quick" else 15000
    cases = []
    for _ in range(n):
        cases.append({"sb": rng.choice([0, 2, 3]), "ops": capacity_case(rng)})
        cases.append({"sb": rng.choice([0, 2, 3]), "ops": invalid_args_case(rng)})
        cases.append({"sb": rng.choice([0, 2, 3]), "ops": cached_header_case(rng)})
        cases.append({"sb": rng.choice([0, 2, 3]), "ops": histgen.gen_mixed(rng, nops=rng.choice([20, 50]), fail_rate=0.4, sessions=rng.choice([1, 1, 2]))})
    for _ in range(80 if tier == "quick" else 3000):
        cases.append({"sb": rng.choice([0, 2, 3]), "ops": refused_resize_case(rng)})
    # hard links whose target's header chunk is nearly full: the reference-count message may not fit, the call then fails and
    # must leave NO name behind and the name must stay available (seeded change C03-e: link written before the count update)
    from props import c03
    for _ in range(60 if tier == "quick" else 2000):
        ops = c03.fat_header_history(rng)
        tail = []
        for o in ops:
            if o["op"] == "hardlink" and rng.random() < 0.5:      # the same name again, as a dataset: refused iff the link exists
                tail.append({"op": "mkds", "path": o["path"], "dtype": "uint8", "dims": [1]})
        # a target of another kind with little room: a rank-23..25 dataset (soft-link objects are left to C03: the reader's handling of
        # soft links is a listed finding there)
        ops += [{"op": "mkds", "path": "/r24", "dtype": "int32", "dims": [1] * rng.choice([23, 24, 25])},
                {"op": "hardlink", "path": "/hr", "target": "/r24"}, {"op": "mkgroup", "path": "/hr"}]
        cases.append({"sb": rng.choice([0, 2, 3]), "ops": ops + tail + [{"op": "close"}, {"op": "close"}]})
    return cases


def run(ctx):
    return histcheck.run(ctx, cases_for(ctx.rng, ctx.tier), "C16", tags=None, unit_modules=["c04unit"],
                         rule_extra="C16 cases: valid operations interleaved with operations chosen to fail at each validation and capacity point "
                                    "(32-entry groups, 256-byte name heaps, 255-byte headers, dense attribute storage, closed writer, invalid "
                                    "arguments; also for CreateCompoundDataset, the array/enum/opaque kinds of CreateDataset, CreateDenseGroup and CreateGroupWithLinks); the logical content after Close must equal the model that ignores failed calls, no call may "
                                    "panic, Close is called repeatedly.")
