"""C05 - written files are well-formed: in bounds, disjoint, consistent, spec-decodable.

Tie: histories of public write-API calls (generators of C01-C04, C13: all superblock versions, chunked and
filtered datasets, compact and dense attributes, hard links, resizes, several sessions) are replayed on the
real library by the `hist` harness with "keep": the closed file stays on disk.  Every file is walked by the
independent decoder tools/h5spec.py (written from the HDF5 File Format Specification, not from the Go reader):
  (a) every visited structure lies inside the file (and at or below the superblock's end-of-file address),
  (b) the visited extents are pairwise disjoint,
  (c) signatures, versions, size fields and stored checksums are consistent,
  (d) the decoded tree (groups, links, dataset type/shape/layout/filters/raw bytes, attributes) equals the logical
      oracle (tools/histlib.py) - independently of the library's own reader,
  (e) every departure from the specification the decoder had to tolerate carries a tag listed for C05 in
      KNOWN_FINDINGS.json (printed as KNOWN-FINDING); an unlisted tag or any failure of (a)-(d) is a VIOLATION.
Files with NEW-STYLE GROUPS (CreateDenseGroup, CreateGroupWithLinks with more than 8 links) cannot be decoded by tools/h5spec.py
(Unsupported): everything outside those groups is still judged by it, and the whole file - the dense link storage included - by the
Coq whole-file walker coq/theories/Spec/Walk.v evaluated with vm_compute (judge_dense; budget DENSE_BUDGET files per run, the others are
counted as unjudged_new_style_group_files): accepted by the tolerant walk, walk_ok (theorem C05_walk_accepts_disjoint), tags listed,
tree summary == oracle.
The extent lists are also judged by the proved Coq function Model.Wellformed.extents_ok (theorems
C05_extents_ok_sound / _complete) and must agree with the Python sweep; the Coq models of CRC-32 and lookup3
are evaluated on checksum-covered byte ranges taken from the files and compared with the stored values.
"""
import collections, hashlib, json, os, shutil
import vlib, histlib, histgen, h5spec
from props import c05spec, c05walk
from histlib import ESZ, SIGNED, UNLIMITED, prod, hx

TRUSTED = ["C05: tools/h5spec.py (independent decoder: my reading of the HDF5 File Format Specification 3.0), tools/histlib.py oracle, hist harness glue",
           "C05: zlib (Python) for deflate and CRC-32 in the decoder; Coq Base/Crc32.v and Spec/Lookup3.v are compared with them on file bytes every run"]
ASSUMPTIONS = ["files are inspected after FileWriter.Close on a local file system"]

BUILD_DIR = os.path.join(vlib.BUILD, "c05files")
FILTER_ID = {"gzip": 1, "shuffle": 2, "fletcher32": 3}


# ----------------------------------------------------------------------------- generators

def single_ext(rng, i):
    """one dataset of the compound / array / enum / opaque(tag) / reference / variable-length kinds (spec_safe: see histgen)"""
    dims = histgen.rand_shape(rng, maxrank=3, maxelems=120)
    if rng.random() < 0.4:
        comp = histgen.rand_compound(rng, spec_safe=True)
        op = dict({"op": "mkcompound", "path": "/c%d" % (i % 3), "dims": dims}, **comp)
        d = dict(dtype="compound", dims=dims, comp=comp, csize=comp["csize"])
    else:
        f = histgen.rand_ext_kind(rng, spec_safe=True)
        op = dict({"op": "mkds", "path": "/x%d" % (i % 3), "dims": dims}, **f)
        d = dict(f, dims=dims)
        if rng.random() < 0.5:
            ch = histgen.rand_chunk(rng, dims)
            op["chunk"] = [min(c, x) for c, x in zip(ch, dims)]
            if rng.random() < 0.3 and not f["dtype"].startswith("vlen:"):
                op["filters"] = [x for x in ("shuffle", "gzip:%d" % rng.randint(1, 9), "fletcher32") if rng.random() < 0.5] or ["gzip:1"]
    ops = [op]
    if rng.random() < 0.9:
        ops.append(histgen.write_op(rng, op["path"], d))
    if rng.random() < 0.3:
        k, v = histgen.rand_attr_value(rng)
        ops.append({"op": "setattr", "path": op["path"], "name": hx("a"), "kind": k, "val": v.hex()})
    return ops


def single_dataset(rng, i):
    dt = rng.choice(list(ESZ) + ["string", "opaque"])
    dims = histgen.rand_shape(rng)
    op = {"op": "mkds", "path": "/d%d" % (i % 3), "dtype": dt, "dims": dims}
    if dt == "string":
        op["strsize"] = rng.choice([1, 4, 8, 17])
    if dt == "opaque":
        op["strsize"] = rng.choice([1, 3, 8, 16])
    if rng.random() < 0.7:
        ch = histgen.rand_chunk(rng, dims)
        op["chunk"] = [min(c, d) for c, d in zip(ch, dims)] if rng.random() < 0.9 else ch
        if rng.random() < 0.5 and dt not in ("opaque",):
            fl = [f for f in ("shuffle", "gzip:%d" % rng.randint(1, 9), "fletcher32") if rng.random() < 0.5]
            if fl:
                op["filters"] = fl
    n = prod(dims)
    def data():
        if dt == "opaque":
            return bytes(rng.getrandbits(8) for _ in range(n * op["strsize"]))
        return histgen.rand_data(rng, dt, n, op.get("strsize", 0))
    ops = [op]
    if rng.random() < 0.9:
        ops.append({"op": "write", "path": op["path"], "val": data().hex()})
        if rng.random() < 0.25:
            ops.append({"op": "write", "path": op["path"], "val": data().hex()})
    return ops


def cases_for(rng, tier):
    import props.c02 as c02, props.c03 as c03, props.c13 as c13
    q = tier == "quick"
    cases = []
    sbv = lambda: rng.choice([0, 2, 3])
    # spec_safe: see histgen.rand_compound, rand_ext_kind (classes the specification tie cannot express: proposed findings
    # C05-compound-member-float-props, C05-compound-string-member-not-last, replayed by known_cases).
    # dense: new-style groups (CreateDenseGroup / CreateGroupWithLinks with more than 8 links) are not implemented by tools/h5spec.py;
    # a share of the histories creates them (each one adds a 512 KiB heap block to the file): the Coq walker Spec/Walk.v is the judge of
    # those files (judge_dense), within the budget DENSE_BUDGET; the others are counted as unjudged_new_style_group_files.
    G = lambda: dict(spec_safe=True, dense=rng.random() < DENSE_SHARE)
    for i in range(750 if q else 20000):
        cases.append({"sb": sbv(), "ops": single_dataset(rng, i), "gen": "single"})
    for i in range(350 if q else 9000):
        cases.append({"sb": sbv(), "ops": single_ext(rng, i), "gen": "single-ext"})
    for i in range(500 if q else 12000):
        cases.append({"sb": sbv(), "ops": histgen.gen_mixed(rng, nops=rng.choice([12, 30, 60]), fail_rate=0.08, **G()), "gen": "mixed"})
    for i in range(160 if q else 6000):
        cases.append({"sb": sbv(), "ops": histgen.gen_mixed(rng, nops=rng.choice([30, 60]), sessions=rng.choice([2, 3]), fail_rate=0.05, **G()), "gen": "sessions"})
    for i in range(160 if q else 4000):
        cases.append({"sb": sbv(), "ops": histgen.gen_tail_kind(rng, **G()), "gen": "tail-kind"})
    for i in range(80 if q else 2000):       # an object of each kind, a neighbour right behind it, then its header grows (overlap clause)
        cases.append({"sb": sbv(), "ops": histgen.gen_grow_with_neighbour(rng, **G()), "gen": "grow-neighbour"})
    for i in range(350 if q else 9000):
        cases.append({"sb": sbv(), "ops": c02.one_history(rng, rng.choice([3, 8, 15, 30, 60, 120]), spec_safe=True), "gen": "attrs"})
    for i in range(240 if q else 6000):
        cases.append({"sb": sbv(), "ops": c03.one_history(rng, **G()), "gen": "tree"})
    for i in range(320 if q else 9000):
        cases.append({"sb": sbv(), "ops": c13.one_history(rng, spec_safe=True), "gen": "resize"})
    for i in range(30 if q else 1000):       # soft / external links (stored as separate objects by this writer)
        cases.append({"sb": sbv(), "ops": histgen.gen_mixed(rng, nops=rng.choice([12, 30]), fail_rate=0.05, soft_links=True, resize=False, **G()), "gen": "softlinks"})
        cases[-1]["ops"].append({"op": "extlink", "path": "/ext%d" % i, "file": "other_%d.h5" % i, "target": "/some/where"})
    # fixed corner cases: empty file, never-written datasets, full symbol table node
    for sb in (0, 2, 3):
        cases.append({"sb": sb, "ops": [], "gen": "corner"})
        cases.append({"sb": sb, "gen": "corner", "ops": [{"op": "mkds", "path": "/n", "dtype": "int16", "dims": [4], "chunk": [2]},
                                                          {"op": "mkds", "path": "/m", "dtype": "float32", "dims": [2, 2]}]})
        cases.append({"sb": sb, "gen": "corner", "ops": [{"op": "mkds", "path": "/e%02d" % (31 - i), "dtype": "uint8", "dims": [1]} for i in range(34)]})
    return cases


DENSE_SHARE = 0.10                     # share of the mixed / sessions / tail / grow / tree histories that may create new-style groups
DENSE_BUDGET = {"quick": 6, "thorough": 120}      # files judged by the Coq walker (about 5 s of one core each)
DENSE_MAXSIZE = 1700000                # bytes handed to Coq per file (a file with three dense groups)


VLEN_BASE = {"str": (3, 1, False), "i32": (0, 4, True), "i64": (0, 8, True), "u32": (0, 4, False), "u64": (0, 8, False),
             "f32": (1, 4, False), "f64": (1, 8, False)}


def vlen_cases(rng, n):
    """variable-length datasets (global heap collections); only reachable through the c05vlen harness subcommand"""
    out = []
    for i in range(n):
        dss = []
        for j in range(rng.choice([1, 1, 2, 3])):
            kind = rng.choice(list(VLEN_BASE))
            dims = histgen.rand_shape(rng, maxrank=2, maxelems=rng.choice([6, 40, 300]))
            bsz = VLEN_BASE[kind][1]
            vals = []
            for _ in range(prod(dims)):
                ln = rng.choice([0, 1, 2, 3, 7, 8, 9, rng.randint(0, 40), rng.choice([100, 500, 5000]) if rng.random() < 0.05 else 4])
                if kind == "str":
                    vals.append(bytes(rng.randint(1, 255) for _ in range(ln)).hex())
                else:
                    vals.append(bytes(rng.getrandbits(8) for _ in range(ln * bsz)).hex())
            d = {"path": "/v%d" % j, "kind": kind, "dims": dims, "vals": vals}
            if rng.random() < 0.4:
                d["chunk"] = [max(1, min(x, rng.choice([1, 2, 3, x]))) for x in dims]
            dss.append(d)
        out.append({"sb": rng.choice([0, 2, 3]), "datasets": dss, "gen": "vlen"})
    return out


def judge_vlen(case, r):
    problems = []
    if "results" not in r or not r.get("file"):
        return dict(problems=["harness: %s" % str(r)[:300]], tags={}, res=None, harness=True)
    if not r["create"].get("ok") or not r["close"].get("ok"):
        return dict(problems=["create: CreateForWrite/Close failed: %r %r" % (r["create"], r.get("close"))], tags={}, res=None)
    res = c05spec.walk(r["file"])
    for a, b in h5spec.overlaps(res["extents"])[:4]:
        problems.append("overlap: %s of %s at [%d,%d) overlaps %s of %s at [%d,%d)" % (a[2], a[3], a[0], a[1], b[2], b[3], b[0], b[1]))
    for e in res["errors"][:6]:
        problems.append("consistency: " + e)
    objs = res["tree"]["objects"]
    root = objs.get(res["tree"]["root"]) or {}
    want = {}
    for d, x in zip(case["datasets"], r["results"] or []):
        if x.get("panic"):
            problems.append("panic: creating/writing %s panicked: %s" % (d["path"], x["panic"][:200]))
        elif x.get("ok"):
            want[d["path"][1:].encode()] = d
        elif x.get("err", "").startswith("write:"):
            want[d["path"][1:].encode()] = dict(d, vals=None)
    if set(root.get("children", {})) != set(want):
        problems.append("tree: root group lists %s, expected %s" % (sorted(root.get("children", {})), sorted(want)))
    for nm, d in want.items():
        nd = objs.get(root.get("children", {}).get(nm))
        if nd is None or "error" in nd:
            continue
        dt = nd.get("dt") or {}
        if nd["kind"] != "dataset" or dt.get("cls") != 9 or dt.get("vlen") != ("string" if d["kind"] == "str" else "sequence") or \
           type_of(dt["base"]) != VLEN_BASE[d["kind"]]:
            problems.append("data: %s decodes as %s with datatype %s, written variable-length %s" % (d["path"], nd["kind"], {k: v for k, v in dt.items() if k != "base"}, d["kind"]))
            continue
        if list(nd["dims"]) != list(d["dims"]) or (nd["layout"] == "chunked") != ("chunk" in d):
            problems.append("data: %s has shape %s layout %s, created %s %s" % (d["path"], nd["dims"], nd["layout"], d["dims"], d.get("chunk")))
            continue
        if d["vals"] is not None and [x.hex() for x in nd["vlen"]] != d["vals"]:
            i = next((i for i, (a, b) in enumerate(zip(nd["vlen"], d["vals"])) if a.hex() != b), -1)
            problems.append("data: variable-length dataset %s decodes to different elements than were written (first difference at element %d)" % (d["path"], i))
    tags = {}
    for t, wh, de in res["deviations"]:
        tags.setdefault(t, (wh, de))
    return dict(problems=problems, tags=tags, res=res)


# ----------------------------------------------------------------------------- judgement of one file

def want_type(o):
    if o.dtype in ESZ:
        return (1 if o.dtype.startswith("float") else 0, ESZ[o.dtype], o.dtype in SIGNED)
    if o.dtype == "string":
        return (3, o.strsize, False)
    if o.dtype == "opaque":
        return (5, o.strsize, False)
    return None


def type_of(dt):
    return (dt["cls"], dt["size"], bool(dt.get("signed")) if dt["cls"] == 0 else False)


def dense_paths(exp):
    return [p for p, (oid, o) in exp.items() if o.kind == "group" and getattr(o, "dense", False)]


def compare_tree(orc, res, skip_below=()):
    """decoded tree vs. oracle; returns list of strings.  skip_below: paths of new-style groups the Python walker cannot enter (the paths
    through them are judged by judge_dense on the Coq walker's result)"""
    f = []
    objs = res["tree"]["objects"]
    root = res["tree"]["root"]
    exp = orc.expected()
    addr_of = {}
    for path, (oid, o) in exp.items():
        if any(path != g and path.startswith(g) for g in skip_below):
            continue
        cur = objs.get(root)
        ok = True
        if path != "/":
            for part in path.strip("/").split("/"):
                pb = part.encode("utf-8", "surrogateescape")
                if cur is None or cur.get("kind") != "group" or pb not in cur.get("children", {}):
                    ok = False
                    break
                cur = objs.get(cur["children"][pb])
        if not ok or cur is None:
            f.append("tree: path %s is not reachable in the decoded file" % path)
            continue
        if "error" in cur:
            continue                    # already reported under (c)
        addr_of.setdefault(oid, set()).add(cur["addr"])
        if cur["kind"] != o.kind:
            f.append("tree: %s decodes as %s, expected %s" % (path, cur["kind"], o.kind))
            continue
        if o.kind == "group":
            soft = getattr(o, "softlinks", {}) or {}
            want = set(o.children) | set(soft)
            if set(cur["children"]) != want:
                f.append("tree: group %s lists %s, expected %s" % (path, sorted(cur["children"])[:8], sorted(want)[:8]))
            for nm, (k, target, fname) in soft.items():
                ln = objs.get(cur["children"].get(nm))
                if ln is None or "error" in ln:
                    continue
                wantl = [dict(name=nm, kind="soft", value=target.encode())] if k == "softlink" else \
                        [dict(name=nm, kind="external", value=(fname.encode(), target.encode()))]
                if ln["kind"] != "linkobject" or ln.get("links") != wantl:
                    f.append("tree: link %s%s decodes as %s %s, created as %s" % (path, nm.decode("utf-8", "replace"), ln["kind"], ln.get("links"), wantl))
        # attributes
        if set(cur["attrs"]) != set(o.attrs):
            f.append("attr: %s has attributes %s, expected %s" % (path, sorted(cur["attrs"])[:10], sorted(o.attrs)[:10]))
        for nm, ea in o.attrs.items():
            a = cur["attrs"].get(nm)
            if a is None:
                continue
            got = (a["dt"]["cls"], a["dt"]["size"], bool(a["dt"].get("signed")) if a["dt"]["cls"] == 0 else False, a["nelem"], a["data"])
            want = (ea["cls"], ea["size"], bool(ea["bits"] & 8) if ea["cls"] == 0 else False, prod(ea["dims"]), ea["data"])
            if got != want:
                f.append("attr: attribute %r of %s decodes as class=%d size=%d signed=%s n=%d data=%s, written class=%d size=%d signed=%s n=%d data=%s" % (
                    (nm, path) + got[:4] + (got[4].hex()[:48],) + want[:4] + (want[4].hex()[:48],)))
        if o.kind != "dataset":
            continue
        wt = want_type(o)
        if wt is not None and type_of(cur["dt"]) != wt:
            f.append("data: dataset %s has type (class,size,signed)=%s, written %s %s" % (path, type_of(cur["dt"]), o.dtype, wt))
        for x in histlib.type_desc_problems(o, cur["dt"]):      # compound members, enum members, array dimensions, opaque tag, reference kind, vlen base
            f.append("data: dataset %s: %s" % (path, x))
        if list(cur["dims"]) != list(o.dims):
            f.append("data: dataset %s has shape %s, expected %s" % (path, cur["dims"], o.dims))
            continue
        if (cur["maxdims"] is None) != (o.maxdims is None) or (o.maxdims is not None and list(cur["maxdims"]) != list(o.maxdims)):
            f.append("data: dataset %s has maximum dimensions %s, expected %s" % (path, cur["maxdims"], o.maxdims))
        if (cur["layout"] == "chunked") != (o.chunk is not None):
            f.append("data: dataset %s has %s layout, created %s" % (path, cur["layout"], "chunked" if o.chunk else "contiguous"))
        elif o.chunk is not None and list(cur.get("chunk") or []) != list(o.chunk):
            f.append("data: dataset %s has chunk dimensions %s, created with %s" % (path, cur.get("chunk"), o.chunk))
        wf = sorted(FILTER_ID[x.split(":")[0]] for x in o.filters)
        if sorted(cur["filters"]) != wf:
            f.append("data: dataset %s has filters %s, created with %s" % (path, cur["filters"], o.filters))
        if isinstance(o.data, list):
            if "vlen" in cur and [bytes(x) for x in cur["vlen"]] != o.data:
                i = next((i for i, (a, b) in enumerate(zip(cur["vlen"], o.data)) if bytes(a) != b), -1)
                f.append("data: variable-length dataset %s decodes to different elements than were written (first difference at element %d)" % (path, i))
        elif o.data is not None and cur["data"] != o.data:
            i = next((i for i in range(min(len(cur["data"]), len(o.data))) if cur["data"][i] != o.data[i]), min(len(cur["data"]), len(o.data)))
            f.append("data: dataset %s decodes to different bytes than were written (first difference at byte %d; %d vs %d bytes)" % (path, i, len(cur["data"]), len(o.data)))
        if o.data is None and not isinstance(cur.get("data"), type(None)) and any(cur["data"]) and cur["layout"] == "contiguous":
            pass    # never written: content unspecified
    for oid, addrs in addr_of.items():
        if len(addrs) > 1:
            f.append("tree: hard links to one object lead to different object headers %s" % sorted(addrs))
    by_addr = collections.defaultdict(set)
    for oid, addrs in addr_of.items():
        for a in addrs:
            by_addr[a].add(oid)
    for a, oids in by_addr.items():
        if len(oids) > 1:
            f.append("tree: distinct objects share the object header at %d" % a)
    return f


def merge_dense(j, jd):
    j["problems"] += jd["problems"]
    for t, v in jd["tags"].items():
        j["tags"].setdefault(t, v)
    j["unjudged_dense"] = False
    j["dense_judged"] = jd


KINDCODE = {"group": 1, "dataset": 2}


def judge_dense(orc, cq, size):
    """the Coq walker's tolerant walk (c05walk.coq_judge) of a file with new-style groups against the logical oracle:
    acceptance, walk_ok (extents in bounds, below the end-of-file address, pairwise disjoint: theorem C05_walk_accepts_disjoint),
    deviation tags, and the tree summary: every oracle path resolves through the link lists (dense groups included) to an object of
    the right kind, hard links to one object lead to one header, every group lists exactly its links, datasets have the shape /
    datatype class, size, sign / layout class and every object the attribute names of the oracle."""
    from props import c06walk
    P, tags = [], {}
    if not cq["accept"]:
        return dict(problems=["consistency: the Coq specification walker (tolerant) rejects the file: %s" % c06walk.reason_name(cq["reason"])], tags={})
    for t in cq["tags"]:
        tags[c05walk.TAGNAME.get(t, "coq-tag-%d" % t)] = ("whole file", "tolerated by the Coq walker Spec/Walk.v (tag code %d)" % t)
    if not cq["disjoint"]:
        s = sorted(cq["extents"])
        bad = [(a, b) for a, b in zip(s, s[1:]) if b[0] < a[1]][:2]
        P.append("overlap: the structures the Coq walker visits are not pairwise disjoint inside the file: %s" % (
            ["%s[%d,%d)" % (c05walk.KINDNAME.get(x[2], x[2]), x[0], x[1]) for pair in bad for x in pair],))
    elif not cq["walk_ok"] and c05walk.XTAGS["sb-eof-stale"] not in cq["tags"]:
        P.append("bounds: walk_ok is false although no structure lies beyond the end-of-file address")
    by_addr = {o["addr"]: o for o in cq["tree"]}
    roots = [o for o in cq["tree"] if o["path"] == b"/"]
    if len(roots) != 1:
        return dict(problems=P + ["tree: the Coq walker lists %d root groups" % len(roots)], tags=tags)
    exp = orc.expected()
    addr_of = {}
    for path, (oid, o) in exp.items():
        cur = roots[0]
        for part in ([] if path == "/" else path.strip("/").split("/")):
            pb = part.encode("utf-8", "surrogateescape")
            nxt = None
            if cur is not None and cur["kind"] == 1:
                for (lt, nm), tg in zip(cur["links"], cur["targets"]):
                    if nm == pb:
                        nxt = by_addr.get(tg)
            cur = nxt
            if cur is None:
                break
        if cur is None:
            P.append("tree: path %s is not reachable in the file as the Coq walker decodes it" % path)
            continue
        addr_of.setdefault(oid, set()).add(cur["addr"])
        if cur["kind"] != KINDCODE.get(o.kind):
            P.append("tree: %s decodes as kind %d (Coq walker), expected %s" % (path, cur["kind"], o.kind))
            continue
        if o.kind == "group":
            want = set(o.children) | set(getattr(o, "softlinks", {}) or {})
            have = [nm for _, nm in cur["links"]]
            if set(have) != want or len(have) != len(want):
                P.append("tree: group %s lists %s (Coq walker%s), expected %s" % (path, sorted(have)[:8], ", dense link storage" if getattr(o, "dense", False) else "", sorted(want)[:8]))
        if set(cur["attrs"]) != set(o.attrs) or len(cur["attrs"]) != len(o.attrs):
            P.append("attr: %s has attributes %s (Coq walker), expected %s" % (path, sorted(cur["attrs"])[:10], sorted(o.attrs)[:10]))
        if o.kind != "dataset":
            continue
        wt = want_type(o)
        if wt is not None and (cur["cls"], cur["size"], bool(cur["bits"] & 8) if cur["cls"] == 0 else False) != wt:
            P.append("data: dataset %s has type (class,size,bits)=%s (Coq walker), written %s %s" % (path, (cur["cls"], cur["size"], cur["bits"]), o.dtype, wt))
        if list(cur["dims"]) != list(o.dims):
            P.append("data: dataset %s has shape %s (Coq walker), expected %s" % (path, cur["dims"], o.dims))
        if (cur["layout"] == 2) != (o.chunk is not None):
            P.append("data: dataset %s has layout class %d (Coq walker), created %s" % (path, cur["layout"], "chunked" if o.chunk else "contiguous"))
    for oid, addrs in addr_of.items():
        if len(addrs) > 1:
            P.append("tree: hard links to one object lead to different object headers %s (Coq walker)" % sorted(addrs))
    by = collections.defaultdict(set)
    for oid, addrs in addr_of.items():
        for a in addrs:
            by[a].add(oid)
    for a, oids in by.items():
        if len(oids) > 1:
            P.append("tree: distinct objects share the object header at %d (Coq walker)" % a)
    reach = set().union(*addr_of.values()) if addr_of else set()
    extra = [o for o in cq["tree"] if o["addr"] not in reach and o["kind"] != 3]
    if extra:
        P.append("tree: the file holds reachable objects the history did not create: %s" % [o["path"] for o in extra][:4])
    return dict(problems=P[:8], tags=tags, objects=len(cq["tree"]), dense_groups=sum(1 for _, (oid, o) in exp.items() if o.kind == "group" and getattr(o, "dense", False)),
                dense_links=sum(len(o.children) for _, (oid, o) in exp.items() if o.kind == "group" and getattr(o, "dense", False)))


def dense_link_tie(judged, limit=400):
    """Model/DenseLinkMsg.v enc_dense_link (transcription of internal/writer/densegroup_writer.go createLinkMessage; theorems
    C05_dense_link_* in Props/C05Walk.v) against the library: for every link of every dense group of the files the Coq walker judged, the
    model's bytes for (name, target address) must occur in the written file (they are a managed object of the group's fractal heap).
    judged: [(case, orc, data, cq)] -> (violations, stats)"""
    pairs = []
    for i, (c, orc, data, cq) in enumerate(judged):
        if not cq.get("accept") or c05walk.XTAGS["dense-link-private-layout"] not in cq["tags"]:
            continue
        dense = {(p.rstrip("/") or "/") for p in dense_paths(orc.expected())}
        for o in cq["tree"]:
            if o["kind"] == 1 and o["path"].decode("utf-8", "surrogateescape") in dense:
                for (lt, nm), tg in zip(o["links"], o["targets"]):
                    if lt == 0 and len(pairs) < limit:
                        pairs.append((i, nm, tg))
    if not pairs:
        return [], dict(dense_link_messages_compared=0)
    v = "From HV Require Import Base.Prelude Model.DenseLinkMsg.\nOpen Scope string_scope.\nOpen Scope N_scope.\n"
    v += "Definition ps : list (string * N) := [%s].\n" % "; ".join('("%s", %d)' % (nm.hex(), tg) for _, nm, tg in pairs)
    v += "Definition r := Eval vm_compute in map (fun p => enc_dense_link (unhex (fst p)) (snd p) 8) ps.\nPrint r.\n"
    got = c05walk.parse_nested(vlib.coq_eval(v, "c05denselink"), "r")
    viol = []
    if len(got) != len(pairs):
        raise RuntimeError("c05denselink: %d results for %d links" % (len(got), len(pairs)))
    ok = 0
    for (i, nm, tg), bs in zip(pairs, got):
        c, orc, data, cq = judged[i]
        if bytes(bs) in data:
            ok += 1
        elif not viol:
            viol.append(dict(what="the model of the densely stored link message (Model.DenseLinkMsg.enc_dense_link) for link %r -> %d gives %s, which does not occur in the file the library wrote" % (nm, tg, bytes(bs).hex()),
                             case={k: c[k] for k in ("sb", "ops") if k in c}, nofail=True,
                             correspondence="Model.DenseLinkMsg.enc_dense_link vs internal/writer/densegroup_writer.go createLinkMessage (bytes of the heap object in the written file)"))
    return viol, dict(dense_link_messages_compared=len(pairs), dense_link_messages_model_equals_file=ok)


def judge_file(case, r, coq=False):
    """-> dict(problems=[...], tags={tag: (where, detail)}, stats); coq: judge a file with new-style groups by the Coq walker right away"""
    problems = []
    if "results" in r and r["results"] is None:
        r["results"] = []
    if "results" not in r or not r.get("file"):
        return dict(problems=["harness: %s" % str(r)[:300]], tags={}, res=None, harness=True)
    if not r["create"].get("ok"):
        return dict(problems=["create: CreateForWrite failed: %r" % (r["create"],)], tags={}, res=None)
    orc, _fs, _snaps = histlib.run_oracle(case, r)
    res = c05spec.walk(r["file"])
    size = res["size"]
    for s, e, kind, owner in res["extents"]:
        if not (0 <= s < e <= size):
            problems.append("bounds: %s of %s at [%d,%d) is not inside the file (size %d)" % (kind, owner, s, e, size))
    for a, b in h5spec.overlaps(res["extents"])[:4]:
        problems.append("overlap: %s of %s at [%d,%d) overlaps %s of %s at [%d,%d)" % (a[2], a[3], a[0], a[1], b[2], b[3], b[0], b[1]))
    # New-style (dense) groups are not implemented by tools/h5spec.py (it raises Unsupported).  The generators avoid them
    # (dense=False), but a "duplicate request" aimed at a name whose earlier creation was refused (e.g. name heap full)
    # can succeed and create one.  Such a file cannot be judged by this walker: it is counted (stats: unjudged_dense),
    # its other clauses (bounds, overlap of what was visited) still gate, the unsupported error and the tree comparison do not.
    has_dense = any(o.kind == "group" and getattr(o, "dense", False) for o in orc.objs.values())
    unsup_dense = [e for e in res["errors"] if e.startswith("unsupported: ") and e.endswith("new-style group")]
    if has_dense and unsup_dense:
        for e in [e for e in res["errors"] if e not in unsup_dense][:6]:
            problems.append("consistency: " + e)
        # everything outside the new-style groups is still judged by the Python walker ...
        problems += compare_tree(orc, res, skip_below=dense_paths(orc.expected()))[:8]
        tags = {}
        for t, wh, de in res["deviations"]:
            tags.setdefault(t, (wh, de))
        j = dict(problems=problems, tags=tags, res=res, unjudged_dense=True, orc=orc)
        # ... and the whole file, the new-style groups included, by the Coq walker (deferred in the main loop: run() batches them)
        if coq:
            merge_dense(j, judge_dense(orc, c05walk.coq_judge([bytes(res["data"])])[0], res["size"]))
        return j
    for e in res["errors"][:6]:
        problems.append("consistency: " + e)
    problems += compare_tree(orc, res)[:8]
    tags = {}
    for t, wh, de in res["deviations"]:
        tags.setdefault(t, (wh, de))
    return dict(problems=problems, tags=tags, res=res)


def run_one(H, case):
    if "datasets" in case:
        r = vlib.run_harness(H, "c05vlen", [dict(sb=case["sb"], datasets=case["datasets"], dir=BUILD_DIR)])[0]
        j = judge_vlen(case, r)
        if r.get("file"):
            shutil.rmtree(os.path.dirname(r["file"]), ignore_errors=True)
        return r, j
    c = dict(sb=case["sb"], ops=case["ops"], config=case.get("config", ""), dir=BUILD_DIR, keep=True, nodata=True)
    r = vlib.run_harness(H, "hist", [c])[0]
    j = judge_file(case, r, coq=True)
    if r.get("file"):
        shutil.rmtree(os.path.dirname(r["file"]), ignore_errors=True)
    return r, j


def shrink(H, case, pred, budget=120):
    if "datasets" in case:
        best = case
        for d in case["datasets"]:
            c1 = dict(case, datasets=[d])
            try:
                if pred(run_one(H, c1)[1]):
                    best = c1
                    break
            except Exception:
                pass
        return best
    ops = list(case["ops"])
    tries = 0
    def bad(o):
        nonlocal tries
        tries += 1
        try:
            _, j = run_one(H, dict(case, ops=o))
        except Exception:
            return False
        return pred(j)
    changed = True
    while changed and tries < budget:
        changed = False
        n = len(ops)
        for size in sorted({max(1, n // 2), max(1, n // 4), max(1, n // 8), 1}, reverse=True):
            i = 0
            while i < len(ops) and tries < budget:
                t = ops[:i] + ops[i + size:]
                if t and bad(t):
                    ops = t
                    changed = True
                else:
                    i += size
    return dict(case, ops=ops)


# entries proposed for KNOWN_FINDINGS.json by the work that made the Coq walker the judge of new-style groups (the four deviations of
# internal/writer/densegroup_writer.go, each with a witness history and a Coq refutation theorem in Props/C05Walk.v); they count as listed
# (and are printed as KNOWN-FINDING with the word "proposed") until the coordinator moves them into KNOWN_FINDINGS.json
PROPOSED = os.path.join(vlib.VERIF, "notes", "c05-dense-known-findings-proposed.json")


def proposed_entries():
    if not os.path.exists(PROPOSED):
        return []
    listed = {e.get("id") for e in vlib.known_findings("C05")}
    return [dict(e, proposed=True) for e in json.load(open(PROPOSED))["findings"]
            if e.get("property") == "C05" and e.get("status") == "open" and e.get("id") not in listed]


def known_tags():
    entries = list(vlib.known_findings("C05")) + proposed_entries()
    extra = os.environ.get("VERIF_KNOWN_EXTRA")       # testing hook: a proposed list not yet committed
    if extra:
        entries += [e for e in json.load(open(extra))["findings"] if e.get("property") == "C05" and e.get("status") == "open"]
    return {e["tag"]: e for e in entries if "tag" in e}


def known_cases(H):
    """findings whose class the generated histories leave out (no deviation tag exists for them in the specification tie): the witness
    history of every listed entry that has `witness` and `match` is replayed; -> (known lines, violations)"""
    lines, viol = [], []
    entries = list(vlib.known_findings("C05"))
    listed_ids = {e["id"] for e in entries}
    extra = os.environ.get("VERIF_KNOWN_EXTRA")
    if extra:
        entries += [e for e in json.load(open(extra))["findings"] if e.get("property") == "C05" and e.get("status") == "open"]
    for cid, case, match in KNOWN_CASES:
        r, j = run_one(H, dict(case, gen="known"))
        hit = [p for p in j["problems"] if match in p]
        if any(e["id"] == cid for e in entries):
            lines.append("%s: %s" % (cid, hit[0][:200]) if hit else "%s: listed finding did NOT reproduce in this run (fixed upstream?)" % cid)
        elif hit:
            viol.append(dict(what=hit[0], failing_input={k: case[k] for k in ("sb", "ops")}, note="class %s is not listed in KNOWN_FINDINGS.json" % cid))
    return lines, viol


_M = lambda **kw: dict(kw)
KNOWN_CASES = [
    ("C05-compound-member-float-props",
     {"sb": 2, "ops": [{"op": "mkcompound", "path": "/c", "dims": [1], "csize": 4, "enc": "fields", "members": [{"name": "v", "type": "float32", "off": 0}]}]},
     "floating-point member description"),
    ("C05-compound-string-member-not-last",
     {"sb": 2, "ops": [{"op": "mkcompound", "path": "/c", "dims": [1], "csize": 8, "enc": "fields",
                        "members": [{"name": "s", "type": "string", "size": 4, "off": 0}, {"name": "i", "type": "int32", "off": 4}]}]},
     "empty name of compound member"),
]


# ----------------------------------------------------------------------------- Coq cross-check

def coq_crosscheck(samples, vectors):
    """samples: list of (size, eof, [(s,e)]) ; vectors: list of (algo, bytes, stored)"""
    v = ["From HV Require Import Base.Prelude Base.Crc32 Spec.Lookup3 Model.Wellformed.\n"]
    labels = []
    for k in range(0, len(samples), 40):
        part = samples[k:k + 40]
        name = "ext_%d" % k
        v.append("Definition %s : list (N * N * list (N*N)) := [%s].\n" % (name, ";".join(
            "(%d,%d,[%s])" % (fs, eof, ";".join("(%d,%d)" % x for x in l)) for fs, eof, l in part)))
        v.append("Definition r_%s := Eval vm_compute in map (fun c => match c with (fs, eof, l) => (if extents_ok fs eof l then 1 else 0) + (if extents_ok fs fs l then 2 else 0) end) %s.\nPrint r_%s.\n" % (name, name, name))
        labels.append(("r_" + name, part))
    v.append("Definition cks : list (N * string) := [%s].\n" % ";".join('(%d,"%s"%%string)' % (0 if a == "crc32" else 1, bytes(b).hex()) for a, b, st in vectors))
    v.append("Definition r_cks := Eval vm_compute in map (fun c => if fst c =? 0 then crc32 (unhex (snd c)) else hashlittle (unhex (snd c)) 0) cks.\nPrint r_cks.\n")
    out = vlib.coq_eval("".join(v), "c05cases")
    got = []
    for lab, part in labels:
        got += vlib.parse_nlist(out, lab)
    return got, vlib.parse_nlist(out, "r_cks")


def py_extents_ok(fs, eof, l):
    s = sorted(l)
    if any(not (a < b <= fs and b <= eof) for a, b in s):
        return False
    return all(x[1] <= y[0] for x, y in zip(s, s[1:]))


# ----------------------------------------------------------------------------- specification tie (Coq spec decoders)

REF_DIR = os.path.join(os.environ.get("VERIF_REPO", "/repo"), "testdata", "hdf5_official")


import re
# deliberately malformed files of the reference test suite (fuzzer findings, CVE reproducers, wrong counts/offsets)
REF_SKIP = re.compile(r"bad|cve|corrupt|memleak|infinite|fuzz|err_|zero_dim|invalid", re.I)


def reference_structs(nfiles):
    """structures of reference-library files (not written by this library) that the Python decoder accepts without any deviation"""
    out, used, seen = [], [], set()
    import glob
    for f in sorted(glob.glob(os.path.join(REF_DIR, "*.h5"))):
        if os.path.getsize(f) > 400000 or REF_SKIP.search(os.path.basename(f)):
            continue
        try:
            res = c05spec.walk(f, probe=True)
        except Exception:
            continue
        good = []
        for s in res["structs"]:
            k = (s["kind"], s["bytes"], tuple(s["ctx"]))
            if s.get("reject") or s["tags"] or k in seen:
                continue
            seen.add(k)
            s["ref"] = os.path.basename(f)
            good.append(s)
        if good:
            out += good
            used.append(os.path.basename(f))
        if len(used) >= nfiles:
            break
    return out, used


def spec_tie(H, ctx, structs):
    import time
    t0 = time.time()
    q = ctx.tier == "quick"
    budget = 3000 if q else 60000
    picked, nclasses = c05spec.sample(structs, ctx.rng, budget)
    refs, reffiles = reference_structs(1000)
    refpicked, _ = c05spec.sample(refs, ctx.rng, 800 if q else 20000)
    allp = picked + refpicked
    codes = c05spec.coq_codes(allp)
    viol = []
    hist = collections.Counter()
    strict_acc, tol_acc, rejected_both = collections.Counter(), collections.Counter(), collections.Counter()
    tagh = collections.Counter()
    seen_bad = set()
    for s, code in zip(allp, codes):
        k = s["kind"] + ("@ref" if "ref" in s else "")
        hist[k] += 1
        if code == 0:
            if s.get("reject"):
                rejected_both[k] += 1
            else:
                tol_acc[k] += 1
                if not s["tags"]:
                    strict_acc[k] += 1
                for t in s["tags"]:
                    tagh[t] += 1
        if code == 0 and not s.get("reject"):
            continue
        key = (s["kind"], code, bool(s.get("reject")), "ref" in s)
        if key in seen_bad or len(viol) >= 6:
            continue
        seen_bad.add(key)
        shown = c05spec.coq_show(s)
        src = ("reference file %s" % s["ref"]) if "ref" in s else "a file written by the library"
        if s.get("reject") and code == 0:
            viol.append(dict(what="the Coq specification decoder (strict and tolerant) and the Python decoder both reject the %s %s of %s: %s" % (
                                 s["kind"], s.get("where", ""), src, s.get("error", "")[:200]),
                             failing_input=case_input(s), structure=dict(kind=s["kind"], ctx=s["ctx"], bytes=s["bytes"].hex()[:4000]), coq=shown))
        else:
            d = dict(what="the Coq specification decoder and the Python decoder disagree on the %s %s of %s (code %d: %s); Python: %s" % (
                         s["kind"], s.get("where", ""), src, code, {1: "tolerant decoder", 2: "strict decoder", 3: "tolerant and strict decoder"}.get(code, "?"),
                         ("rejects: " + s.get("error", "")[:160]) if s.get("reject") else ("accepts with deviation tags %s" % s["tags"])),
                     structure=dict(kind=s["kind"], ctx=s["ctx"], bytes=s["bytes"].hex()[:4000], python_expected=c05spec.expected_val(s)[:2000]), coq=shown,
                     nofail=True, correspondence="Spec/Format*.v spec decoders (Model.SpecTie.obs) vs tools/h5spec.py on the same bytes")
            if "ref" not in s:
                d["case"] = case_input(s)
            viol.append(d)
    cov = dict(spec_structures_total=len(structs), spec_structure_classes=nclasses, spec_structures_checked=len(picked),
               spec_reference_files=len(reffiles), spec_reference_skipped="file names matching /%s/ (deliberately malformed test inputs)" % REF_SKIP.pattern, spec_reference_structures_checked=len(refpicked),
               spec_kind_histogram=dict(hist), spec_strict_accept=dict(strict_acc), spec_tolerant_accept=dict(tol_acc),
               spec_both_reject=dict(rejected_both), spec_tags=dict(tagh),
               spec_sampling="every distinct (kind, length, deviation tags, context) class once, then a uniform random sample up to %d structures; "
                             "structures longer than 6000 bytes (and all but 10 per kind of those longer than 1000 bytes) are left to the Python decoder" % budget,
               spec_wall_seconds=round(time.time() - t0, 1))
    return viol, cov


def case_input(s):
    c = s.get("case") or {}
    return {k: c[k] for k in ("sb", "ops", "datasets") if k in c}


# ----------------------------------------------------------------------------- driver

class Crash(Exception):
    pass


def wipe():
    for d in os.listdir(BUILD_DIR):
        shutil.rmtree(os.path.join(BUILD_DIR, d), ignore_errors=True)


def harness_case(c):
    if "datasets" in c:
        return dict(sb=c["sb"], datasets=c["datasets"], dir=BUILD_DIR)
    return dict(sb=c["sb"], ops=c["ops"], dir=BUILD_DIR, keep=True, nodata=True)


def produce(H, allcases, size=1500):
    """run the histories batch by batch (bounded disk use); yields (case, harness result); the files of a batch are
    removed when the consumer asks for the next batch"""
    for k in range(0, len(allcases), size):
        part = allcases[k:k + size]
        for sub, sel in (("hist", [c for c in part if "ops" in c]), ("c05vlen", [c for c in part if "datasets" in c])):
            if not sel:
                continue
            try:
                res = vlib.run_harness_parallel(H, sub, [harness_case(c) for c in sel])
            except RuntimeError:
                # the harness process died (a fatal Go runtime error cannot be recovered): find the history that kills it
                for c1 in sel:
                    try:
                        vlib.run_harness(H, sub, [harness_case(c1)], timeout=120)
                    except Exception as e1:
                        raise Crash(c1, str(e1))
                raise
            yield from zip(sel, res)
        wipe()


def run(ctx):
    global BUILD_DIR
    H, rng = ctx.harness, ctx.rng
    BUILD_DIR = vlib.scratch()          # private to this run; removed by vlib.cleanup()
    cases = cases_for(rng, ctx.tier)
    vcases = vlen_cases(rng, 200 if ctx.tier == "quick" else 4000)
    listed = known_tags()
    viol, tagcount, tagwit = [], collections.Counter(), {}
    kinds, sbs, gens = collections.Counter(), collections.Counter(), collections.Counter()
    nontrivial = set()
    first_bad, nbad, first_unlisted = None, 0, {}
    samples, vectors = [], []
    nfiles = nextents = unjudged_dense = 0
    structs = []
    walk_tie = c05walk.WalkTie(ctx)         # whole-file tie: the Coq walker Spec/Walk.v on a sample of the files
    dense_pending, dense_classes, dense_seen, dense_too_large = [], collections.Counter(), 0, 0
    dense_budget = DENSE_BUDGET.get(ctx.tier, 10)
    import time as _time0
    _tloop = _time0.time()
    try:
        for c, r in produce(H, cases + vcases):
            j = judge_vlen(c, r) if "datasets" in c else judge_file(c, r)
            for st in ((j.get("res") or {}).get("structs") or []):
                st["case"] = c
                structs.append(st)
            if j.get("harness"):
                viol.append(dict(what="hist harness failed on a case: " + j["problems"][0], case=c, nofail=True, correspondence="harness/hist"))
                continue
            nfiles += 1
            sbs[c["sb"]] += 1
            gens[c["gen"]] += 1
            if "datasets" in c:
                nsucc = 2 * sum(1 for x in (r["results"] or []) if x.get("ok"))
            else:
                nsucc = sum(1 for o, x in zip(c["ops"], r["results"]) if x.get("ok") and o["op"] not in ("close", "dump", "reopen"))
            res = j["res"]
            if j.get("unjudged_dense") and res is not None:
                # a file with new-style groups: the Coq walker is the judge (within the budget, one per (superblock, generator) class
                # first); the bytes are kept, the file itself is removed with its batch
                dense_seen += 1
                key = (c["sb"], c["gen"])
                if res["size"] > DENSE_MAXSIZE:
                    dense_too_large += 1
                elif len(dense_pending) < dense_budget and (dense_classes[key] == 0 or len(dense_pending) < 0.8 * dense_budget or dense_seen % 7 == 0):
                    dense_classes[key] += 1
                    dense_pending.append((c, j, bytes(res["data"])))
            else:
                walk_tie.offer(c, res)
            if nsucc >= 2 and res is not None:
                nontrivial.add(hashlib.sha256(res["data"]).hexdigest())
            if res is not None:
                nextents += len(res["extents"])
                for e in res["extents"]:
                    kinds[e[2]] += 1
                if len(samples) < (300 if ctx.tier == "quick" else 3000) and len(res["extents"]) <= 400:
                    samples.append((res["size"], res["sb"].get("eof", 0), [(e[0], e[1]) for e in res["extents"]]))
                if len(vectors) < 80:
                    for kind, addr, algo, s, e, stored in res["checks"]:
                        body = s if isinstance(s, bytes) else res["data"][s:e]
                        nk = sum(1 for v in vectors if v[0] == algo)
                        if len(body) <= 600 and nk < 40:
                            vectors.append((algo, body, stored))
            j["res_tags_python"] = set(j["tags"])
            for t, (wh, de) in j["tags"].items():
                tagcount[t] += 1
                tagwit.setdefault(t, dict(sb=c["sb"], where=wh, detail=de))
                if t not in listed and t not in first_unlisted:
                    first_unlisted[t] = (c, wh, de)
            if j["problems"]:
                nbad += 1
                if first_bad is None:
                    first_bad = (c, j)
    except Crash as e:
        c1, msg = e.args
        first = next((l for l in msg.splitlines() if "fatal error" in l or "panic" in l), msg[:200])
        return dict(violations=[dict(what="the library kills the process while replaying a history (%s)" % first.strip()[:200],
                                     failing_input={k: c1[k] for k in ("sb", "ops", "datasets") if k in c1}, stderr=msg[-1500:])], known=[],
                    coverage=dict(evaluations=nfiles, distinct_nontrivial=0, rule="aborted: process crash", samples=[]))
    finally:
        wipe()
    # the Coq specification decoders (Spec/Format*.v) on the structures of the written files and of reference files
    # ... and, at the same time (separate coqc processes), the Coq whole-file walker on a sample of the complete files
    # ... and the Coq walker as the judge of the files with new-style groups
    import concurrent.futures as _cf, time as _time
    _t0 = _time.time()
    loop_wall = round(_t0 - _tloop, 1)
    with _cf.ThreadPoolExecutor(2) as _ex:
        _fut = _ex.submit(walk_tie.finish)
        _futj = _ex.submit(c05walk.coq_judge, [d for _, _, d in dense_pending])
        spec_viol, spec_cov = spec_tie(H, ctx, structs)
        walk_viol, walk_cov = _fut.result()
        dense_res = _futj.result()
    dense_stats = collections.Counter()
    dense_tags = collections.Counter()
    for (c, j, data), cq in zip(dense_pending, dense_res):
        jd = judge_dense(j["orc"], cq, len(data))
        had = bool(j["problems"])
        merge_dense(j, jd)
        dense_stats["files"] += 1
        dense_stats["accepted"] += bool(cq["accept"])
        dense_stats["walk_ok"] += bool(cq.get("walk_ok"))
        dense_stats["objects"] += jd.get("objects", 0)
        dense_stats["dense_groups"] += jd.get("dense_groups", 0)
        dense_stats["dense_links"] += jd.get("dense_links", 0)
        dense_stats["bytes"] += len(data)
        for t, (wh, de) in jd["tags"].items():
            dense_tags[t] += 1
            if t in j["res_tags_python"]:
                continue
            tagcount[t] += 1
            tagwit.setdefault(t, dict(sb=c["sb"], where=wh, detail=de))
            if t not in listed and t not in first_unlisted:
                first_unlisted[t] = (c, wh, de)
        if jd["problems"] and not had:
            nbad += 1
            if first_bad is None:
                first_bad = (c, j)
    dl_viol, dl_cov = dense_link_tie([(c, j["orc"], data, cq) for (c, j, data), cq in zip(dense_pending, dense_res)])
    unjudged_dense = dense_seen - len(dense_pending)
    dense_wall = round(_time.time() - _t0, 1)
    if first_bad is not None:
        c, j = first_bad
        key = j["problems"][0].split(":")[0]
        small = shrink(H, c, lambda g: any(p.startswith(key) for p in g["problems"]), budget=14 if j.get("dense_judged") else 120)
        r2, j2 = run_one(H, small)
        pr = j2["problems"] or j["problems"]
        viol.append(dict(what="%s (history of %d ops, shrunk to %d; %d of %d files fail)" % (pr[0], len(c.get("ops") or c.get("datasets")), len(small.get("ops") or small.get("datasets")), nbad, nfiles),
                         failing_input={k: small[k] for k in ("sb", "ops", "datasets") if k in small}, findings=pr[:8], impl_results=r2.get("results"),
                         replay_hint="python3 tools/check.py C05 --replay <this file>"))
    for t, (c, wh, de) in sorted(first_unlisted.items()):
        small = shrink(H, c, lambda g, t=t: t in g["tags"], budget=12 if t in dense_tags and t not in c05spec.TAGS else 60)
        viol.append(dict(what="format deviation '%s' is not listed in KNOWN_FINDINGS.json for C05: %s: %s" % (t, wh, de[:200]),
                         failing_input={k: small[k] for k in ("sb", "ops", "datasets") if k in small}, tag=t, files_with_tag=tagcount[t]))
    known_lines = []
    for t, e in sorted(listed.items()):
        if tagcount.get(t):
            w = tagwit[t]
            known_lines.append("%s%s: %d of %d files; e.g. sb=%d %s: %s" % (e.get("id", "C05-" + t), " (proposed entry, notes/c05-dense-known-findings-proposed.json)" if e.get("proposed") else "",
                                                                        tagcount[t], nfiles, w["sb"], w["where"], w["detail"][:150]))
        else:
            known_lines.append("%s: listed finding did NOT reproduce in this run (fixed upstream?)" % e.get("id", "C05-" + t))
    # encoder-level findings whose witness is a theorem about the encoder transcription (tied byte-exactly to Go by C11):
    # Props/C05Spec.v is re-checked by check.py before this module runs, so reaching this point re-confirms them
    kc_lines, kc_viol = known_cases(H)
    known_lines += kc_lines
    viol += kc_viol
    reproduced = {e.get("id") for t, e in listed.items() if tagcount.get(t)}
    for e in vlib.known_findings("C05"):
        if e.get("confirmed_by_theorem") and e["id"] not in reproduced:
            known_lines.append("%s: %s (re-confirmed by theorem %s, Props/C05Spec.v re-checked in this run; no generated file uses this datatype class)"
                               % (e["id"], (e.get("what") or e.get("title") or "")[:160], e["confirmed_by_theorem"]))
    # Coq cross-check of the sweep and of the checksum models
    side, side_ok = 2, 0
    got, cks = coq_crosscheck(samples, vectors)
    want = [(1 if py_extents_ok(fs, eof, l) else 0) + (2 if py_extents_ok(fs, fs, l) else 0) for fs, eof, l in samples]
    if got != want:
        i = next(i for i, (a, b) in enumerate(zip(got, want)) if a != b)
        viol.append(dict(what="Coq extents_ok and the Python sweep disagree on an extent list", case=dict(size=samples[i][0], eof=samples[i][1], extents=samples[i][2]),
                         coq=got[i], python=want[i], nofail=True, correspondence="Model.Wellformed.extents_ok vs tools/props/c05.py py_extents_ok (theorems C05_extents_ok_sound/_complete)"))
    else:
        side_ok += 1
    wantck = [st for a, b, st in vectors]
    pyck = [(h5spec.crc32(b) if a == "crc32" else h5spec.lookup3(b)) for a, b, st in vectors]
    if cks != wantck or pyck != wantck:
        i = next(i for i in range(len(vectors)) if cks[i] != wantck[i] or pyck[i] != wantck[i])
        viol.append(dict(what="checksum models disagree on bytes taken from a written file (%s): stored %#x, Coq %#x, Python %#x" % (vectors[i][0], wantck[i], cks[i], pyck[i]),
                         case=dict(algo=vectors[i][0], bytes=vectors[i][1].hex()), nofail=True, correspondence="Base.Crc32.crc32 / Spec.Lookup3.hashlittle vs zlib.crc32 / h5spec.lookup3 vs stored checksum"))
    else:
        side_ok += 1
    viol += spec_viol
    viol += walk_viol
    viol += dl_viol
    cov = dict(evaluations=nfiles, distinct_nontrivial=len(nontrivial),
               rule="one evaluation = one closed file written by the real library from a generated API history, walked by the independent decoder "
                    "(bounds, disjointness, consistency, decoded tree == oracle, deviation tags within the known list); a file is non-trivial when at least two "
                    "mutating calls succeeded; distinct = distinct file contents (sha256)",
               samples=[dict(sb=c["sb"], gen=c["gen"], ops=[histcheck_short(o) for o in c["ops"][:8]], nops=len(c["ops"])) for c in cases[:1] + cases[200:201]] +
                       [dict(sb=c["sb"], gen="vlen", datasets=[dict(d, vals=d["vals"][:3]) for d in c["datasets"][:2]]) for c in vcases[:1]],
               superblock_versions=dict(sbs), generators=dict(gens), extents_total=nextents, unjudged_new_style_group_files=unjudged_dense, new_style_group_files=dense_seen,
               new_style_group_files_judged_by_coq_walker=dict(dense_stats, tags=dict(dense_tags), classes=len(dense_classes), too_large=dense_too_large, budget=dense_budget,
                                                                wall_seconds_parallel_phase=dense_wall, wall_seconds_generation_and_python_walk=loop_wall,
                                                                rule="files tools/h5spec.py cannot decode (new-style group): tolerant Spec.Walk.walk under vm_compute "
                                                                     "(Model/WalkJudgeTie.v); gate: accepted, walk_ok, tags listed, tree summary == oracle incl. the links of dense groups"), structure_kinds=dict(kinds),
               deviation_tags=dict(tagcount), files_failing=nbad, coq_extent_lists=len(samples), coq_checksum_vectors=len(vectors),
               checksum_vector_algos=dict(collections.Counter(a for a, b, s in vectors)),
               side_obligations=side, side_discharged=side_ok, programs=nfiles, disagreements_checked=nfiles)
    cov.update(spec_cov)
    cov.update(walk_cov)
    cov.update(dl_cov)
    return dict(violations=viol, known=known_lines, coverage=cov)


def histcheck_short(o):
    d = dict(o)
    if "val" in d and len(d["val"]) > 48:
        d["val"] = d["val"][:48] + "..(%d bytes)" % (len(o["val"]) // 2)
    return d


def replay(ctx, path):
    global BUILD_DIR
    BUILD_DIR = vlib.scratch()
    rp = json.load(open(path))
    case = rp["detail"].get("failing_input") or rp["detail"].get("case")
    os.makedirs(BUILD_DIR, exist_ok=True)
    r, j = run_one(ctx.harness, case)
    listed = known_tags()
    unlisted = sorted(t for t in j["tags"] if t not in listed)
    print(json.dumps(dict(results=r.get("results"), problems=j["problems"], deviation_tags=sorted(j["tags"]), unlisted_tags=unlisted), indent=1)[:6000])
    return j["problems"] + unlisted
