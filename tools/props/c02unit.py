"""C02 (unit level) - attribute write/delete histories on ONE dataset: Go library vs the Coq model.

run_unit(ctx) generates attribute histories on one dataset (created in the same session, so the
un-cached code path of attribute_write.go is taken), replays them through the `hist` harness and
compares, per history,
  (a) the ok/err class (a panic is its own class and is never predicted) of every WriteAttribute / DeleteAttribute call and
  (b) the attribute set listed after Close + reopen (name, datatype class, size, bit field, dims, raw bytes)
with the Coq model coq/theories/Model/Attr.v (name_hash := Spec/Lookup3.hashlittle _ 0, parameters
go_params base) evaluated by coqc on a generated cases file (Model/AttrTie.v: check_case).
Non-gating fidelity diagnostics: listing order, storage form (compact/dense, read from the kept file),
and the header byte count `base` the model is run with (formula vs file).
The independent Python map oracle (tools/histlib.py) judges every Go result on its own: a history on
which Go violates the map semantics is a violation with that history as failing input; model != Go with
the oracle satisfied is reported as nofail (the model has to be corrected).

Also usable stand-alone:  python3 tools/props/c02unit.py [quick|thorough] [seed]
"""
import os, re, json, shutil, struct, sys, time

sys.path.insert(0, os.path.dirname(os.path.dirname(os.path.abspath(__file__))))
import vlib, histlib, histgen

TRUSTED = ["C02-unit: Go values are mapped to (class, size, bit field, dims, bytes) by the Python side exactly as "
           "histlib does (reflect-based inference of attribute_write.go is modelled by that table); an encoded attribute "
           "message is represented in the model by the attribute it decodes to plus its encoded length (C11 covers the bytes)"]

DS_CONFIGS = [  # (dtype, dims) of the carrier dataset -> base = sum(4+len) over datatype, dataspace, layout messages
    ("int32", [3]), ("float64", [2]), ("int32", [2, 2]), ("uint8", [4]), ("float32", [2, 3, 1])]


def base_of(dtype, dims):
    dt = 20 if dtype.startswith("float") else 12
    return (4 + dt) + (4 + 8 + 8 * len(dims)) + (4 + 18)


def value_of(kind, raw):
    """(class, size, bits, dims, data) the API stores for a Go value, None when WriteAttribute must refuse it."""
    if kind in ("nil", "bool", "[]u8"):
        return None
    if kind == "str":
        return (3, len(raw) + 1, 0, [1], raw + b"\x00")
    cls, size, bits = histlib.KIND[kind]
    if kind.startswith("[]"):
        n = len(raw) // size
        if n == 0:
            return None
        return (cls, size, bits, [n], raw[:n * size])
    return (cls, size, bits, [1], raw[:size])


def msg_size(name, val):
    cls, size, bits, dims, data = val
    return 9 + len(name) + 1 + {0: 12, 1: 20, 3: 9}[cls] + 8 + 8 * len(dims) + len(data)


# ----------------------------------------------------------------------------- generator

def rand_name(rng, i):
    t = rng.random()
    base = rng.choice(["a", "b", "units", "scale", "k", "kk", "ünï", "attr_", "n", "x_y", "name with space", "Z" * 12, "m" * 13])
    nm = (base + str(i)).encode("utf-8")
    if t < 0.12:
        nm += b"_" * rng.choice([20, 60, 100, 150, 200 - len(nm) if len(nm) < 200 else 0])
    elif t < 0.16:
        nm = bytes([rng.randint(1, 255) for _ in range(rng.choice([1, 2, 11, 12, 13, 24, 25]))])   # lookup3 block boundaries
    elif t < 0.18:
        nm = nm + b"\x00" + b"tail"       # embedded NUL: names are length-prefixed in the message
    return nm


def gen_history(rng, nops):
    """ops over a pool of names; the number of live attributes hovers around a target band."""
    npool = rng.choice([3, 5, 8, 10, 12, 14])
    pool = []
    while len(pool) < npool:
        nm = rand_name(rng, len(pool))
        if nm not in pool:
            pool.append(nm)
    lo, hi = rng.choice([(1, 3), (2, 5), (6, 9), (7, 9), (7, 10), (3, 12)])
    big_rate = rng.choice([0.0, 0.05, 0.15, 0.4])
    live = {}            # name -> last kind/len written (assuming success; only steers the generator)
    ops = []
    for _ in range(nops):
        r = rng.random()
        if r < 0.03:
            ops.append(("set", rng.choice(pool), rng.choice(["nil", "bool", "[]u8", "[]i32"]), b""))      # refused values
            continue
        if r < 0.045:
            k, v = histgen.rand_attr_value(rng)
            ops.append(("set", b"", k, v))                                                                 # empty name
            continue
        if r < 0.10:
            absent = [n for n in pool if n not in live] or [b"never_written"]
            ops.append(("del", rng.choice(absent + [b"never_written", b""])))
            continue
        n_live = len(live)
        p_del = 0.75 if n_live > hi else (0.08 if n_live < lo else 0.33)
        if live and rng.random() < p_del:
            nm = rng.choice(sorted(live))
            ops.append(("del", nm))
            live.pop(nm, None)
            continue
        # write: new name or overwrite
        if live and rng.random() < (0.75 if n_live >= hi else 0.4):
            nm = rng.choice(sorted(live))
        else:
            nm = rng.choice(pool)
        if nm in live and rng.random() < 0.45:
            kind, ln = live[nm]                       # same encoded size: same kind, same length
            if kind == "str":
                val = bytes(rng.randint(1, 255) for _ in range(ln))
            else:
                val = bytes(rng.getrandbits(8) for _ in range(ln))
        else:
            kind, val = histgen.rand_attr_value(rng, big=rng.random() < big_rate)
        ops.append(("set", nm, kind, val))
        live[nm] = (kind, len(val))
    return ops


def boundary_histories(rng):
    """hand-made histories at the capacity limits (header-full boundary, replacement that does not fit,
    index capacity, object size limit)."""
    out = []
    base = base_of("int32", [3])                      # 58
    # header exactly full / one byte over, with a string attribute of chosen length
    for total in (254, 255, 256):
        # one attribute "s": 4 + 9 + 2 + 9 + 16 + (L+1) = total - base  =>  L = total - base - 41
        L = total - base - 41
        ops = [("set", b"s", "str", b"q" * L), ("set", b"t", "i8", b"\x01"), ("del", b"s"), ("set", b"s", "str", b"r" * L)]
        out.append(ops)
    # replacement that does not fit (compact): error, old value stays; then a smaller one fits
    out.append([("set", b"a", "i32", b"\x01\0\0\0"), ("set", b"b", "i32", b"\x02\0\0\0"), ("set", b"c", "i32", b"\x03\0\0\0"),
                ("set", b"d", "i32", b"\x04\0\0\0"), ("set", b"b", "[]f64", b"\x11" * 80), ("set", b"b", "[]i32", b"\x12" * 8),
                ("del", b"a"), ("set", b"b", "[]f64", b"\x13" * 80), ("set", b"e", "str", b"z" * 230), ("set", b"b", "u8", b"\x09")])
    # first attribute already too big for the header: dense from the start
    out.append([("set", b"big", "str", b"B" * 230), ("set", b"big", "str", b"C" * 230), ("set", b"big", "str", b"D" * 10),
                ("del", b"big"), ("del", b"big"), ("set", b"x", "i8", b"\x01")])
    # dense storage emptied completely and refilled
    names = [("n%d" % i).encode() for i in range(9)]
    ops = [("set", n, "i64", struct.pack("<q", i)) for i, n in enumerate(names)]
    ops += [("del", n) for n in names] + [("del", names[0])] + [("set", n, "f32", struct.pack("<I", 0x7F800001 + i)) for i, n in enumerate(names)]
    out.append(ops)
    return out


def limit_histories():
    """capacity limits with long histories / huge names (thorough tier and stand-alone runs)."""
    out = []
    # index capacity: 371 records
    ops = [("set", ("n%d" % i).encode(), "i8", b"\x01") for i in range(374)]
    ops += [("set", b"n5", "i16", b"\x01\x01"), ("del", b"n6"), ("set", b"n373", "i16", b"\x01\x01"), ("set", b"n372", "u8", b"\x07")]
    out.append(ops)
    # largest object the heap takes / one byte more; name of 65534 bytes
    L = 65536 - (9 + 2 + 9 + 16 + 1)
    out.append([("set", b"a", "i8", b"\x01"), ("set", b"s", "str", b"s" * L), ("set", b"s", "str", b"s" * (L + 1)), ("set", b"b", "i8", b"\x02")])
    out.append([("set", b"x" * 65534, "i8", b"\x01"), ("set", b"y", "i8", b"\x02")])
    out.append([("set", b"y", "i8", b"\x02"), ("set", b"x" * 65535, "i8", b"\x01"), ("set", b"y", "i8", b"\x03")])   # refused (panicked before df71171)
    return out


def to_case(ops, dsconf, builddir):
    dtype, dims = dsconf
    hops = [{"op": "mkds", "path": "/d", "dtype": dtype, "dims": dims}]
    for o in ops:
        if o[0] == "set":
            hops.append({"op": "setattr", "path": "/d", "name": o[1].hex(), "kind": o[2], "val": o[3].hex()})
        else:
            hops.append({"op": "delattr", "path": "/d", "name": o[1].hex()})
    return {"sb": 2, "dir": builddir, "ops": hops, "keep": True}


# ----------------------------------------------------------------------------- Coq side

def cb(b):
    """Coq term of type bytes; long runs of one byte are not spelled out (coqc's parser overflows its stack on
    string literals of 100k characters)."""
    b = bytes(b)
    if len(b) > 400 and len(set(b[:-1])) == 1:
        head = "rp %d %d" % (len(b) - 1, b[0])
        return "(%s ++ [%d])" % (head, b[-1])
    if len(b) > 2000:      # coqc cannot parse very long string literals
        return "(" + " ++ ".join('uh "%s"' % b[i:i + 2000].hex() for i in range(0, len(b), 2000)) + ")"
    return '(uh "%s")' % b.hex()


def coq_op(o):
    if o[0] == "del":
        return "Db %s" % cb(o[1])
    v = value_of(o[2], o[3])
    if v is None:
        return 'WB "%s"' % o[1].hex()[:200]
    return "Wb %s %d %d %d %s %s" % (cb(o[1]), v[0], v[1], v[2], vlib.cNlist(v[3]), cb(v[4]))


def coq_case(base, ops, gres, gattrs, gform):
    ga = ";".join("GAb %s %d %d %d %s %s" % (cb(bytes.fromhex(a["name"])), a["class"], a["size"], a["bits"],
                                             vlib.cNlist(a.get("dims") or []), cb(bytes.fromhex(a["data"])))
                  for a in gattrs)
    return "(%d, [%s], %s, [%s], %d)" % (base, ";".join(coq_op(o) for o in ops), vlib.cNlist(gres), ga, gform)


def parse_nested(out, label):
    m = re.search(re.escape(label) + r"\s*=\s*(.*?)\n\s*:\s", out, re.S)
    if not m:
        raise RuntimeError("cannot find %s in coqc output:\n%s" % (label, out[-1500:]))
    txt = re.sub(r"%[A-Za-z]+", "", m.group(1))
    txt = txt.replace(";", ",").replace("(", "[").replace(")", "]")
    return json.loads(txt)


def _eval_part(args):
    k, part, chunk = args
    parts = ["From HV Require Import Base.Prelude Model.Attr Model.AttrTie.\n"]
    labels = []
    for j in range(0, len(part), chunk):
        name = "uc_%d" % j
        parts.append("Definition %s : list ucase := [%s].\n" % (name, ";\n".join(part[j:j + chunk])))
        parts.append("Definition r_%s := Eval vm_compute in map check_case %s.\nPrint r_%s.\n" % (name, name, name))
        labels.append("r_" + name)
    out = vlib.coq_eval("".join(parts), "c02unit_cases_%d" % k)
    res = []
    for l in labels:
        res += parse_nested(out, l)
    return res


def eval_model(cases_coq, chunk=10, workers=12):
    """cases_coq: list of Coq terms of type ucase -> list of [code, tag, tag, ...].
    Elaborating the literals dominates (about 0.1 ms per transported byte), so the cases are spread
    over several coqc processes."""
    import concurrent.futures as cf
    if not cases_coq:
        return []
    n = max(1, (len(cases_coq) + workers - 1) // workers)
    jobs = [(k, cases_coq[k:k + n], chunk) for k in range(0, len(cases_coq), n)]
    with cf.ThreadPoolExecutor(workers) as ex:
        parts = list(ex.map(_eval_part, jobs))
    return [r for p in parts for r in p]


def show_model(case_coq):
    out = vlib.coq_eval("From HV Require Import Base.Prelude Model.Attr Model.AttrTie.\n"
                        "Definition shown := Eval vm_compute in show_case %s.\nPrint shown.\n" % case_coq, "c02unit_show")
    r = parse_nested(out, "shown")
    flat = lambda v: v  # nested pairs print left-nested: ((((a,b),c),d),e) is shown as (a, b, c, d, e)
    return dict(results=r[0], attrs=[dict(name=bytes(a[0]).hex(), **{"class": a[1][0], "size": a[1][1], "bits": a[1][2],
                                                                       "dims": a[1][3], "data": bytes(a[1][4]).hex()}) for a in r[1]],
                form={0: "compact", 1: "dense", 3: "broken"}.get(r[2], r[2]))


# ----------------------------------------------------------------------------- Go side

def parse_ohdr(path, addr):
    with open(path, "rb") as f:
        f.seek(addr)
        b = f.read(7 + 255)
    if b[:4] != b"OHDR":
        return None
    p, end, msgs = 7, 7 + b[6], []
    while p + 4 <= end:
        t, sz = b[p], int.from_bytes(b[p + 1:p + 3], "little")
        msgs.append((t, sz))
        p += 4 + sz
    return msgs


INFO_TYPES = (0x15, 0x0F)


def go_observables(case, res):
    """per-op result codes (attribute ops only), attribute list of /d, storage form, base from the file"""
    codes = [2 if r.get("panic") else (0 if r.get("ok") else 1) for r in res["results"][1:]]
    obj = next((o for o in (res["final"].get("objects") or []) if o["path"] == "/d"), None)
    attrs = (obj or {}).get("attrs") or []
    form, fbase = 2, None
    f = res.get("file")
    if f and obj and os.path.exists(f):
        msgs = parse_ohdr(f, obj["addr"])
        if msgs is not None:
            # Attribute Info message: type 0x15 (0x0F in trees before dfd678f)
            form = 1 if any(t in INFO_TYPES for t, _ in msgs) else 0
            fbase = sum(4 + s for t, s in msgs if t != 0x0C and t not in INFO_TYPES)
    return codes, obj, attrs, form, fbase


BRANCH = {1: "write:value-refused", 2: "write:threshold-transition", 3: "write:compact-replace", 4: "write:compact-replace-too-big",
          5: "write:compact-add", 6: "write:header-full-transition", 7: "write:dense-same-size", 8: "write:dense-other-size",
          9: "write:dense-new", 10: "write:after-overflow", 11: "delete:compact-present", 12: "delete:compact-absent",
          13: "delete:dense-present", 14: "delete:dense-absent", 15: "delete:after-overflow"}


def judge(H, builddir, histories, confs):
    """run Go + model on the histories; returns per-history records"""
    cases = [to_case(ops, conf, builddir) for ops, conf in zip(histories, confs)]
    results = vlib.run_harness_parallel(H, "hist", cases, workers=8)
    recs, coq_cases = [], []
    for ops, conf, case, res in zip(histories, confs, cases, results):
        rec = dict(ops=ops, conf=conf, case=dict(case, keep=False), res=res)
        if "results" not in res:
            rec.update(harness_fail=res)
            recs.append(rec)
            coq_cases.append(None)
            continue
        codes, obj, attrs, form, fbase = go_observables(case, res)
        base = base_of(*conf)
        rec.update(go_codes=codes, go_attrs=attrs, go_form=form, base=base, file_base=fbase,
                   attrerr=(obj or {}).get("attrerr"), missing=obj is None)
        rec["oracle"] = histlib.check_case(case, res)
        coq_cases.append(coq_case(base, ops, codes, attrs, form))
        recs.append(rec)
        d = os.path.dirname(res.get("file") or "")
        if d and os.path.basename(d).startswith("hist-"):
            shutil.rmtree(d, ignore_errors=True)
    idx = [i for i, c in enumerate(coq_cases) if c is not None]
    out = eval_model([coq_cases[i] for i in idx]) if idx else []
    for i, r in zip(idx, out):
        recs[i]["code"], recs[i]["tags"], recs[i]["coq"] = r[0], r[1:], coq_cases[i]
    return recs


def shrink(H, builddir, ops, conf, pred, budget=60):
    """delta debugging on the op list; pred(ops) -> True while the failure persists"""
    n = 2
    while len(ops) >= 2 and budget > 0:
        size = max(1, len(ops) // n)
        reduced = False
        for s in range(0, len(ops), size):
            cand = ops[:s] + ops[s + size:]
            budget -= 1
            if cand and pred(cand):
                ops, n, reduced = cand, max(n - 1, 2), True
                break
            if budget <= 0:
                break
        if not reduced:
            if size == 1:
                break
            n = min(len(ops), n * 2)
    return ops


def ops_json(ops):
    return [dict(op=o[0], name=o[1].hex(), **({"kind": o[2], "val": o[3].hex()} if o[0] == "set" else {})) for o in ops]


def run_unit(ctx):
    """see module docstring"""
    H, rng = ctx.harness, ctx.rng
    t0 = time.time()
    builddir = os.path.join(vlib.VERIF, "build")
    os.makedirs(builddir, exist_ok=True)
    thorough = ctx.tier == "thorough"
    nrand = 2500 if thorough else 200
    histories, confs = [], []
    for ops in boundary_histories(rng):
        histories.append(ops); confs.append(DS_CONFIGS[0])
    for _ in range(nrand):
        histories.append(gen_history(rng, rng.randint(20, 120)))
        confs.append(rng.choice(DS_CONFIGS))
    if thorough or getattr(ctx, "limits", False):
        for ops in limit_histories():
            histories.append(ops); confs.append(DS_CONFIGS[0])
    recs = []
    for k in range(0, len(histories), 400):
        recs += judge(H, builddir, histories[k:k + 400], confs[k:k + 400])
    violations, hist_branch, n_eval = [], {}, 0
    known, known_hits = [], {}
    listed = {k["id"] for k in vlib.known_findings("C02")}
    order_diff = form_diff = base_diff = overflow = 0
    nattr_hist, len_hist, refused = {}, {}, 0
    seen = set()
    for rec in recs:
        if "harness_fail" in rec:
            violations.append(dict(what="C02 unit: harness failed on a history: %s" % str(rec["harness_fail"])[:200],
                                   failing_input=rec["case"], nofail=True, correspondence="hist harness"))
            continue
        n_eval += len(rec["ops"])
        seen.add(json.dumps(ops_json(rec["ops"]), sort_keys=True))
        for t in rec["tags"]:
            hist_branch[BRANCH.get(t, t)] = hist_branch.get(BRANCH.get(t, t), 0) + 1
        refused += sum(1 for c in rec["go_codes"] if c != 0)
        nattr_hist[len(rec["go_attrs"])] = nattr_hist.get(len(rec["go_attrs"]), 0) + 1
        b = len(rec["ops"]) // 20 * 20
        len_hist[b] = len_hist.get(b, 0) + 1
        code = rec["code"]
        order_diff += bool(code & 4); form_diff += bool(code & 8); overflow += bool(code & 16)
        if rec["file_base"] is not None and rec["file_base"] != rec["base"]:
            base_diff += 1
        oracle = rec["oracle"]
        if oracle:
            # Go violates the map semantics on this history.  Two delimited classes are known findings (when listed):
            kid = None
            if code & 16:
                kid = "C02-dense-heap-overflow"          # the model predicts the overflow (state Broken)
            if kid and kid in listed:
                known_hits[kid] = known_hits.get(kid, 0) + 1
                if known_hits[kid] == 1:
                    known.append("%s re-confirmed: %s" % (kid, oracle[0].what[:160]))
                continue
            conf = rec["conf"]
            def still_bad(cand, conf=conf):
                c = to_case(cand, conf, builddir); c["keep"] = False
                r = vlib.run_harness(H, "hist", [c])[0]
                return "results" in r and bool(histlib.check_case(c, r))
            small = shrink(H, builddir, list(rec["ops"]), conf, still_bad)
            c = to_case(small, conf, builddir); c["keep"] = False
            r = vlib.run_harness(H, "hist", [c])[0]
            f = histlib.check_case(c, r) or oracle
            violations.append(dict(what="C02 unit: attribute history does not behave like a map: %s" % f[0].what[:300],
                                   failing_input=c, findings=[x.what[:300] for x in f][:6], known_class_candidate=kid,
                                   implementation=dict(results=r.get("results"), attrs=[[dict(a, data=a["data"][:80]) for a in (o.get("attrs") or [])][:12]
                                                                                        for o in (r.get("final", {}).get("objects") or []) if o["path"] == "/d"]),
                                   model_code=code, ops=[dict(o, val=o.get("val", "")[:80], name=o["name"][:80]) for o in ops_json(small)][:40]))
        elif code & 16:
            continue        # model left its domain (heap overflow) and the oracle is satisfied: nothing to compare
        elif code & 3 or base_diff and rec["file_base"] != rec["base"]:
            try:
                model = show_model(rec["coq"])
            except Exception as e:  # pragma: no cover
                model = dict(error=str(e))
            violations.append(dict(what="C02 unit: Coq model and Go disagree on %s although Go satisfies the map oracle (model to be corrected)" %
                                        ("per-call answers" if code & 1 else "the final attribute set"),
                                   nofail=True, correspondence="Model/Attr.v (write_attr/delete_attr/read_attrs) vs attribute_write.go; theorem C02_refines_map",
                                   case=rec["case"], ops=ops_json(rec["ops"]), base=rec["base"], file_base=rec["file_base"],
                                   implementation=dict(results=rec["go_codes"], attrs=rec["go_attrs"], form=rec["go_form"]), model=model))
    samples = []
    for rec in recs[:2] + recs[len(boundary_histories(rng)):len(boundary_histories(rng)) + 2]:
        if "ops" in rec:
            samples.append(dict(ops=ops_json(rec["ops"])[:12], n_ops=len(rec["ops"]), go_results=rec.get("go_codes", [])[:12],
                                n_attrs_after_reopen=len(rec.get("go_attrs", [])), storage={0: "compact", 1: "dense", 2: "?"}[rec.get("go_form", 2)]))
    return dict(violations=violations, known=known, evaluations=n_eval, distinct=len(seen), samples=samples,
                histories=len(recs), branches=hist_branch, refused_calls=refused,
                final_attr_count_histogram=dict(sorted(nattr_hist.items())), history_length_histogram=dict(sorted(len_hist.items())),
                fidelity=dict(listing_order_differs=order_diff, storage_form_differs=form_diff, header_base_differs=base_diff,
                              model_left_domain_heap_overflow=overflow),
                rule="one evaluation = one WriteAttribute/DeleteAttribute call replayed in Go and in the Coq model; a history is "
                     "distinct by its exact op list; gating: per-call ok/err/panic class and the attribute set after reopen",
                wall_s=round(time.time() - t0, 1))


if __name__ == "__main__":
    class Ctx:
        pass
    ctx = Ctx()
    pos = [a for a in sys.argv[1:] if not a.startswith("--")]
    ctx.tier = pos[0] if pos else "quick"
    if len(pos) > 1:
        os.environ["VERIF_SEED"] = pos[1]
    ctx.seed, ctx.rng = vlib.seed_for("C02U")
    ctx.limits = "--limits" in sys.argv
    ok, log = vlib.coq_make()
    if not ok:
        print(log[-3000:]); sys.exit(2)
    try:
        ctx.harness = vlib.build_harness()
        out = run_unit(ctx)
    finally:
        vlib.cleanup()
    v = out.pop("violations")
    print(json.dumps(out, indent=1, default=str)[:6000])
    for x in v[:5]:
        print("VIOLATION:", json.dumps(x, indent=1, default=str)[:3000])
    print("violations=%d evaluations=%d distinct=%d wall=%.1fs" % (len(v), out["evaluations"], out["distinct"], out["wall_s"]))
    sys.exit(1 if v else 0)
