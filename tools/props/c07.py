"""C07 - no input file can crash, hang or exhaust the reader.

Theorems (Props/C07.v) are about the Gallina models (Model/Codec*.v decoders: never Panic for any byte string;
Model/Robust*.v: allocation requests bounded by k*|file|+c, fuel-indexed traversals terminate within |file|-linear fuel).
This module is the tie and the search for a failing input:

  A. file level: an isolated worker (verifharness c07worker, one process per batch, RLIMIT_AS, per-input watchdog) opens
     every generated input and reads everything reachable through the public read API.  Inputs = the property's
     quantifier: for each base file (corpus sample + library-written files) every size/count/address/version field found by
     the spec-derived locator (tools/h5spec.py extents + tools/c07fields.py) set to every boundary value, random multi-byte
     mutations, truncations, and constructed self-referential structures.
     Gate per input: class in {ok, err} (no panic, no Go fatal error, no timeout) and peak RSS <= 64 MiB + 64 x file size.
  B. parser level: the Go parsers vs the Coq decoder models on malformed messages (class and value), any Go panic gates.
  C. model level: the allocation / traversal models (Model/Robust*.v) vs the Go functions on generated file images.
A failing input is shrunk to a minimal set of changed bytes relative to its base file before it becomes the replay.
"""
import collections, glob, hashlib, json, os, struct, time, zlib
import vlib
import h5spec, c07fields, c07pool

TRUSTED = ["C07: wall-clock and peak RSS are measurements of the worker process (exploration), the theorems bound model steps and "
           "allocation requests; the Go runtime, the kernel's RSS accounting and RLIMIT_AS are trusted",
           "C07: field offsets come from tools/h5spec.py + tools/c07fields.py (written from the format specification)"]
ASSUMPTIONS = ["the worker's own allocations (Walk result list, JSON) are small against the 64 MiB slack of the memory gate"]

REPO = vlib.REPO
MEM_SLACK = 64 << 20
MEM_FACTOR = 64
KNOWN_EXTRA = os.environ.get("VERIF_C07_KNOWN")       # optional extra known-findings file (used while entries are only proposed)


def mem_bound(size):
    return MEM_SLACK + MEM_FACTOR * size


def known_ids():
    ks = {k["id"]: k for k in vlib.known_findings("C07")}
    if KNOWN_EXTRA and os.path.exists(KNOWN_EXTRA):
        for k in json.load(open(KNOWN_EXTRA)).get("findings", []):
            if k.get("property") == "C07":
                ks[k["id"]] = k
    return ks


# ----------------------------------------------------------------------------------------------- base files
def corpus_files():
    fs = sorted(glob.glob(os.path.join(REPO, "testdata", "**", "*.h5"), recursive=True) +
                glob.glob(os.path.join(REPO, "testdata", "**", "*.hdf5"), recursive=True))
    return [f for f in fs if os.path.getsize(f) > 0]


def kind_signature(path):
    try:
        w = h5spec.walk(path)
    except Exception:
        return None, None
    fs = c07fields.fields(w)
    sig = tuple(sorted({f["name"].split(".")[0] + "." + f["name"].split(".")[1] if f["name"].startswith("msg.") else f["name"].split(".")[0] for f in fs}))
    return sig, (w, fs)


LIB_HISTORIES = [
    ("lib_sb0_contig", 0, [dict(op="mkgroup", path="/g"), dict(op="mkds", path="/g/d", dtype="int32", dims=[4, 3]),
                           dict(op="write", path="/g/d", val=struct.pack("<12i", *range(12)).hex()),
                           dict(op="setattr", path="/g/d", name=b"units".hex(), kind="str", val=b"m/s".hex())]),
    ("lib_sb2_chunked_gzip", 2, [dict(op="mkds", path="/c", dtype="float64", dims=[6, 5], chunk=[3, 2], filters=["shuffle", "gzip:6"]),
                                 dict(op="write", path="/c", val=struct.pack("<30d", *[i * 0.5 for i in range(30)]).hex())]),
    ("lib_sb3_chunked_fletcher", 3, [dict(op="mkds", path="/f", dtype="int16", dims=[10], chunk=[4], filters=["fletcher32"]),
                                     dict(op="write", path="/f", val=struct.pack("<10h", *range(10)).hex())]),
    ("lib_sb2_dense_attrs", 2, [dict(op="mkds", path="/a", dtype="uint8", dims=[3]), dict(op="write", path="/a", val="010203")] +
     [dict(op="setattr", path="/a", name=("attr%02d" % i).encode().hex(), kind="i32", val=struct.pack("<i", i).hex()) for i in range(12)]),
    ("lib_sb0_many_groups", 0, [dict(op="mkgroup", path="/g%d" % i) for i in range(6)] + [dict(op="mkgroup", path="/g0/h"), dict(op="mkgroup", path="/g0/h/k")]),
    ("lib_sb2_links", 2, [dict(op="mkgroup", path="/g"), dict(op="mkds", path="/g/d", dtype="float32", dims=[2]),
                          dict(op="write", path="/g/d", val=struct.pack("<2f", 1.5, -2.0).hex()),
                          dict(op="hardlink", path="/hl", target="/g/d"), dict(op="softlink", path="/sl", target="/g/d"),
                          dict(op="extlink", path="/el", target="/x", file="other.h5")]),
    ("lib_sb2_strings", 2, [dict(op="mkds", path="/s", dtype="string", dims=[3], strsize=5),
                            dict(op="write", path="/s", val=b"ab\0cde\0f\0".hex())]),
    ("lib_sb2_maxdims_resize", 2, [dict(op="mkds", path="/r", dtype="int64", dims=[4], chunk=[2], maxdims=[18446744073709551615]),
                                   dict(op="write", path="/r", val=struct.pack("<4q", 1, 2, 3, 4).hex()), dict(op="resize", path="/r", dims=[7])]),
    ("lib_sb3_group_attrs", 3, [dict(op="mkgroup", path="/g"), dict(op="setattr", path="/g", name=b"v".hex(), kind="[]f64", val=struct.pack("<3d", 1, 2, 3).hex()),
                                dict(op="setattr", path="/", name=b"title".hex(), kind="str", val=b"hello".hex())]),
    ("lib_sb0_chunked", 0, [dict(op="mkds", path="/c0", dtype="uint16", dims=[5, 4], chunk=[2, 2]),
                            dict(op="write", path="/c0", val=struct.pack("<20H", *range(20)).hex())]),
]


def library_files(H, scratch):
    out = []
    for name, sb, ops in LIB_HISTORIES:
        try:
            r = vlib.run_harness(H, "hist", [dict(sb=sb, ops=ops, dir=scratch, keep=True, nodata=True)])[0]
        except Exception as e:
            out.append((name, None, "hist failed: %r" % (e,)))
            continue
        p = r.get("file")
        if not p or not os.path.exists(p) or os.path.getsize(p) == 0:
            out.append((name, None, "no file: %s" % json.dumps(r.get("create"))[:200]))
            continue
        out.append((name, p, None))
    return out


def choose_bases(ctx, clean, quick):
    """clean: {path: worker result on the unmodified file}.  Deterministic choice (no randomness)."""
    ok = [p for p in corpus_files() if clean.get(p, {}).get("c") == "ok"]
    if not quick:
        return ok
    small = [p for p in ok if 500 <= os.path.getsize(p) <= 12000]
    groups = collections.OrderedDict()
    for p in small:
        sig, _ = kind_signature(p)
        if sig is None:
            continue
        groups.setdefault(sig, []).append(p)
    # round robin over structure signatures, official files first inside a group
    order = sorted(groups.items(), key=lambda kv: (-len(kv[0]), kv[1][0]))
    chosen = []
    k = 0
    while len(chosen) < 25 and any(v for _, v in order):
        for sig, v in order:
            v.sort(key=lambda p: ("hdf5_official" not in p, os.path.getsize(p), p))
            if k < len(v) and len(chosen) < 25:
                chosen.append(v[k])
        k += 1
        if k > 50:
            break
    return chosen


# ----------------------------------------------------------------------------------------------- generators
def le(v, w):
    return (v % (1 << (8 * w))).to_bytes(w, "little")


def field_cases(path, data, fs, rng, per_file_cap):
    """complete single-field coverage: every field x every boundary value; when capped (quick tier) every field keeps
    at least its extreme values and the rest is a deterministic sample"""
    n = len(data)
    must, rest = [], []
    for f in fs:
        cur = int.from_bytes(data[f["off"]:f["off"] + f["w"]], "little")
        vals = c07fields.boundary_values(f["w"], n, cur)
        top = (1 << (8 * f["w"])) - 1
        for v in vals:
            c = dict(base=path, patches=[[f["off"], le(v, f["w"]).hex()]], gen="field", field=f["name"], cat=f["cat"], off=f["off"], w=f["w"], val=v)
            (must if v in (0, top, n, 1 << 31) else rest).append(c)
    if per_file_cap is None or len(must) + len(rest) <= per_file_cap:
        return must + rest
    if len(must) > per_file_cap:
        rng.shuffle(must)
        return must[:per_file_cap]
    rng.shuffle(rest)
    return must + rest[:per_file_cap - len(must)]


def random_cases(path, data, fs, rng, count):
    out = []
    n = len(data)
    offs = [f["off"] for f in fs] or [0]
    for _ in range(count):
        k = rng.choice([1, 2, 2, 3, 4, 8])
        patches = []
        for _ in range(k):
            r = rng.random()
            if r < 0.6:
                o = min(n - 1, max(0, rng.choice(offs) + rng.randrange(-2, 9)))      # near a structure field
            else:
                o = rng.randrange(n)
            w = rng.choice([1, 1, 2, 4, 8])
            if rng.random() < 0.5:
                b = bytes(rng.choice([0, 1, 0x7F, 0x80, 0xFF, 0xFE]) for _ in range(w))
            else:
                b = bytes(rng.randrange(256) for _ in range(w))
            patches.append([o, b.hex()])
        out.append(dict(base=path, patches=patches, gen="random"))
    for cut in sorted({0, 7, 8, 9, 47, 48, 95, 96, 97, n // 2, n - 1, n - 8} | {rng.randrange(n) for _ in range(4)}):
        if 0 <= cut < n:
            out.append(dict(base=path, patches=[], trunc=cut, gen="trunc"))
    return out


def find(fs, name):
    return [f for f in fs if f["name"] == name]


def selfref_cases(path, data, fs, w):
    """constructed self-referential / amplifying structures, built from the structures the base file has"""
    out = []
    n = len(data)
    O, L = 8, 8
    if n > 14:
        O, L = (data[13], data[14]) if data[8] in (0, 1) else (data[9], data[10])
    if O not in (2, 4, 8) or L not in (2, 4, 8):
        return out
    ext = sorted(w["extents"]) + c07fields.scan_extents(data, O, L)

    def add(what, patches, **kw):
        out.append(dict(base=path, patches=[[o, b.hex()] for o, b in patches], gen="selfref", what=what, **kw))

    # -- version 1 object headers: turn a message into a continuation that points at its own block / its header /
    #    two blocks that continue into each other
    v1 = [(s, e) for s, e, k, o in ext if k == "ohdr1"]
    for s, e in v1[:4]:
        p = s + 16
        msgs = []
        while p + 8 <= e:
            t, sz = int.from_bytes(data[p:p + 2], "little"), int.from_bytes(data[p + 2:p + 4], "little")
            if p + 8 + sz > e:
                break
            msgs.append((p, t, sz))
            p += 8 + sz
        big = [m for m in msgs if m[2] >= O + L]
        if not big:
            continue
        p, t, sz = big[-1]
        nm = int.from_bytes(data[s + 2:s + 4], "little")
        cont = lambda addr, ln: le(addr, O) + le(ln, L)
        add("v1 continuation -> own block", [(p, le(0x10, 2)), (p + 8, cont(s + 16, e - s - 16))])
        add("v1 continuation -> own message", [(p, le(0x10, 2)), (p + 8, cont(p, 8 + sz))])
        add("v1 continuation -> header prefix", [(p, le(0x10, 2)), (p + 8, cont(s, e - s))])
        add("v1 continuation -> whole file", [(p, le(0x10, 2)), (p + 8, cont(0, n))])
        add("v1 continuation -> beyond EOF", [(p, le(0x10, 2)), (p + 8, cont(n - 4, 64))])
        add("v1 continuation, length 2^64-1", [(p, le(0x10, 2)), (p + 8, cont(s + 16, (1 << (8 * L)) - 1))])
        # two blocks continuing into each other, appended at the end of the file
        a1, a2 = n, n + 24 + 8
        blk = lambda nxt: le(0x10, 2) + le(O + L, 2) + b"\0\0\0\0" + cont(nxt, 8 + O + L) + b"\0" * (24 - 8 - O - L + 8)
        add("v1 two blocks continuing into each other", [(p, le(0x10, 2)), (p + 8, cont(a1, 8 + O + L)), (a1, blk(a2)), (a2, blk(a1))])
        # a chain of many distinct continuation blocks (each points to the next one)
        chain = b""
        nblk = 300
        for i in range(nblk):
            nxt = n + (i + 1) * 32 if i + 1 < nblk else n
            chain += le(0x10, 2) + le(O + L, 2) + b"\0\0\0\0" + cont(nxt, 8 + O + L) + b"\0" * (32 - 8 - O - L)
        add("v1 chain of 300 continuation blocks closing into a cycle", [(p, le(0x10, 2)), (p + 8, cont(n, 8 + O + L)), (n, chain)])
        add("v1 message count 65535", [(s + 2, le(0xFFFF, 2)), (s + 8, le(0xFFFFFFFF, 4))])
    # -- version 2 object headers
    v2 = [(s, e) for s, e, k, o in ext if k == "ohdr2"]
    for s, e in v2[:4]:
        if s + 8 > n or data[s:s + 4] != b"OHDR":
            continue
        fl = data[s + 5]
        p = s + 6 + (16 if fl & 0x20 else 0) + (4 if fl & 0x10 else 0)
        wd = 1 << (fl & 3)
        q = p + wd
        mh = 4 + (2 if fl & 4 else 0)
        msgs = []
        while q + mh <= e:
            t, sz = data[q], int.from_bytes(data[q + 1:q + 3], "little")
            if q + mh + sz > e or (t == 0 and sz == 0):
                break
            msgs.append((q, t, sz))
            q += mh + sz
        big = [m for m in msgs if m[2] >= O + L]
        if not big:
            continue
        q, t, sz = big[-1]
        cont = lambda addr, ln: le(addr, O) + le(ln, L)
        ochk_self = n
        add("v2 continuation -> OCHK block that continues into itself",
            [(q, bytes([0x10])), (q + mh, cont(ochk_self, 4 + mh + O + L + 4)),
             (ochk_self, b"OCHK" + bytes([0x10]) + le(O + L, 2) + b"\0" * (mh - 3) + cont(ochk_self, 4 + mh + O + L + 4) + b"\0\0\0\0")])
        add("v2 continuation -> the header itself (no OCHK)", [(q, bytes([0x10])), (q + mh, cont(s, e - s))])
        add("v2 continuation, length 2^64-1", [(q, bytes([0x10])), (q + mh, cont(s, (1 << (8 * L)) - 1))])
        add("v2 chunk size field maximal", [(p, le((1 << (8 * wd)) - 1, wd))])
        # many continuation chunks that all run into one shared region of large messages (memory amplification)
        nchunks = 200
        region = n + nchunks * 16
        big_msgs = b"".join(bytes([0x0D]) + le(60000, 2) + b"\0" * (mh - 3) + b"x" * 60000 for _ in range(4))
        chunks = b""
        conts = b""
        for i in range(nchunks):
            ca = n + i * 16
            # "OCHK" + one NIL message whose size jumps to the shared region
            gap = region - (ca + 4 + mh)
            chunks += b"OCHK" + bytes([0x00]) + le(min(gap, 65535), 2) + b"\0" * (mh - 3) + b"\0" * (16 - 4 - mh)
        add("v2 many continuation chunks into one shared message region", [(q, bytes([0x10])), (q + mh, cont(n, region + len(big_msgs) - n)), (n, chunks + big_msgs)],
            note="only the first chunk is linked; see cont-fanout below for the full construction")
    # -- chunk B-trees: child pointer to the node itself / ancestor / many pointers to one node
    for s, e in [(s, e) for s, e, k, o in ext if k in ("btree1-chunk", "btree1-hdr")][:6]:
        if s + 8 + 2 * O > n or data[s:s + 4] != b"TREE":
            continue
        cnt = int.from_bytes(data[s + 6:s + 8], "little")
        kids = [f for f in fs if f["name"] == "btree1.child" and s <= f["off"] < e]
        if not kids:
            continue
        add("B-tree level 1, child -> the node itself", [(s + 5, b"\x01"), (kids[0]["off"], le(s, O))])
        add("B-tree level 255, child -> the node itself", [(s + 5, b"\xff"), (kids[0]["off"], le(s, O))])
        add("B-tree level 1, every child -> the node itself", [(s + 5, b"\x01")] + [(k["off"], le(s, O)) for k in kids])
        add("B-tree entries 65535", [(s + 6, le(0xFFFF, 2))])
        add("B-tree left/right sibling -> itself", [(s + 8, le(s, O)), (s + 8 + O, le(s, O))])
    # -- symbol table entries / links that point at an enclosing group
    root = w["sb"].get("root")
    for f in (find(fs, "snod.entry.obj") + find(fs, "msg.link.addr"))[:6]:
        if root is not None:
            add("link/symbol table entry -> root group", [(f["off"], le(root, O))], field=f["name"])
        add("link/symbol table entry -> its own structure", [(f["off"], le(max(0, f["off"] - 8 - O), O))], field=f["name"])
    snods = [(s, e) for s, e, k, o in ext if k == "snod"]
    for f in find(fs, "snod.entry.obj")[:4]:
        for s, e in snods[:2]:
            add("symbol table entry -> a symbol table node (SNOD redirect)", [(f["off"], le(s, O))])
    for f in find(fs, "snod.entry.scratch.btree")[:3]:
        bt = [s for s, e, k, o in ext if k == "btree1-group"]
        if bt:
            add("cached symbol table -> an enclosing group's B-tree", [(f["off"] - 8, le(1, 4)), (f["off"], le(bt[0], O))])
    # -- object headers made of very many tiny messages (every message gets a buffer of its own)
    for f in find(fs, "msg.link.addr")[:1]:
        nm = 120000
        body = (bytes([0xFE]) + le(1, 2) + b"\0" + b"x") * nm
        hdr = b"OHDR" + bytes([2, 0x02]) + le(len(body) + 4, 4) + body + b"\0\0\0\0"
        add("link -> version 2 header with 120000 one-byte messages", [(f["off"], le(n, O)), (n, hdr)], field=f["name"])
    for f in find(fs, "snod.entry.obj")[:1]:
        nm = 65535
        body = (le(0xFE, 2) + le(8, 2) + b"\0\0\0\0" + b"x" * 8) * nm
        hdr = bytes([1, 0]) + le(nm, 2) + le(1, 4) + le(len(body), 4) + b"\0" * 4 + body
        add("symbol table entry -> version 1 header with 65535 messages", [(f["off"], le(n, O)), (n, hdr)], field=f["name"])
    # -- dimension products that wrap 2^64, zero-size compound
    dims = find(fs, "msg.dataspace.dim")
    for i in range(0, len(dims) - 1, 2):
        a, b = dims[i], dims[i + 1]
        if b["off"] == a["off"] + a["w"] and a["w"] == 8:
            add("dimension product wraps to 0", [(a["off"], le(1 << 32, 8)), (b["off"], le(1 << 32, 8))])
            add("dimension product wraps to a small value", [(a["off"], le((1 << 63) + 1, 8)), (b["off"], le(2, 8))])
            add("dimension product 2^64-ish", [(a["off"], le((1 << 64) - 1, 8)), (b["off"], le((1 << 64) - 1, 8))])
    for f in find(fs, "msg.datatype.size")[:6]:
        add("datatype size 0", [(f["off"], le(0, 4))])
        add("datatype class compound, size 0", [(f["off"] - 4, bytes([0x36])), (f["off"], le(0, 4))])
        add("datatype class compound v1 with 65535 members", [(f["off"] - 4, bytes([0x16, 0xFF, 0xFF])), (f["off"], le(8, 4))])
    return out


def classic_group_file(groups, cache_type=1):
    """A valid superblock-version-0 file made of symbol-table groups only, laid out as the HDF5 C library does:
    one (v1 object header, B-tree leaf, local heap, symbol table node) per group; groups[i] = [(name, target index), ...],
    group 0 is the root.  cache_type 1 = every entry carries the cached B-tree/heap addresses of its group (H5G_CACHED_STAB,
    what the C library writes), 0 = no cache (what this library's writer writes).  Several entries may name the same group
    (hard links): the object graph is a DAG, the number of PATHS can be exponential in the file size."""
    import struct
    LEAFK, INTK = 4, 16
    OHDR, TREE, HEAPH, HEAPD = 40, 24 + (2 * INTK + 1) * 8 + 2 * INTK * 8, 32, 88
    SNOD = 8 + 2 * LEAFK * 40
    GS = OHDR + TREE + HEAPH + HEAPD + SNOD
    U = 0xFFFFFFFFFFFFFFFF
    base = lambda i: 96 + i * GS
    ohdr = base
    tree = lambda i: base(i) + OHDR
    heap = lambda i: tree(i) + TREE
    hdat = lambda i: heap(i) + HEAPH
    snod = lambda i: hdat(i) + HEAPD
    buf = bytearray(96 + len(groups) * GS)
    buf[0:8] = b"\x89HDF\r\n\x1a\n"
    buf[13], buf[14] = 8, 8
    struct.pack_into("<HH", buf, 16, LEAFK, INTK)
    struct.pack_into("<QQQQ", buf, 24, 0, U, len(buf), U)
    struct.pack_into("<QQI", buf, 56, 0, ohdr(0), 1)
    struct.pack_into("<QQ", buf, 80, tree(0), heap(0))
    for i, links in enumerate(groups):
        assert len(links) <= 8 and all(len(n) < 8 for n, _ in links)
        o = ohdr(i)
        buf[o] = 1
        struct.pack_into("<HII", buf, o + 2, 1, 1, 24)
        struct.pack_into("<HH", buf, o + 16, 0x0011, 16)
        struct.pack_into("<QQ", buf, o + 24, tree(i), heap(i))
        h = heap(i)
        buf[h:h + 4] = b"HEAP"
        struct.pack_into("<QQQ", buf, h + 8, HEAPD, 1, hdat(i))
        for j, (nm, _) in enumerate(links):
            b = nm.encode()
            buf[hdat(i) + 8 * (j + 1):hdat(i) + 8 * (j + 1) + len(b)] = b
        t = tree(i)
        buf[t:t + 4] = b"TREE"
        struct.pack_into("<QQ", buf, t + 8, U, U)
        if links:
            struct.pack_into("<H", buf, t + 6, 1)
            struct.pack_into("<QQQ", buf, t + 24, 0, snod(i), 8 * len(links))
        sn = snod(i)
        buf[sn:sn + 4] = b"SNOD"
        buf[sn + 4] = 1
        struct.pack_into("<H", buf, sn + 6, len(links))
        for j, (_, tg) in enumerate(links):
            e = sn + 8 + 40 * j
            struct.pack_into("<QQI", buf, e, 8 * (j + 1), ohdr(tg), cache_type)
            if cache_type == 1:
                struct.pack_into("<QQ", buf, e + 24, tree(tg), heap(tg))
    return bytes(buf)


def dag_cases(scratch):
    """whole files whose group graph is a DAG with exponentially many paths (every level reached through 2..8 hard links),
    a plain chain and a cycle as controls.  Valid classic-format files: Open must answer (value or error) within the time
    and memory gates whatever the number of paths is."""
    out = []
    d = os.path.join(scratch, "dag")
    os.makedirs(d, exist_ok=True)
    def diamond(levels, fan):
        names = "abcdefgh"
        return [[(names[k], i + 1) for k in range(fan)] for i in range(levels)] + [[]]
    shapes = [("chain60", [[("a", i + 1)] for i in range(60)] + [[]]),
              ("cycle", [[("a", 1)], [("b", 0)]]),
              ("diamond3x2", diamond(3, 2)), ("diamond14x2", diamond(14, 2)), ("diamond24x2", diamond(24, 2)),
              ("diamond64x2", diamond(64, 2)), ("diamond12x8", diamond(12, 8)),
              ("skip30", [[("a", min(i + 1, 30)), ("b", min(i + 2, 30))] for i in range(30)] + [[]])]
    # comb n: n one-child group B-tree nodes sharing ONE symbol table node of n entries (classic format, cache type 1): before
    # /repo 77428c1 Open built n*n+1 groups without a single counted load (632 KB file -> 10^6 groups, 450 MB resident)
    try:
        from props import c07load
        for n in (300, 1000):
            p = os.path.join(d, "comb%d.h5" % n)
            with open(p, "wb") as f:
                f.write(c07load.comb(n).image())
            out.append(dict(base=p, patches=[], gen="dag", what="comb%d: %d B-tree nodes share one symbol table node of %d entries" % (n, n, n)))
    except Exception as e:      # the loader tie reports its own problems; this family is an extra
        out.append(dict(base=os.path.join(d, "missing"), patches=[], gen="dag", what="comb family unavailable: %r" % (e,)))
    for name, g in shapes:
        for ct in (1, 0):
            p = os.path.join(d, "%s_cache%d.h5" % (name, ct))
            with open(p, "wb") as f:
                f.write(classic_group_file(g, ct))
            out.append(dict(base=p, patches=[], gen="dag", what="%s, symbol table entries with cache type %d" % (name, ct)))
    return out


def deflate_bomb_case(path, data, fs, w, mib):
    """a chunk whose zlib stream expands to `mib` MiB (the stored chunk is a few hundred KiB)"""
    nb = find(fs, "btree1.chunk.nbytes")
    kids = find(fs, "btree1.child")
    kids = [k for k in kids if nb and k["off"] > nb[0]["off"]]      # the child pointer that follows the first chunk key
    rk = find(fs, "msg.layout.rank")
    if nb and not kids and rk and len(data) > 14:
        # chunk B-tree located by its signature only: key = nbytes(4) mask(4) offsets(8 each, layout rank of them)
        O = data[13] if data[8] in (0, 1) else data[9]
        if O in (2, 4, 8):
            kids = [dict(off=nb[0]["off"] + 8 + 8 * data[rk[-1]["off"]], w=O)]
    if not nb or not kids or not find(fs, "msg.pipeline.id"):
        return None
    comp = zlib.compress(b"\0" * (mib << 20), 9)
    n = len(data)
    O = kids[0]["w"]
    return dict(base=path, patches=[[nb[0]["off"], le(len(comp), 4).hex()], [nb[0]["off"] + 4, le(0, 4).hex()], [kids[0]["off"], le(n, O).hex()], [n, comp.hex()]],
                gen="bomb", what="deflate stream expanding to %d MiB in a %d KiB file" % (mib, (n + len(comp)) >> 10))


# ----------------------------------------------------------------------------------------------- classification
def classify(r, case):
    """-> None when the input passes the gate, else (class id, description)"""
    c = r.get("c")
    if c == "panic":
        return ("panic@" + c07pool.panic_site(r), "panic in %s during %s: %s" % (c07pool.panic_site(r), r.get("op"), (r.get("panic") or "")[:200]))
    if c == "fatal":
        site = fatal_site(r)
        return ("fatal:%s@%s" % (r.get("fatal"), site), "Go fatal error (%s) in %s: %s" % (r.get("fatal"), site, (r.get("stderr") or "").splitlines()[0][:200] if r.get("stderr") else ""))
    if c == "timeout":
        return ("timeout@" + str(r.get("op")), "no answer within the time limit during %s" % r.get("op"))
    if c == "harness_error":
        return ("harness_error", str(r.get("e"))[:200])
    size = r.get("size", 0)
    if r.get("hwm_kb", 0) * 1024 > mem_bound(size):
        return ("rss@" + str(r.get("maxop")), "peak RSS %d KiB for a %d-byte file (bound %d KiB); operation allocating most: %s (%d bytes)" % (
            r["hwm_kb"], size, mem_bound(size) >> 10, r.get("maxop"), r.get("maxop_alloc", 0)))
    return None


def fatal_site(r):
    import re
    for l in (r.get("stderr") or "").splitlines():
        if l.startswith("github.com/scigolib/hdf5"):
            return re.sub(r"\([^()]*$", "", l.split(" ")[0]).replace("github.com/scigolib/hdf5", "hdf5")
    return "?"


# known-finding classes: id -> predicate on (class id, result, case)
def known_class(cid, r, case):
    if cid.startswith("fatal:out of memory@hdf5/internal/core.readChunkedData") or (cid.startswith("rss@Dataset.Read") and any(n.startswith("chunked-extent:") for n in r.get("notes", []))):
        return "C07-chunked-extent-alloc"
    if case.get("gen") == "bomb" and (cid.startswith("rss@") or cid.startswith("fatal:out of memory")):
        return "C07-inflate-constant-limit"
    return None


# ----------------------------------------------------------------------------------------------- shrinking
def shrink(H, scratch, case, cid, timeout_s, extra):
    """delta debugging on the changed bytes relative to the base file: keep the class, drop / zero-restore bytes"""
    if "base" not in case:
        return case
    base = open(case["base"], "rb").read()
    cur = bytearray(base)
    if case.get("trunc") is not None and case["trunc"] >= 0:
        del cur[case["trunc"]:]
    for o, hx in case.get("patches", []):
        b = bytes.fromhex(hx)
        if o + len(b) > len(cur):
            cur += bytes(o + len(b) - len(cur))
        cur[o:o + len(b)] = b
    diffs = [i for i in range(min(len(base), len(cur))) if base[i] != cur[i]]
    tail = bytes(cur[len(base):]) if len(cur) > len(base) else b""
    trunc = len(cur) if len(cur) < len(base) else None

    def build(keep):
        ps = [[i, bytes([cur[i]]).hex()] for i in keep]
        c = dict(base=case["base"], patches=ps)
        if trunc is not None:
            c["trunc"] = trunc
        if tail:
            c["patches"] = ps + [[len(base), tail.hex()]]
        return c

    def bad(keep):
        r = c07pool.run_cases(H, [build(keep)], scratch, timeout_s=timeout_s, workers=1, extra_args=extra)[0]
        k = classify(r, case)
        return k is not None and k[0] == cid

    keep = list(diffs)
    if not bad(keep):
        return case          # not reproducible in isolation: keep the original
    chunk = max(1, len(keep) // 2)
    budget = 60
    while chunk >= 1 and budget > 0:
        i = 0
        changed = False
        while i < len(keep) and budget > 0:
            trial = keep[:i] + keep[i + chunk:]
            budget -= 1
            if bad(trial):
                keep = trial
                changed = True
            else:
                i += chunk
        if chunk == 1 and not changed:
            break
        chunk = max(1, chunk // 2) if chunk > 1 else (1 if changed else 0)
    out = build(keep)
    out.update({k: v for k, v in case.items() if k not in ("patches", "trunc", "base")})
    out["changed_bytes"] = len(keep) + len(tail)
    return out


# ----------------------------------------------------------------------------------------------- parser level tie
def parser_tie(ctx, viol, cov):
    """Go parsers vs the Coq decoder models on malformed messages; any Go panic is a C07 violation."""
    from props import c11
    H, rng = ctx.harness, ctx.rng
    quick = ctx.tier != "thorough"
    n_src = 14 if quick else 150
    exprs = []      # (kind label, coq bool expr, payload)
    hist = collections.Counter()
    panics = []
    for K in c11.KINDS:
        K.label = K.label or K.name
        if K.no_model:
            continue
        K.probe(H)
        vals = [K.gen(rng, i) for i in range(n_src)]
        res = vlib.run_harness(H, "c11", [dict(kind=K.name, val=K.go(x), sb=x.get("_sb")) for x in vals])
        mal = []
        for x, r in zip(vals, res):
            if not r.get("enc") or len(r["enc"]) > 600:
                continue
            b = bytes.fromhex(r["enc"])
            foc = K.focus(x)
            # boundary values into every 1/2/4-byte window near the structure's head, plus the C11 stream
            cand = c11.mutations(rng, r["enc"], 3, 4, foc)
            for _ in range(6):
                if not b:
                    break
                w = rng.choice([1, 1, 2, 2, 4, 8])
                o = min(max(0, len(b) - w), foc + rng.randrange(0, 24)) if rng.random() < 0.75 else rng.randrange(0, max(1, len(b) - w + 1))
                v = rng.choice([0, 1, (1 << (8 * w)) - 1, (1 << (8 * w)) - 2, 1 << (8 * w - 1), len(b), len(b) + 1, len(b) - 1 if len(b) else 0, 0xFF, 0x7F])
                nb = bytearray(b)
                nb[o:o + w] = le(v, w)[:len(nb[o:o + w])]
                if bytes(nb) != b:
                    cand.append(("bound", bytes(nb).hex()))
            for how, hx in cand:
                if K.skip_malformed(hx):
                    continue
                mal.append((x, how, hx))
        if not mal:
            continue
        mres = vlib.run_harness(H, "c11", [dict(kind=K.name, raw=hx, sb=x.get("_sb")) for x, how, hx in mal])
        for (x, how, hx), r in zip(mal, mres):
            d = r["raw"]
            hist[(K.label, d["c"])] += 1
            if d["c"] == "panic":
                panics.append(dict(kind=K.label, raw=hx, sb=x.get("_sb"), panic=d.get("e")))
                if K.panic_not_modelled:
                    continue
            if d["c"] == "ok" and d["v"] == ["636f6e74"]:
                continue          # object header with continuation messages: covered by the Robust models (tie C)
            exprs.append((K, "val_eqb (%s) %s" % (K.dec_expr(hx, x.get("_sb")), c11.cval(c11.goval(d))), dict(kind=K.label, raw=hx, sb=x.get("_sb"), how=how, go=d)))
    for p in panics[:3]:
        viol.append(dict(what="parser %s panics on a malformed message: %s" % (p["kind"], p["panic"]), failing_input=p))
    # evaluate in Coq
    jobs = []
    by_kind = collections.OrderedDict()
    for i, (K, e, pl) in enumerate(exprs):
        by_kind.setdefault(K.label, (K, []))[1].append((i, e))
    for label, (K, items) in by_kind.items():
        k = 0
        while k < len(items):
            size, j = 0, k
            while j < len(items) and size < 30000 and j - k < 250:
                size += len(items[j][1])
                j += 1
            nm = "p_%s_%d" % (label, k)
            text = (c11.HDR % K.imports) + "Definition %s : list bool := [%s].\n" % (nm, ";\n".join(e for _, e in items[k:j])) + \
                "Definition bad_%s := Eval vm_compute in mismatches id_bool %s.\nPrint bad_%s.\n" % (nm, nm, nm)
            jobs.append(([i for i, _ in items[k:j]], "bad_" + nm, text, "c07p_%s_%d" % (label, k)))
            k = j
    import concurrent.futures as cf
    with cf.ThreadPoolExecutor(max_workers=min(12, os.cpu_count() or 4)) as ex:
        outs = list(ex.map(lambda jb: vlib.coq_eval(jb[2], jb[3]), jobs))
    nbad = 0
    for (idxs, lab, _, _), out in zip(jobs, outs):
        for b in vlib.parse_nlist(out, lab):
            K, e, pl = exprs[idxs[b]]
            nbad += 1
            if nbad <= 3:
                viol.append(dict(what="%s: Go parser outcome on a malformed message differs from the Coq model" % K.label, nofail=pl["go"]["c"] != "panic",
                                 correspondence="Model dec_%s (theorem C07_%s_no_panic) vs Go parser" % (K.label, K.label), case=pl, coq_expr=e[:1500]))
    cov["parser_level"] = dict(cases=len(exprs), go_panics=len(panics), model_mismatches=nbad,
                               outcomes={"%s:%s" % k: v for k, v in sorted(hist.items())})
    return len(exprs)


# ----------------------------------------------------------------------------------------------- main
def run(ctx):
    H, rng = ctx.harness, ctx.rng
    quick = ctx.tier != "thorough"
    viol, known, samples = [], [], []
    cov = {}
    scratch = vlib.scratch()
    kids = known_ids()
    skip = ["skip=chunked-extent"] if "C07-chunked-extent-alloc" in kids else []

    # ---- 0. clean runs: every corpus file and library-written file as it is (also measures the clean maxima)
    libs = library_files(H, scratch)
    lib_paths = [p for _, p, _ in libs if p]
    corpus = corpus_files()
    clean_cases = [dict(path=p, gen="clean") for p in corpus + lib_paths]
    t0 = time.time()
    clean_res = c07pool.run_cases(H, clean_cases, scratch, timeout_s=30, batch=24, extra_args=skip)
    clean = {c["path"]: r for c, r in zip(clean_cases, clean_res)}
    okc = [r for r in clean_res if r.get("c") in ("ok", "err")]
    clean_max_ms = max([r.get("ms", 0) for r in okc] or [0])
    clean_max_rss = max([r.get("hwm_kb", 0) for r in okc] or [0])
    timeout_s = max(20.0, 10 * clean_max_ms / 1000.0)
    cov["clean"] = dict(files=len(clean_cases), library_written=len(lib_paths), classes=dict(collections.Counter(r.get("c") for r in clean_res)),
                        max_ms=clean_max_ms, max_hwm_kb=clean_max_rss, wall_s=round(time.time() - t0, 1), timeout_s=timeout_s,
                        library_files=[dict(name=n, ok=bool(p), err=e) for n, p, e in libs])

    # ---- 1. generated inputs
    bases = choose_bases(ctx, clean, quick) + lib_paths
    cases = []
    per_base = {}
    field_hist = collections.Counter()
    cap = 1500 if quick else None
    nrand = 60 if quick else 200
    for p in bases:
        try:
            w = h5spec.walk(p)
        except Exception as e:
            continue
        data = w["data"]
        fs = c07fields.fields(w)
        # thorough: complete single-field coverage for files up to 64 KiB, a deterministic sample (extremes first) above that
        fcap = cap if quick else (None if len(data) <= 65536 else 1200)
        fc = field_cases(p, data, fs, rng, fcap)
        rc = random_cases(p, data, fs, rng, nrand)
        sc = selfref_cases(p, data, fs, w)
        for f in fs:
            field_hist[f["cat"]] += 1
        per_base[p] = dict(size=len(data), fields=len(fs), field_cases=len(fc), random=len(rc), selfref=len(sc))
        cases += fc + rc + sc
        bomb = deflate_bomb_case(p, data, fs, w, 192)
        if bomb:
            cases.append(bomb)
    dag = dag_cases(scratch)
    cases += dag
    t1 = time.time()
    res = c07pool.run_cases(H, cases, scratch, timeout_s=timeout_s, extra_args=skip)
    fuzz_wall = time.time() - t1

    # ---- 2. gate
    classes = collections.OrderedDict()     # class id -> list of (case, result, description)
    outcome_hist = collections.Counter()
    gen_hist = collections.Counter()
    notes = collections.Counter()
    for c, r in list(zip(clean_cases, clean_res)) + list(zip(cases, res)):
        outcome_hist[r.get("c")] += 1
        gen_hist[c.get("gen")] += 1
        for nt in r.get("notes", []):
            notes[nt.split(":")[0]] += 1
        k = classify(r, c)
        if k:
            classes.setdefault(k[0], []).append((c, r, k[1]))
    for cid, items in classes.items():
        c, r, desc = items[0]
        kf = known_class(cid, r, c)
        if kf and kf in kids:
            known.append("%s: %d input(s), e.g. %s (%s)" % (kf, len(items), desc[:160], os.path.basename(c.get("base") or c.get("path") or "?")))
            continue
        small = min(items, key=lambda it: len(json.dumps(it[0])))
        sc = shrink(H, scratch, small[0], cid, timeout_s, skip) if len(viol) < 4 else small[0]
        if sc.get("base", "").startswith(vlib.BUILD):
            # a library-written base lives in the per-run scratch directory: the replay carries its bytes
            try:
                sc = dict(sc, base_hex=open(sc["base"], "rb").read().hex())
            except OSError:
                pass
        viol.append(dict(what="%s [%d input(s) in class %s]" % (desc, len(items), cid), failing_input=sc,
                         impl={k: v for k, v in small[1].items() if k not in ("stack",)}, stack=(small[1].get("stack") or small[1].get("stderr") or "")[:1500],
                         proposed_known_class=kf))
    # known finding re-confirmation: the chunked-extent class on a corpus witness, without the skip
    if "C07-chunked-extent-alloc" in kids:
        wit = os.path.join(REPO, "testdata", "hdf5_official", "h5diff_hyper2.h5")
        if os.path.exists(wit):
            r = c07pool.run_cases(H, [dict(path=wit)], scratch, timeout_s=timeout_s, workers=1)[0]
            k = classify(r, dict(path=wit))
            if k and (k[0].startswith("fatal:out of memory") or k[0].startswith("rss@Dataset.Read")):
                known.append("C07-chunked-extent-alloc re-confirmed on the unmodified corpus file h5diff_hyper2.h5: %s" % k[1][:200])
            else:
                known.append("C07-chunked-extent-alloc no longer reproduces on h5diff_hyper2.h5 (%s)" % (r.get("c"),))
        if notes.get("chunked-extent"):
            known.append("C07-chunked-extent-alloc: %d dataset reads skipped in the worker (declared extent > 4 MiB + 4 x file size)" % notes["chunked-extent"])

    # ---- 3. parser level tie (Go parsers vs Coq decoder models) and model level tie (Robust models)
    npar = nmod = 0
    try:
        npar = parser_tie(ctx, viol, cov)
    except Exception as e:          # a tie that cannot run is a broken correspondence, but must not hide the file-level results
        viol.append(dict(what="parser-level tie could not run: %r" % (e,), nofail=True, correspondence="Go parsers vs Model/Codec*.v"))
    try:
        from props import c07model
        nmod = c07model.tie(ctx, viol, cov)
    except Exception as e:
        viol.append(dict(what="model-level tie could not run: %r" % (e,), nofail=True, correspondence="Go functions vs Model/Robust*.v"))
    try:
        # the object-tree loader of Open on constructed group graphs vs Model/RobustLoad.v (theorems in Props/C07Load.v)
        from props import c07load
        nload, finding = c07load.tie(ctx, viol, cov)
        nmod += nload
        if finding and finding["id"] in kids:
            known.append("%s re-confirmed: Open built %d group objects (%d bytes allocated) from a %d-byte file, loadCount %d" % (
                finding["id"], finding["objects_built"], finding["bytes_allocated"] or 0, finding["file_bytes"], finding["load_count"]))
    except Exception as e:
        viol.append(dict(what="loader tie could not run: %r" % (e,), nofail=True, correspondence="hdf5.Open vs Model/RobustLoad.v"))

    worst = sorted([r for r in clean_res + res if r.get("hwm_kb")], key=lambda r: -r["hwm_kb"] * 1024.0 / mem_bound(r.get("size", 0)))[:3]
    slow = sorted([r for r in clean_res + res if r.get("ms") is not None], key=lambda r: -r["ms"])[:3]
    for c in cases[:2] + [c for c in cases if c.get("gen") == "selfref"][:2] + [c for c in cases if c.get("gen") == "random"][:1]:
        samples.append({k: (v if k != "patches" else [[o, h[:64]] for o, h in v[:4]]) for k, v in c.items()})
    distinct = len({(c.get("base"), c.get("trunc"), json.dumps(c.get("patches"))) for c in cases})
    cov.update(dict(
        evaluations=len(clean_cases) + len(cases) + npar + nmod,
        distinct_nontrivial=distinct,
        rule="file level: one evaluation = one input file opened and read completely by the isolated worker; distinct = distinct (base, changed bytes); "
             "inputs = every field found by the spec-derived locator x its boundary values (quick: per-file cap %s, extremes always kept), random multi-byte "
             "mutations, truncations, constructed self-referential structures; gate = no panic / fatal / timeout and peak RSS <= 64 MiB + 64 x size" % cap,
        samples=samples, base_files=len(bases), bases=per_base if len(per_base) <= 60 else dict(list(per_base.items())[:60]),
        fields_per_kind=dict(field_hist), generator_histogram=dict(gen_hist), outcome_histogram=dict(outcome_hist),
        failure_classes={k: len(v) for k, v in classes.items()}, notes=dict(notes),
        max_hwm_kb=max([r.get("hwm_kb", 0) for r in clean_res + res] or [0]), max_ms=max([r.get("ms", 0) for r in clean_res + res] or [0]),
        worst_rss=[dict(hwm_kb=r["hwm_kb"], size=r.get("size"), maxop=r.get("maxop")) for r in worst],
        slowest=[dict(ms=r["ms"], op=r.get("slowop"), size=r.get("size")) for r in slow],
        fuzz_wall_s=round(fuzz_wall, 1), memory_gate="RSS <= %d MiB + %d x file size; RLIMIT_AS %d GiB" % (MEM_SLACK >> 20, MEM_FACTOR, c07pool.RLIMIT_AS >> 30),
        time_gate_s=timeout_s, programs=len(bases), disagreements_checked=len(cases) + npar + nmod,
        known_classes_active=sorted(kids), worker_skip=skip))
    return dict(violations=viol, known=known, coverage=cov)


def replay(ctx, path):
    """re-run one stored failing input; prints the worker's observable and the gate verdict"""
    rp = json.load(open(path))
    d = rp.get("detail", rp)
    case = d.get("failing_input") or d.get("case")
    if not case:
        print("replay file has no failing input (%s)" % d.get("what"))
        return []
    if "kind" in case and "raw" in case:
        r = vlib.run_harness(ctx.harness, "c11", [dict(kind=case["kind"].split("_v")[0] if case["kind"].startswith("ohdr") else case["kind"], raw=case["raw"], sb=case.get("sb"))])[0]
        print("parser-level replay:", json.dumps(r)[:600])
        return [1] if r["raw"]["c"] == "panic" else []
    scratch = vlib.scratch()
    kids = known_ids()
    if case.get("base_hex") and not os.path.exists(case.get("base", "")):
        bp = os.path.join(scratch, "replay-base.h5")
        with open(bp, "wb") as f:
            f.write(bytes.fromhex(case["base_hex"]))
        case = dict(case, base=bp)
    case = {k: v for k, v in case.items() if k != "base_hex"}
    r = c07pool.run_cases(ctx.harness, [case], scratch, timeout_s=30, workers=1)[0]
    k = classify(r, case)
    print("input:", json.dumps({kk: vv for kk, vv in case.items() if kk != "patches"})[:400], "changed:", [[o, h[:40]] for o, h in case.get("patches", [])][:8])
    print("implementation:", json.dumps({kk: vv for kk, vv in r.items() if kk != "stack"})[:900])
    print("specification verdict:", "VIOLATED: " + k[1] if k else "holds (value or error, within the time and memory bounds)")
    return [k] if k else []
