"""C02, whole-file tie of the byte-level attribute theorem (coq/theories/Props/C02File.v): the byte image
`image_v2_attr name dtype dims data aname adt adims adata` (coq/theories/Model/FileImageAttr.v: image_v2 whose dataset object
header, rewritten in place inside its 262-byte reserve, additionally carries ONE compact attribute message of version 3) against
the COMPLETE file written by the library with

    fw := CreateForWrite(f, CreateTruncate, WithSuperblockVersion(2)); ds := fw.CreateDataset("/"+name, dtype, dims);
    ds.Write(data); ds.WriteAttribute(aname, value); fw.Close()

byte for byte (harness subcommand c01file with the fields aname/akind/aval; Coq evaluates `image_attr_case_ok` by vm_compute).
Independent of the model, Python checks on the library's file what the theorem concludes: the data still sits at 2195, the
file has the length of the file without attribute (nothing allocated), the dataset header block behind the data holds an
attribute message (type 12) that ends with NAME NUL datatype dataspace VALUE, the header chunk size grew by 4 + message size.
Generated: every value kind of attr_of_kind (scalars int8..uint64, float32/64, slices []int32 []int64 []float32 []float64,
strings), attribute names of arbitrary bytes (NUL and '/' included) up to the longest the 255-byte header chunk holds
(boundary 255 included), datasets as in c01file (smaller).

Kind "dense" (coq/theories/Props/C02FileDense.v, Model/FileImageDense.v `image_v2_dense`): the same with a LIST of WriteAttribute
calls (harness subcommand c02dense) long enough for the library to move the attributes to dense storage (the ninth attribute, or
the first whose message does not fit the 255-byte header chunk any more): fractal heap header, 64 KiB direct block, 4 KiB
B-tree v2 leaf and B-tree v2 header behind the old end of file, the dataset header rewritten with the Attribute Info message
(and the tail of the old, longer header left behind it).  The ~72 KB file travels to Coq as hex pieces and runs of zero bytes;
Coq evaluates `image_dense_case_ok` (whole-file byte equality).  Independent of the model, Python checks on the library's file
what the theorem concludes: walking the Attribute Info message -> B-tree header -> leaf records (ascending name hash) -> heap
ids -> direct block gives exactly the written (name, value) pairs.  Generated: 1..30 attributes of all value kinds, names of
arbitrary bytes (NUL included) with pairwise distinct names and name hashes, 0..4 compact attributes before the transition
(on a dataset created by CreateDataset the 255-byte header chunk is full before the ninth attribute), one attribute too large
for the header (dense from the first call on)."""
import concurrent.futures as cf, os, re, struct, time
import vlib
import h5spec

DTYPES = ["int8", "int16", "int32", "int64", "uint8", "uint16", "uint32", "uint64", "float32", "float64"]
ESZ = {"int8": 1, "int16": 2, "int32": 4, "int64": 8, "uint8": 1, "uint16": 2, "uint32": 4, "uint64": 8, "float32": 4, "float64": 8}
KINDS = ["i8", "i16", "i32", "i64", "u8", "u16", "u32", "u64", "f32", "f64", "[]i32", "[]i64", "[]f32", "[]f64", "str"]
KSZ = [1, 2, 4, 8, 1, 2, 4, 8, 4, 8, 4, 8, 4, 8, 0]
CORR = ("Model.FileImageAttr.image_v2_attr (image_v2 with the dataset object header of four messages: datatype, dataspace, layout, "
        "attribute v3, rewritten in place in its reserved block) vs the whole file written by "
        "CreateForWrite/CreateDataset/Write/WriteAttribute/Close")
HEADER = "From HV Require Import Base.Prelude Model.FileImage Model.FileImageAttr.\n"
DATA_ADDR = 2195


def adt_len(k):
    """length of the attribute's datatype message"""
    return 9 if k == 14 else (20 if k in (8, 9, 12, 13) else 12)


def base_chunk(dtype, rank):
    return (20 if dtype.startswith("float") else 12) + 4 + (8 + 8 * rank) + 4 + 18 + 4


def attr_msg_len(k, aname, raw):
    return 9 + len(aname) + 1 + adt_len(k) + 16 + (len(raw) + 1 if k == 14 else len(raw))


def rand_bytes(rng, n, pool=None):
    return bytes(rng.choice(pool) if pool else rng.getrandbits(8) for _ in range(n))


def rand_raw(rng, k):
    if k < 10:
        return rand_bytes(rng, KSZ[k])
    if k < 14:
        return rand_bytes(rng, KSZ[k] * rng.choice([1, 1, 2, 3, 5]))
    return rand_bytes(rng, rng.choice([0, 1, 3, 5, 12]), pool=rng.choice([b"abcxyz ", bytes(range(1, 256))]))


def gen_cases(rng, n):
    cases = [dict(name=b"d", dtype="uint8", dims=[3], data=bytes([1, 2, 3]), aname=b"a", akind=2, raw=struct.pack("<i", 42)),
             dict(name=b"d", dtype="uint8", dims=[3], data=bytes([1, 2, 3]), aname=b"units", akind=14, raw=b"Celsius"),
             dict(name=b"t", dtype="float64", dims=[2], data=bytes(16), aname=b"calibration", akind=13, raw=struct.pack("<dd", 1.0, 0.0))]
    for k in range(len(KINDS)):
        dt = rng.choice(DTYPES)
        cases.append(dict(name=b"k%d" % k, dtype=dt, dims=[2], data=rand_bytes(rng, 2 * ESZ[dt]), aname=b"at_" + KINDS[k].encode(),
                          akind=k, raw=rand_raw(rng, k)))
    while len(cases) < n:
        dt = rng.choice(DTYPES)
        dims = [rng.choice([1, 2, 3, 4, 5, 7]) for _ in range(rng.choice([1, 1, 2, 3]))]
        tot = 1
        for d in dims:
            tot *= d
        k = rng.randrange(len(KINDS))
        raw = rand_raw(rng, k)
        room = 255 - base_chunk(dt, len(dims)) - 4 - attr_msg_len(k, b"", raw)       # the longest name the compact path takes
        if room < 1:
            continue
        r = rng.random()
        ln = room if r < 0.15 else (room - 1 if r < 0.2 and room > 1 else rng.choice([1, 1, 2, 3, 5, 8, rng.randint(1, room)]))
        ln = max(1, min(ln, room))
        pool = rng.choice([b"abcdefghijklmnopqrstuvwxyz_0123456789", bytes(range(1, 256)), bytes(range(0, 256))])
        name = rand_bytes(rng, rng.choice([1, 2, 5, 9]), pool=bytes(b for b in range(1, 256) if b != 47))
        cases.append(dict(name=name, dtype=dt, dims=dims, data=rand_bytes(rng, tot * ESZ[dt]), aname=rand_bytes(rng, ln, pool=pool),
                          akind=k, raw=raw))
    return cases


def lit(b):
    return "[" + "; ".join('"%s"%%string' % b[i:i + 1500].hex() for i in range(0, max(len(b), 1), 1500)) + "]"


def _eval_chunk(args):
    k, cases, files = args
    v = [HEADER]
    terms = []
    for c, f in zip(cases, files):
        terms.append("(%s, %d, %s, %s, %s, %d, %s, %s)" % (lit(c["name"]), DTYPES.index(c["dtype"]), vlib.cNlist(c["dims"]), lit(c["data"]),
                                                           lit(c["aname"]), c["akind"], lit(c["raw"]), lit(f)))
    v.append("Definition cs : list (list string * N * list N * list string * list string * N * list string * list string) := [\n%s].\n"
             % ";\n".join(terms))
    v.append("Definition bad := Eval vm_compute in mismatches image_attr_case_ok cs.\nPrint bad.\n")
    out = vlib.coq_eval("".join(v), "c02file_%d" % k)
    return [k + i for i in vlib.parse_nlist(out, "bad")]


def coq_bad(cases, files, chunk=10, workers=10):
    parts = [(k, cases[k:k + chunk], files[k:k + chunk]) for k in range(0, len(cases), chunk)]
    with cf.ThreadPoolExecutor(max_workers=workers) as ex:
        return sorted(i for r in ex.map(_eval_chunk, parts) for i in r)


def py_spec(c, f, f0):
    """what the theorem concludes, checked on the library's own file without the model (f0: the same file without attribute)"""
    probs = []
    n = len(c["data"])
    if f[DATA_ADDR:DATA_ADDR + n] != c["data"]:
        probs.append("the written data is not at address %d" % DATA_ADDR)
    if len(f) != DATA_ADDR + n + 262:
        probs.append("file length %d, expected data address + data + 262-byte header reserve = %d" % (len(f), DATA_ADDR + n + 262))
    eof = struct.unpack_from("<Q", f, 28)[0]
    if eof != len(f):
        probs.append("superblock end-of-file address %d, file length %d" % (eof, len(f)))
    h = DATA_ADDR + n
    if f[h:h + 6] != b"OHDR\x02\x00":
        probs.append("no version 2 object header behind the data")
        return probs
    if f0 is not None:
        if f[:h] != f0[:h]:
            probs.append("WriteAttribute changed bytes in front of the dataset's object header")
        old = f0[h + 6]
        if f[h + 7:h + 7 + old] != f0[h + 7:h + 7 + old]:
            probs.append("WriteAttribute changed the datatype/dataspace/layout messages")
    else:
        old = base_chunk(c["dtype"], len(c["dims"])) - 0
    val = c["raw"] + b"\0" if c["akind"] == 14 else c["raw"]
    msz = attr_msg_len(c["akind"], c["aname"], c["raw"])
    if f[h + 6] != old + 4 + msz:
        probs.append("header chunk size %d, expected %d + 4 + %d" % (f[h + 6], old, msz))
    p = h + 7 + old
    if f[p:p + 4] != bytes([12, msz & 255, msz >> 8, 0]):
        probs.append("no attribute message prefix (type 12, size %d, flags 0) behind the layout message" % msz)
    m = f[p + 4:p + 4 + msz]
    if m[:2] != b"\x03\x00" or m[9:9 + len(c["aname"]) + 1] != c["aname"] + b"\0":
        probs.append("the attribute message does not hold version 3 / the attribute name")
    if not m.endswith(val):
        probs.append("the attribute message does not end with the value bytes")
    if any(f[p + 4 + msz:]):
        probs.append("non-zero bytes behind the attribute message")
    return probs


def run_unit(ctx, n=None):
    H, rng = ctx.harness, ctx.rng
    n = n or (150 if ctx.tier == "thorough" else 40)
    builddir = os.path.join(vlib.BUILD, "scratch")
    os.makedirs(builddir, exist_ok=True)
    t0 = time.time()
    cases = gen_cases(rng, n)
    wire = [dict(sb=2, name=c["name"].hex(), dtype=c["dtype"], dims=c["dims"], data=c["data"].hex(), aname=c["aname"].hex(),
                 akind=KINDS[c["akind"]], aval=c["raw"].hex(), dir=builddir) for c in cases]
    plain = [{k: v for k, v in w.items() if k not in ("aname", "akind", "aval")} for w in wire]
    res = vlib.run_harness(H, "c01file", wire + plain)
    res, res0 = res[:len(wire)], res[len(wire):]
    viol, kept, files, samples = [], [], [], []
    for c, w, r, r0 in zip(cases, wire, res, res0):
        w = {k: v for k, v in w.items() if k != "dir"}
        if not r.get("ok"):
            viol.append(dict(what="c02file: the library refused or failed an admissible create/write/attribute/close: %s" % str(r)[:300],
                             failing_input=w, impl=r))
            continue
        f = bytes.fromhex(r["file"])
        f0 = bytes.fromhex(r0["file"]) if r0.get("ok") else None
        probs = py_spec(c, f, f0)
        if probs:
            viol.append(dict(what="c02file: " + probs[0], failing_input=w, impl=dict(file=r["file"][:6000]), problems=probs))
            continue
        kept.append((c, w))
        files.append(f)
    bad = coq_bad([c for c, _ in kept], files) if kept else []
    for i in bad:
        c, w = kept[i]
        viol.append(dict(what="c02file: the file written by the library differs from Model.FileImageAttr.image_v2_attr", case=w,
                         impl=dict(file=files[i].hex()), nofail=True, correspondence=CORR))
    for (c, w), f in list(zip(kept, files))[:2]:
        samples.append(dict(case=dict(w, data=w["data"][:64]), file_len=len(f)))
    distinct = {(c["name"], c["dtype"], tuple(c["dims"]), c["data"], c["aname"], c["akind"], c["raw"]) for c, _ in kept}
    chunks = sorted({f[DATA_ADDR + len(c["data"]) + 6] for (c, _), f in zip(kept, files)})
    dense = run_dense(ctx)
    return dict(violations=viol + dense.pop("violations"), known=[], evaluations=len(cases) + dense["evaluations"],
                distinct=len(distinct) + dense["distinct"], samples=samples + dense.pop("samples"),
                rule="whole file compared byte for byte with image_v2_attr (one compact attribute) / image_v2_dense (dense storage); "
                     "distinct = distinct (name, dtype, dims, data, attributes (name, kind, value))",
                kinds=sorted({KINDS[c["akind"]] for c in cases}), dtypes=sorted({c["dtype"] for c in cases}),
                aname_lengths=sorted({len(c["aname"]) for c in cases})[:40], header_chunk_sizes=chunks[:60],
                dense=dense, wall=round(time.time() - t0, 1))


# ------------------------------------------------------------------------------------------------ kind "dense"

CORR_DENSE = ("Model.FileImageDense.image_v2_dense (image_v2 + dataset header with the Attribute Info message over the old compact "
              "header + fractal heap header + 64 KiB direct block + B-tree v2 leaf + B-tree v2 header, from FHeap.encode_header/"
              "encode_dblock, BT2.encode_leaf/encode_header, enc_attribute, enc_attrinfo) vs the whole file written by "
              "CreateForWrite/CreateDataset/Write/WriteAttribute x n/Close")
HEADER_DENSE = "From HV Require Import Base.Prelude Model.FileImage Model.FileImageAttr Model.FileImageDense.\n"
DENSE_EXTRA = 146 + 65536 + 4096 + 38
_ZRUN = re.compile(rb"\0{48,}")


def pieces_literal(d):
    """bytes -> Coq literal of type list piece: hex strings of at most 1500 bytes, runs of >= 48 zero bytes as PZ n"""
    out, pos = [], 0

    def hexes(b):
        for i in range(0, len(b), 1500):
            out.append('PH "%s"%%string' % b[i:i + 1500].hex())
    for m in _ZRUN.finditer(d):
        if m.start() > pos:
            hexes(d[pos:m.start()])
        out.append("PZ %d" % (m.end() - m.start()))
        pos = m.end()
    if pos < len(d):
        hexes(d[pos:])
    return "[" + "; ".join(out) + "]"


def value_bytes(k, raw):
    return raw + b"\0" if k == 14 else raw


def compact_prefix(c):
    """writeAttribute's dispatch: how many leading attributes stay in the object header"""
    used, k = base_chunk(c["dtype"], len(c["dims"])), 0
    for (an, ak, raw) in c["attrs"]:
        need = 4 + attr_msg_len(ak, an, raw)
        if k >= 8 or used + need > 255:
            break
        used, k = used + need, k + 1
    return k


def gen_dense_cases(rng, n):
    cases = []
    fixed = [(9, "i32"), (5, "i32"), (12, None), (30, None), (1, "big"), (9, "u8")]
    while len(cases) < n:
        spec = fixed[len(cases)] if len(cases) < len(fixed) else (rng.choice([9, 9, 10, 11, 13, 16, 20, 25, 30, rng.randint(2, 30)]), None)
        na, mode = spec
        dt = rng.choice(DTYPES)
        dims = [rng.choice([1, 2, 3, 4, 5]) for _ in range(rng.choice([1, 1, 2, 3]))]
        tot = 1
        for d in dims:
            tot *= d
        attrs, names, hashes = [], set(), set()
        pool = rng.choice([b"abcdefghijklmnopqrstuvwxyz_0123456789", bytes(range(1, 256)), bytes(range(0, 256))])
        while len(attrs) < na:
            if mode == "i32" or mode == "u8":
                an, k = b"a%02d" % len(attrs), (2 if mode == "i32" else 4)
                raw = rand_raw(rng, k)
            elif mode == "big":          # one attribute too large for the header: dense storage from the first call on
                an, k, raw = b"big", 11, rand_bytes(rng, 8 * 40)
            else:
                an = rand_bytes(rng, rng.choice([1, 2, 3, 5, 8, 13, rng.randint(1, 40)]), pool=pool)
                k = rng.randrange(len(KINDS))
                raw = rand_raw(rng, k)
                if k == 14 and rng.random() < 0.3:
                    raw = rand_bytes(rng, rng.choice([20, 60, 200]), pool=b"abcxyz ")
            h = h5spec.lookup3(an)
            if an in names or h in hashes:
                continue
            names.add(an)
            hashes.add(h)
            attrs.append((an, k, raw))
        c = dict(name=rand_bytes(rng, rng.choice([1, 2, 5]), pool=b"abcdefgh"), dtype=dt, dims=dims, data=rand_bytes(rng, tot * ESZ[dt]),
                 attrs=attrs)
        if compact_prefix(c) < len(attrs):
            cases.append(c)
    return cases


def _eval_dense_chunk(args):
    k, cases, files = args
    v = [HEADER_DENSE]
    terms = []
    for c, f in zip(cases, files):
        al = "[" + "; ".join("(%s, %d, %s)" % (lit(an), ak, lit(raw)) for (an, ak, raw) in c["attrs"]) + "]"
        terms.append("(%s, %d, %s, %s, %s, %s)" % (lit(c["name"]), DTYPES.index(c["dtype"]), vlib.cNlist(c["dims"]), lit(c["data"]), al,
                                                   pieces_literal(f)))
    v.append("Definition cs : list (list string * N * list N * list string * list (list string * N * list string) * list piece) := [\n%s].\n"
             % ";\n".join(terms))
    v.append("Definition bad := Eval vm_compute in mismatches image_dense_case_ok cs.\nPrint bad.\n")
    out = vlib.coq_eval("".join(v), "c02dense_%d" % k)
    return [k + i for i in vlib.parse_nlist(out, "bad")]


def py_spec_dense(c, f):
    """the conclusion of C02_file_dense_attributes_roundtrip read off the library's file by a walk that does not use the model"""
    probs = []
    n = len(c["data"])
    if f[DATA_ADDR:DATA_ADDR + n] != c["data"]:
        probs.append("the written data is not at address %d" % DATA_ADDR)
    fh = DATA_ADDR + n + 262
    if len(f) != fh + DENSE_EXTRA:
        probs.append("file length %d, expected %d (end of the header reserve + heap header 146 + block 65536 + leaf 4096 + header 38)"
                     % (len(f), fh + DENSE_EXTRA))
        return probs
    if struct.unpack_from("<Q", f, 28)[0] != len(f):
        probs.append("superblock end-of-file address differs from the file length")
    h = DATA_ADDR + n
    if f[h:h + 6] != b"OHDR\x02\x00":
        return probs + ["no version 2 object header behind the data"]
    p, end, info = h + 7, h + 7 + f[h + 6], None
    while p + 4 <= end:
        ty, sz = f[p], struct.unpack_from("<H", f, p + 1)[0]
        if ty == 12:
            probs.append("a compact attribute message is left in the header after the transition")
        if ty == 21:
            info = f[p + 4:p + 4 + sz]
        p += 4 + sz
    if info is None or len(info) != 18 or info[:2] != b"\0\0":
        return probs + ["no Attribute Info message (version 0, flags 0, two addresses) in the dataset header"]
    ha, ba = struct.unpack_from("<QQ", info, 2)
    if ha != fh or ba != fh + 146 + 65536 + 4096:
        probs.append("Attribute Info addresses (%d, %d), expected (%d, %d)" % (ha, ba, fh, fh + 146 + 65536 + 4096))
        return probs
    if f[ha:ha + 4] != b"FRHP" or f[ba:ba + 4] != b"BTHD":
        return probs + ["no fractal heap header / B-tree v2 header at the addresses of the Attribute Info message"]
    root, nrec = struct.unpack_from("<QH", f, ba + 16)
    db = struct.unpack_from("<Q", f, ha + 132)[0]
    if f[root:root + 4] != b"BTLF" or f[db:db + 4] != b"FHDB":
        return probs + ["no B-tree v2 leaf / direct block at the root addresses"]
    if nrec != len(c["attrs"]):
        probs.append("the index holds %d records, %d attributes were written" % (nrec, len(c["attrs"])))
    got, hs = [], []
    for i in range(nrec):
        r = f[root + 6 + 11 * i:root + 6 + 11 * i + 11]
        hs.append(struct.unpack_from("<I", r, 0)[0])
        off, ln = struct.unpack_from("<H", r, 5)[0], int.from_bytes(r[7:10], "little")
        m = f[db + 15 + off:db + 15 + off + ln]
        nsz, dsz, ssz = struct.unpack_from("<HHH", m, 2)
        got.append((hs[-1], m[9:9 + nsz - 1], m[9 + nsz + dsz + ssz:]))
    if hs != sorted(hs):
        probs.append("the leaf records are not in ascending name-hash order")
    want = sorted((h5spec.lookup3(an), an, value_bytes(ak, raw)) for (an, ak, raw) in c["attrs"])
    if got != want:
        probs.append("index -> heap walk returns %d attributes that differ from the %d written (hash order)" % (len(got), len(want)))
    return probs


def run_dense(ctx, n=None):
    H, rng = ctx.harness, ctx.rng
    n = n or (60 if ctx.tier == "thorough" else 12)
    builddir = os.path.join(vlib.BUILD, "scratch")
    os.makedirs(builddir, exist_ok=True)
    t0 = time.time()
    cases = gen_dense_cases(rng, n)
    wire = [dict(name=c["name"].hex(), dtype=c["dtype"], dims=c["dims"], data=c["data"].hex(), dir=builddir,
                 attrs=[dict(name=an.hex(), kind=KINDS[ak], val=raw.hex()) for (an, ak, raw) in c["attrs"]]) for c in cases]
    res = vlib.run_harness(H, "c02dense", wire)
    viol, kept, files, samples = [], [], [], []
    for c, w, r in zip(cases, wire, res):
        w = {k: v for k, v in w.items() if k != "dir"}
        if not r.get("ok"):
            viol.append(dict(what="c02file/dense: the library refused or failed an admissible create/write/attribute list/close: %s" % str(r)[:300],
                             failing_input=w, impl=r))
            continue
        f = bytes.fromhex(r["file"])
        probs = py_spec_dense(c, f)
        if probs:
            viol.append(dict(what="c02file/dense: " + probs[0], failing_input=w, impl=dict(file_len=len(f)), problems=probs))
            continue
        kept.append((c, w))
        files.append(f)
    t1 = time.time()
    bad = []
    if kept:
        parts = [(k, [c for c, _ in kept[k:k + 2]], files[k:k + 2]) for k in range(0, len(kept), 2)]
        with cf.ThreadPoolExecutor(max_workers=8) as ex:
            bad = sorted(i for r in ex.map(_eval_dense_chunk, parts) for i in r)
    for i in bad:
        c, w = kept[i]
        viol.append(dict(what="c02file/dense: the file written by the library differs from Model.FileImageDense.image_v2_dense", case=w,
                         impl=dict(file=pieces_literal(files[i])[:20000]), nofail=True, correspondence=CORR_DENSE))
    for (c, w), f in list(zip(kept, files))[:2]:
        samples.append(dict(case=dict(w, data=w["data"][:64], attrs=w["attrs"][:3], nattrs=len(w["attrs"])), file_len=len(f)))
    distinct = {(c["name"], c["dtype"], tuple(c["dims"]), c["data"], tuple(c["attrs"])) for c, _ in kept}
    return dict(violations=viol, evaluations=len(cases), distinct=len(distinct), samples=samples,
                nattrs=sorted({len(c["attrs"]) for c in cases}), compact_before_transition=sorted({compact_prefix(c) for c in cases}),
                kinds=sorted({KINDS[ak] for c in cases for (_, ak, _) in c["attrs"]}),
                wall_go=round(t1 - t0, 1), wall_coq=round(time.time() - t1, 1))
