"""C02, whole-file tie of the byte-level attribute theorem (coq/theories/Props/C02File.v): the byte image
`image_v2_attr name dtype dims data aname adt adims adata` (coq/theories/Model/FileImageAttr.v: image_v2 whose dataset object
header, rewritten in place inside its 262-byte reserve, additionally carries ONE compact attribute message of version 3) against
the COMPLETE file written by the library with

    fw := CreateForWrite(f, CreateTruncate, WithSuperblockVersion(2)); ds := fw.CreateDataset("/"+name, dtype, dims);
    ds.Write(data); ds.WriteAttribute(aname, value); fw.Close()

byte for byte (harness subcommand c01file with the fields aname/akind/aval; Coq evaluates `image_attr_case_ok` by vm_compute).
Independent of the model, Python checks on the library's file what the theorem concludes: the data still sits at 2195, the
file has the length of the file without attribute (nothing allocated), the dataset header block behind the data holds an
attribute message (type 12) that ends with NAME NUL datatype dataspace VALUE, the header chunk size grew by 4 + message size.
Generated: every value kind of attr_of_kind (scalars int8..uint64, float32/64, slices []int32 []int64 []float32 []float64,
strings), attribute names of arbitrary bytes (NUL and '/' included) up to the longest the 255-byte header chunk holds
(boundary 255 included), datasets as in c01file (smaller)."""
import concurrent.futures as cf, os, struct, time
import vlib

DTYPES = ["int8", "int16", "int32", "int64", "uint8", "uint16", "uint32", "uint64", "float32", "float64"]
ESZ = {"int8": 1, "int16": 2, "int32": 4, "int64": 8, "uint8": 1, "uint16": 2, "uint32": 4, "uint64": 8, "float32": 4, "float64": 8}
KINDS = ["i8", "i16", "i32", "i64", "u8", "u16", "u32", "u64", "f32", "f64", "[]i32", "[]i64", "[]f32", "[]f64", "str"]
KSZ = [1, 2, 4, 8, 1, 2, 4, 8, 4, 8, 4, 8, 4, 8, 0]
CORR = ("Model.FileImageAttr.image_v2_attr (image_v2 with the dataset object header of four messages: datatype, dataspace, layout, "
        "attribute v3, rewritten in place in its reserved block) vs the whole file written by "
        "CreateForWrite/CreateDataset/Write/WriteAttribute/Close")
HEADER = "From HV Require Import Base.Prelude Model.FileImage Model.FileImageAttr.\n"
DATA_ADDR = 2195


def adt_len(k):
    """length of the attribute's datatype message"""
    return 9 if k == 14 else (20 if k in (8, 9, 12, 13) else 12)


def base_chunk(dtype, rank):
    return (20 if dtype.startswith("float") else 12) + 4 + (8 + 8 * rank) + 4 + 18 + 4


def attr_msg_len(k, aname, raw):
    return 9 + len(aname) + 1 + adt_len(k) + 16 + (len(raw) + 1 if k == 14 else len(raw))


def rand_bytes(rng, n, pool=None):
    return bytes(rng.choice(pool) if pool else rng.getrandbits(8) for _ in range(n))


def rand_raw(rng, k):
    if k < 10:
        return rand_bytes(rng, KSZ[k])
    if k < 14:
        return rand_bytes(rng, KSZ[k] * rng.choice([1, 1, 2, 3, 5]))
    return rand_bytes(rng, rng.choice([0, 1, 3, 5, 12]), pool=rng.choice([b"abcxyz ", bytes(range(1, 256))]))


def gen_cases(rng, n):
    cases = [dict(name=b"d", dtype="uint8", dims=[3], data=bytes([1, 2, 3]), aname=b"a", akind=2, raw=struct.pack("<i", 42)),
             dict(name=b"d", dtype="uint8", dims=[3], data=bytes([1, 2, 3]), aname=b"units", akind=14, raw=b"Celsius"),
             dict(name=b"t", dtype="float64", dims=[2], data=bytes(16), aname=b"calibration", akind=13, raw=struct.pack("<dd", 1.0, 0.0))]
    for k in range(len(KINDS)):
        dt = rng.choice(DTYPES)
        cases.append(dict(name=b"k%d" % k, dtype=dt, dims=[2], data=rand_bytes(rng, 2 * ESZ[dt]), aname=b"at_" + KINDS[k].encode(),
                          akind=k, raw=rand_raw(rng, k)))
    while len(cases) < n:
        dt = rng.choice(DTYPES)
        dims = [rng.choice([1, 2, 3, 4, 5, 7]) for _ in range(rng.choice([1, 1, 2, 3]))]
        tot = 1
        for d in dims:
            tot *= d
        k = rng.randrange(len(KINDS))
        raw = rand_raw(rng, k)
        room = 255 - base_chunk(dt, len(dims)) - 4 - attr_msg_len(k, b"", raw)       # the longest name the compact path takes
        if room < 1:
            continue
        r = rng.random()
        ln = room if r < 0.15 else (room - 1 if r < 0.2 and room > 1 else rng.choice([1, 1, 2, 3, 5, 8, rng.randint(1, room)]))
        ln = max(1, min(ln, room))
        pool = rng.choice([b"abcdefghijklmnopqrstuvwxyz_0123456789", bytes(range(1, 256)), bytes(range(0, 256))])
        name = rand_bytes(rng, rng.choice([1, 2, 5, 9]), pool=bytes(b for b in range(1, 256) if b != 47))
        cases.append(dict(name=name, dtype=dt, dims=dims, data=rand_bytes(rng, tot * ESZ[dt]), aname=rand_bytes(rng, ln, pool=pool),
                          akind=k, raw=raw))
    return cases


def lit(b):
    return "[" + "; ".join('"%s"%%string' % b[i:i + 1500].hex() for i in range(0, max(len(b), 1), 1500)) + "]"


def _eval_chunk(args):
    k, cases, files = args
    v = [HEADER]
    terms = []
    for c, f in zip(cases, files):
        terms.append("(%s, %d, %s, %s, %s, %d, %s, %s)" % (lit(c["name"]), DTYPES.index(c["dtype"]), vlib.cNlist(c["dims"]), lit(c["data"]),
                                                           lit(c["aname"]), c["akind"], lit(c["raw"]), lit(f)))
    v.append("Definition cs : list (list string * N * list N * list string * list string * N * list string * list string) := [\n%s].\n"
             % ";\n".join(terms))
    v.append("Definition bad := Eval vm_compute in mismatches image_attr_case_ok cs.\nPrint bad.\n")
    out = vlib.coq_eval("".join(v), "c02file_%d" % k)
    return [k + i for i in vlib.parse_nlist(out, "bad")]


def coq_bad(cases, files, chunk=10, workers=10):
    parts = [(k, cases[k:k + chunk], files[k:k + chunk]) for k in range(0, len(cases), chunk)]
    with cf.ThreadPoolExecutor(max_workers=workers) as ex:
        return sorted(i for r in ex.map(_eval_chunk, parts) for i in r)


def py_spec(c, f, f0):
    """what the theorem concludes, checked on the library's own file without the model (f0: the same file without attribute)"""
    probs = []
    n = len(c["data"])
    if f[DATA_ADDR:DATA_ADDR + n] != c["data"]:
        probs.append("the written data is not at address %d" % DATA_ADDR)
    if len(f) != DATA_ADDR + n + 262:
        probs.append("file length %d, expected data address + data + 262-byte header reserve = %d" % (len(f), DATA_ADDR + n + 262))
    eof = struct.unpack_from("<Q", f, 28)[0]
    if eof != len(f):
        probs.append("superblock end-of-file address %d, file length %d" % (eof, len(f)))
    h = DATA_ADDR + n
    if f[h:h + 6] != b"OHDR\x02\x00":
        probs.append("no version 2 object header behind the data")
        return probs
    if f0 is not None:
        if f[:h] != f0[:h]:
            probs.append("WriteAttribute changed bytes in front of the dataset's object header")
        old = f0[h + 6]
        if f[h + 7:h + 7 + old] != f0[h + 7:h + 7 + old]:
            probs.append("WriteAttribute changed the datatype/dataspace/layout messages")
    else:
        old = base_chunk(c["dtype"], len(c["dims"])) - 0
    val = c["raw"] + b"\0" if c["akind"] == 14 else c["raw"]
    msz = attr_msg_len(c["akind"], c["aname"], c["raw"])
    if f[h + 6] != old + 4 + msz:
        probs.append("header chunk size %d, expected %d + 4 + %d" % (f[h + 6], old, msz))
    p = h + 7 + old
    if f[p:p + 4] != bytes([12, msz & 255, msz >> 8, 0]):
        probs.append("no attribute message prefix (type 12, size %d, flags 0) behind the layout message" % msz)
    m = f[p + 4:p + 4 + msz]
    if m[:2] != b"\x03\x00" or m[9:9 + len(c["aname"]) + 1] != c["aname"] + b"\0":
        probs.append("the attribute message does not hold version 3 / the attribute name")
    if not m.endswith(val):
        probs.append("the attribute message does not end with the value bytes")
    if any(f[p + 4 + msz:]):
        probs.append("non-zero bytes behind the attribute message")
    return probs


def run_unit(ctx, n=None):
    H, rng = ctx.harness, ctx.rng
    n = n or (150 if ctx.tier == "thorough" else 40)
    builddir = os.path.join(vlib.BUILD, "scratch")
    os.makedirs(builddir, exist_ok=True)
    t0 = time.time()
    cases = gen_cases(rng, n)
    wire = [dict(sb=2, name=c["name"].hex(), dtype=c["dtype"], dims=c["dims"], data=c["data"].hex(), aname=c["aname"].hex(),
                 akind=KINDS[c["akind"]], aval=c["raw"].hex(), dir=builddir) for c in cases]
    plain = [{k: v for k, v in w.items() if k not in ("aname", "akind", "aval")} for w in wire]
    res = vlib.run_harness(H, "c01file", wire + plain)
    res, res0 = res[:len(wire)], res[len(wire):]
    viol, kept, files, samples = [], [], [], []
    for c, w, r, r0 in zip(cases, wire, res, res0):
        w = {k: v for k, v in w.items() if k != "dir"}
        if not r.get("ok"):
            viol.append(dict(what="c02file: the library refused or failed an admissible create/write/attribute/close: %s" % str(r)[:300],
                             failing_input=w, impl=r))
            continue
        f = bytes.fromhex(r["file"])
        f0 = bytes.fromhex(r0["file"]) if r0.get("ok") else None
        probs = py_spec(c, f, f0)
        if probs:
            viol.append(dict(what="c02file: " + probs[0], failing_input=w, impl=dict(file=r["file"][:6000]), problems=probs))
            continue
        kept.append((c, w))
        files.append(f)
    bad = coq_bad([c for c, _ in kept], files) if kept else []
    for i in bad:
        c, w = kept[i]
        viol.append(dict(what="c02file: the file written by the library differs from Model.FileImageAttr.image_v2_attr", case=w,
                         impl=dict(file=files[i].hex()), nofail=True, correspondence=CORR))
    for (c, w), f in list(zip(kept, files))[:2]:
        samples.append(dict(case=dict(w, data=w["data"][:64]), file_len=len(f)))
    distinct = {(c["name"], c["dtype"], tuple(c["dims"]), c["data"], c["aname"], c["akind"], c["raw"]) for c, _ in kept}
    chunks = sorted({f[DATA_ADDR + len(c["data"]) + 6] for (c, _), f in zip(kept, files)})
    return dict(violations=viol, known=[], evaluations=len(cases), distinct=len(distinct), samples=samples,
                rule="whole file compared byte for byte with image_v2_attr; distinct = distinct (name, dtype, dims, data, aname, kind, value)",
                kinds=sorted({KINDS[c["akind"]] for c in cases}), dtypes=sorted({c["dtype"] for c in cases}),
                aname_lengths=sorted({len(c["aname"]) for c in cases})[:40], header_chunk_sizes=chunks[:60],
                wall=round(time.time() - t0, 1))
