"""C03 - group/link namespace after reopen equals the tree that was built."""
import histcheck, histgen
from histlib import hx

TRUSTED = ["C03: tools/histlib.py tree oracle (duplicate / missing-parent requests must fail; successful creations are the tree) and the hist harness glue"]


def fat_header_history(rng):
    """Hard links to objects whose header chunk is nearly full (one long compact attribute): the first extra link needs
    a reference-count message; when that does not fit the call must fail AND leave no name behind (seeded change C03-c)."""
    ops = [{"op": "mkgroup", "path": "/g"}]
    ds = []
    for i in range(rng.choice([3, 5, 8])):
        p = rng.choice(["/", "/g/"]) + "f%d" % i
        ops.append({"op": "mkds", "path": p, "dtype": rng.choice(["int32", "uint8", "float64"]), "dims": [rng.choice([1, 2])]})
        ops.append({"op": "setattr", "path": p, "name": hx("a"), "kind": "str", "val": hx("v" * rng.randint(140, 215))})
        ds.append(p)
    for j in range(2 * len(ds)):
        t = ds[j % len(ds)]
        ops.append({"op": "hardlink", "path": rng.choice(["/", "/g/"]) + "l%d" % j, "target": t})
    return ops


def one_history(rng, dense=True, spec_safe=False):
    if rng.random() < 0.12:
        return fat_header_history(rng)
    ops = []
    groups = ["/"]
    leaves = []
    mode = rng.choice(["deep", "wide", "long", "mixed", "mixed"])
    nops = rng.choice([5, 15, 40, 80])
    base = ["a", "b", "c", "grp", "x", "y", "data", "sub"]
    for i in range(nops):
        parent = rng.choice(groups) if mode != "deep" else groups[-1]
        if mode == "wide":
            parent = rng.choice(groups[:2])
            nm = "n%d" % rng.randint(0, 60)
        elif mode == "long":
            nm = rng.choice(base) + "_" * rng.choice([10, 40, 90, 200]) + str(rng.randint(0, 9))
        else:
            nm = rng.choice(base) + (str(rng.randint(0, 20)) if rng.random() < 0.6 else "")
        p = parent.rstrip("/") + "/" + nm
        r = rng.random()
        depth = p.count("/")
        if r < 0.45 and depth <= 6:
            ops.append({"op": "mkgroup", "path": p})
            if p not in groups and p not in leaves:
                groups.append(p)
        elif r < 0.7:
            k = rng.random()
            if k < 0.15:        # leaves of the other creation paths: CreateCompoundDataset, array / enum / ... through CreateDataset
                ops.append(dict({"op": "mkcompound", "path": p, "dims": [rng.choice([1, 3])]}, **histgen.rand_compound(rng, spec_safe)))
            elif k < 0.3:
                ops.append(dict({"op": "mkds", "path": p, "dims": [rng.choice([1, 3])]}, **histgen.rand_ext_kind(rng, spec_safe)))
            elif k < 0.36 and leaves and dense:     # groups created together with their links (CreateDenseGroup; CreateGroupWithLinks: > 8 links dense, 1..8 refused, 0 plain)
                nl = rng.choice([1, 2, 3, 9, 0, 1])
                ops.append({"op": rng.choice(["mkdense", "mkgrouplinks"]), "path": p, "links": {"k%d" % j: rng.choice(leaves) for j in range(nl)}})
                continue
            else:
                ops.append({"op": "mkds", "path": p, "dtype": rng.choice(["int32", "float64", "uint8"]), "dims": [rng.choice([1, 3])]})
            if p not in groups and p not in leaves:
                leaves.append(p)
        elif r < 0.82 and leaves:
            ops.append({"op": "hardlink", "path": p + "_l", "target": rng.choice(leaves)})
            if (p + "_l") not in groups and (p + "_l") not in leaves:
                leaves.append(p + "_l")
        elif r < 0.90:
            # duplicate request
            if len(groups) > 1 or leaves:
                q = rng.choice([g for g in groups if g != "/"] + leaves)
                ops.append(rng.choice([{"op": "mkgroup", "path": q}, {"op": "mkds", "path": q, "dtype": "int32", "dims": [1]},
                                       {"op": "mkdense", "path": q, "links": {"a": rng.choice(leaves)} if leaves else {}}, {"op": "mkgrouplinks", "path": q, "links": {}},
                                       dict({"op": "mkcompound", "path": q, "dims": [1]}, **histgen.rand_compound(rng, spec_safe)),
                                       {"op": "hardlink", "path": q, "target": rng.choice(leaves) if leaves else "/x"}]))
        else:
            ops.append(rng.choice([{"op": "mkgroup", "path": "/missing%d/g" % rng.randint(0, 5)},
                                   {"op": "mkds", "path": p + "/under/leaf", "dtype": "int32", "dims": [1]},
                                   {"op": "hardlink", "path": "/hl%d" % rng.randint(0, 50), "target": "/no/such/target"},
                                   {"op": "mkdense", "path": "/dn%d" % rng.randint(0, 50), "links": {"a": "/no/such/target"}},
                                   {"op": "mkdense", "path": "/missing%d/g" % rng.randint(0, 5), "links": {"a": rng.choice(leaves)} if leaves else {}},
                                   {"op": "mkgroup", "path": "relative"}, {"op": "mkgroup", "path": ""}, {"op": "mkgroup", "path": "/"}]))
    return ops


KNOWN = [
    dict(id="C03-hardlink-to-group", match="lists [], expected",
         case={"sb": 2, "ops": [{"op": "mkgroup", "path": "/g"}, {"op": "mkds", "path": "/g/d", "dtype": "int32", "dims": [1]},
                                {"op": "hardlink", "path": "/h", "target": "/g"}]}),
    dict(id="C03-dense-group-links-not-read", match="paths missing after reopen",
         case={"sb": 2, "ops": [{"op": "mkds", "path": "/a", "dtype": "int32", "dims": [1]}, {"op": "mkdense", "path": "/dg", "links": {"x": "/a"}}]}),
    dict(id="C03-soft-link", match="unexpected paths after reopen",
         case={"sb": 2, "ops": [{"op": "mkds", "path": "/d", "dtype": "int32", "dims": [1]}, {"op": "softlink", "path": "/s", "target": "/d"}]}),
]


def cases_for(rng, tier):
    n = 1200 if tier == "quick" else 30000
    cases = [{"sb": rng.choice([0, 2, 3]), "ops": one_history(rng)} for _ in range(n)]
    # hard links to an object of each kind (incl. dense groups) that has a neighbour allocated right behind it: the file must open
    # and the tree must be the one built (found at another seed: /repo 18bfe7a)
    for _ in range(80 if tier == "quick" else 2000):
        cases.append({"sb": rng.choice([0, 2, 3]), "ops": histgen.gen_grow_with_neighbour(rng, attrs=False)})
    return cases


def run(ctx):
    return histcheck.run(ctx, cases_for(ctx.rng, ctx.tier), "C03", tags={"tree", "must-fail-accepted"}, known=KNOWN, unit_modules=["c03unit", "c03wire", "c03file"],
                         rule_extra="C03 cases: creation sequences (5..80 calls) in deep (depth<=6), wide (beyond the 32-entry group capacity), "
                                    "long-name (filling the 256-byte name heap) and mixed modes with duplicate, missing-parent and malformed-path "
                                    "requests and hard links to datasets (incl. targets whose header chunk is nearly full); leaves also through CreateCompoundDataset and the array/enum/opaque/reference/variable-length "
                                    "kinds of CreateDataset; groups also through CreateDenseGroup / CreateGroupWithLinks (0, 1-8 [refused: must leave nothing], > 8 links, missing targets, duplicates); "
                                    "hard links to groups, soft/external links and the links of dense groups are KNOWN-FINDING classes.")
