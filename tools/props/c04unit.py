"""C04 / C05 / C10 / C16 unit-level tie: allocation trace and byte-wise frame observation.

run_unit(ctx) -> dict(violations=[...], evaluations=int, distinct=int, samples=[...])

Random multi-object histories (2-6 objects; creations of every kind the write API offers -- symbol-table groups,
CreateDenseGroup / CreateGroupWithLinks (0, 1..8, more than 8 links), contiguous / chunked / filtered datasets of
numeric, string, compound, array, enum, opaque, reference and variable-length types --, writes (variable-length data
goes through global heap collections), attributes up to the header-full and dense-transition points, hard / soft /
external links, resize, failing calls, close / reopen), and "grow with a neighbour" histories (an object of each
kind, a neighbour allocated right behind it, then header growth by hard links / attributes) are replayed by
the harness subcommand `c04unit`, which reports after every call the allocator state of the low-level
writer, the physical file size and the byte ranges that changed in the file.

Gating checks, made ON THE GO OUTPUT ONLY (ownership map reconstructed from the allocation trace and the
operation sequence):
  (a) allocator blocks are pairwise disjoint - also across sessions - non-empty and within the end of file;
  (b) every changed byte range lies inside a block allocated for the targeted object, inside the heap /
      symbol-node block of the parent group (creations, links), or inside a block allocated by this call;
      for a call that returned an error: inside blocks allocated by this call only (hard link: or inside
      the target's header block).  A variable-length write may also rewrite the global heap collection that was
      current when it started (roll-over flush).  Close / reopen: nothing but the first 48 bytes (the superblock's
      end-of-file field and checksum, rewritten by Close when the allocator moved) and the current global heap
      collection (lazy flush: must end inside the block allocated for it).  (frame property, byte-wise)
  (c) after Close the file size is at least the allocator's end of file, and the allocator of the next
      session does not start below it.
Fidelity diagnostics (NOT violations; reported in `samples`): ok/err, end of file, file size, sequence of
allocated blocks and changed ranges versus the prediction of the Coq model Model/Store.v (`trace`).
"""
import os, re, sys
sys.path.insert(0, os.path.dirname(os.path.dirname(os.path.abspath(__file__))))
import vlib
import histgen
from histlib import esize_of

NO_OBJ = 4294967295
ESZ = {"int8": 1, "uint8": 1, "int16": 2, "uint16": 2, "int32": 4, "uint32": 4, "int64": 8, "uint64": 8,
       "float32": 4, "float64": 8}
LDT = dict({k: 12 for k in ESZ}, float32=20, float64=20, string=9)
KSZ = {"i8": 1, "i16": 2, "i32": 4, "i64": 8, "u8": 1, "u16": 2, "u32": 4, "u64": 8, "f32": 4, "f64": 8,
       "[]i32": 4, "[]i64": 8, "[]f32": 4, "[]f64": 8}
KDT = {"f32": 20, "f64": 20, "[]f32": 20, "[]f64": 20, "str": 9}
UNLIMITED = 0xFFFFFFFFFFFFFFFF


def hx(s):
    return s.encode("utf-8").hex()


def prod(xs):
    p = 1
    for x in xs:
        p *= x
    return p


def attr_len(name, kind, raw):
    """length of the attribute message (EncodeAttributeMessage: 9 + name+NUL + datatype + dataspace + data)"""
    nl = len(name.encode()) + 1
    if kind == "str":
        return 9 + nl + 9 + 16 + len(raw) + 1
    return 9 + nl + KDT.get(kind, 12) + 16 + len(raw)


# --------------------------------------------------------------------------- planner (mirror of the model's bookkeeping)

class Plan:
    """Generates one history; keeps the bookkeeping the Coq model keeps, to choose arguments
    (existing / new attribute, duplicate name, header nearly full ...) and to emit the Coq op terms."""

    def __init__(self, rng, sb, pre=False, ai=False):
        self.rng, self.sb, self.pre, self.ai = rng, sb, pre, ai
        self.ops, self.coq = [], []
        self.objs = {0: dict(kind="group", msgs=[[17, 16]], nent=0, hused=0, nrec=0, attrs=[], children={})}
        self.paths = {"/": 0}
        self.handles = set()      # paths for which the creating session holds a handle
        self.nlinks = {0: 1}      # oid -> number of hard links
        self.canon = {}           # reopened session: oid -> the one path used for it (one handle per object)
        self.session, self.closed = 0, False

    # ---- helpers
    def chunk(self, m):
        return sum(4 + l for _, l in m)

    def emit(self, op, coq):
        self.ops.append(op)
        self.coq.append(coq)

    def no_handle(self, path):
        # in the creating session only the creating call returns a handle (a hard-link alias has none);
        # after OpenForWrite every dataset path can be opened with OpenDataset, groups cannot
        return self.session == 0 and path not in self.handles

    def usable(self, path):
        """False for paths this generator avoids: a second handle on an object within one reopened session
        (each OpenDataset handle caches the header: C10 'stale cache'), and paths below a group that has more
        than one hard link (the reader's walk lists such a subtree under one of the names only)."""
        x = self.paths.get(path)
        if x is None:
            return True
        if self.session > 0:
            if self.canon.setdefault(x, path) != path:
                return False
            par = path
            while True:
                par = par[:par.rfind("/")] or "/"
                if par == "/":
                    break
                if self.nlinks.get(self.paths.get(par), 1) > 1:
                    return False
        return True

    def oid_next(self):
        return len(self.ops) + 1

    def split(self, path):
        i = path.rfind("/")
        return (path[:i] or "/"), path[i + 1:]

    def parent_known(self, p):
        return p == 0 or (self.session == 0 and p in self.objs and self.objs[p]["kind"] == "group")

    def link(self, p, name):
        """mirror of link_to_parent: returns True when the entry is added"""
        if self.session != 0 or p not in self.objs or self.objs[p]["kind"] != "group":
            return False
        g = self.objs[p]
        nl = len(name.encode())
        if name in g["children"] or g["hused"] + nl + 1 > 256 or g["nent"] >= 32:
            return False
        return True

    def do_link(self, p, name, oid):
        g = self.objs[p]
        g["children"][name] = oid
        g["nent"] += 1
        g["hused"] += len(name.encode()) + 1

    def cb(self, b):
        return "true" if b else "false"

    # ---- creations
    def create(self, kind, path, **kw):
        rng = self.rng
        parent, name = self.split(path)
        p = self.paths.get(parent, NO_OBJ)
        x = self.oid_next()
        nl = len(name.encode())
        dup = p in self.objs and self.objs[p]["kind"] == "group" and name in self.objs[p]["children"]
        if kind == "group":
            op = {"op": "mkgroup", "path": path}
            coq = "OpMkGroup %d %d %s" % (p, nl, self.cb(dup))
            pre_ok = not self.closed and self.parent_known(p)
            nb = dict(kind="group", msgs=[[17, 16]], nent=0, hused=0, nrec=0, attrs=[], children={})
        elif kind == "contig":
            dt, dims, spec = kw["dtype"], kw["dims"], kw.get("spec")
            if spec:        # extended kind (compound, array, enum, opaque, reference, variable-length): see probe_specs
                op = dict({"op": spec["opname"], "path": path, "dims": dims}, **spec["fields"])
                esz, ldt, dt = spec["esz"], spec["ldt"], spec["dtype"]
            else:
                esz = kw.get("strsize") if dt == "string" else ESZ[dt]
                ldt = LDT[dt]
                op = {"op": "mkds", "path": path, "dtype": dt, "dims": dims}
                if dt == "string":
                    op["strsize"] = esz
            dsize = prod(dims) * esz
            coq = "OpMkContig %d %d %s %d %d %d" % (p, nl, self.cb(dup), ldt, len(dims), dsize)
            pre_ok = not self.closed
            nb = dict(kind="contig", msgs=[[3, ldt], [1, 8 + 8 * len(dims)], [8, 18]], nrec=0, attrs=[], dtype=dt,
                      dims=list(dims), esz=esz, ext=bool(spec))
        elif kind == "chunked":
            dt, dims, ch, md, spec = kw["dtype"], kw["dims"], kw["chunk"], kw.get("maxdims"), kw.get("spec")
            lpipe, filters = 0, None
            if spec:        # extended kind and / or filter pipeline
                op = dict({"op": "mkds", "path": path, "dims": dims, "chunk": ch}, **spec["fields"])
                esz, ldt, dt = spec["esz"], spec["ldt"], spec["dtype"]
                if spec.get("filters"):
                    filters, lpipe = spec["filters"], spec["lpipe"]
                    op["filters"] = filters
            else:
                esz, ldt = ESZ[dt], LDT[dt]
                op = {"op": "mkds", "path": path, "dtype": dt, "dims": dims, "chunk": ch}
            if md:
                op["maxdims"] = md
            r = len(dims)
            coq = "OpMkChunked %d %d %s %d %d %s %d" % (p, nl, self.cb(dup), ldt, r, self.cb(bool(md)), lpipe)
            pre_ok = not self.closed
            nb = dict(kind="chunked", msgs=[[3, ldt], [1, 8 + 8 * r + (8 * r if md else 0)], [8, 11 + 4 * r]] + ([[11, lpipe]] if lpipe else []),
                      nrec=0, attrs=[], dtype=dt, dims=list(dims), chunk=list(ch), maxdims=md, esz=esz, ext=bool(spec), filters=filters)
        else:  # soft / external link object
            tgt = kw["target"]
            if kind == "soft":
                op = {"op": "softlink", "path": path, "target": tgt}
                mlen = 5 + nl + 2 + len(tgt.encode())
            else:
                op = {"op": "extlink", "path": path, "file": kw["file"], "target": tgt}
                mlen = 5 + nl + 3 + len(kw["file"].encode()) + 1 + len(tgt.encode())
            coq = "OpMkLink %d %d %s %d" % (p, nl, self.cb(dup), mlen)
            pre_ok = not self.closed and self.parent_known(p)
            nb = dict(kind="link", msgs=[[6, mlen]], nrec=0, attrs=[])
        self.emit(op, coq)
        if pre_ok and self.chunk(nb["msgs"]) <= 255 and self.link(p, name):
            self.objs[x] = nb
            self.paths[path] = x
            self.nlinks[x] = 1
            self.handles.add(path)
            self.do_link(p, name, x)
            return x
        return None

    # ---- groups created together with their links
    def resolvable(self, target):
        """mirror of resolveObjectAddress: the target is an entry of the root group or of a group made by CreateGroup"""
        if self.session != 0 or target not in self.paths:
            return False
        par, _ = self.split(target)
        pp = self.paths.get(par)
        return pp == 0 or (pp in self.objs and self.objs[pp]["kind"] == "group")

    def mkdense(self, path, links, opname="mkdense"):
        """CreateDenseGroup, or CreateGroupWithLinks (0 links: CreateGroup without a handle; 1..8: refused; more: dense)"""
        op = {"op": opname, "path": path, "links": links}
        parent, name = self.split(path)
        p = self.paths.get(parent, NO_OBJ)
        x = self.oid_next()
        nl = len(name.encode())
        dup = p in self.objs and self.objs[p]["kind"] == "group" and name in self.objs[p]["children"]
        if opname == "mkgrouplinks" and len(links) <= 8:
            if links:
                self.emit(op, "OpReject")
                return None
            self.emit(op, "OpMkGroup %d %d %s" % (p, nl, self.cb(dup)))
            if not self.closed and self.parent_known(p) and self.link(p, name):
                self.objs[x] = dict(kind="group", msgs=[[17, 16]], nent=0, hused=0, nrec=0, attrs=[], children={})
                self.paths[path] = x
                self.nlinks[x] = 1
                self.do_link(p, name, x)        # no GroupWriter is returned: no handle
                return x
            return None
        fit = all(self.resolvable(t) for t in links.values())
        self.emit(op, "OpMkDense %d %d %s %d %s" % (p, nl, self.cb(dup), len(links), self.cb(fit)))
        if links and fit and self.session == 0 and not self.closed and self.parent_known(p) and self.link(p, name):
            self.objs[x] = dict(kind="dense", msgs=[[2, 18], [1, 8]], nrec=0, attrs=[])
            self.paths[path] = x
            self.nlinks[x] = 1
            self.do_link(p, name, x)
            return x
        return None

    # ---- data
    def nchunks(self, o):
        return prod([(d + c - 1) // c for d, c in zip(o["dims"], o["chunk"])])

    def write(self, path, bad=False):
        rng = self.rng
        x = self.paths.get(path)
        o = self.objs.get(x)
        if o is None or o["kind"] not in ("contig", "chunked"):
            return
        if self.no_handle(path):
            bad = True
        if str(o.get("dtype", "")).startswith("vlen:"):
            return self.write_vlen(path, x, o, bad)
        n = prod(o["dims"]) * o["esz"]
        if bad:
            n += o["esz"]
        if o.get("dtype") == "string":
            val = b"".join(bytes(rng.randint(1, 255) for _ in range(o["esz"])) + b"\x00" for _ in range(prod(o["dims"]) + (1 if bad else 0)))
            if bad:
                self.emit({"op": "write", "path": path, "val": val.hex(), "dtype": "string"}, "OpReject")
                return
        else:
            val = bytes(rng.randint(1, 255) for _ in range(n))
        op = {"op": "write", "path": path, "val": val.hex(), "dtype": o.get("dtype")}
        if o.get("ext"):
            op.pop("dtype")
        if o.get("dtype") != "string":
            op["raw"] = True
        if bad:
            self.emit(op, "OpReject")
        elif o["kind"] == "contig":
            self.emit(op, "OpWrite %d []" % x)
        else:
            csz = prod(o["chunk"]) * o["esz"]
            sizes = ";".join(str(csz) for _ in range(self.nchunks(o)))
            if o.get("filters"):
                # the stored length of a filtered chunk is a parameter of the history (C08): taken from the blocks the
                # implementation allocated (fill_stored_sizes); the unfiltered length is the fall-back
                self.emit(op, "OpWrite %d [{CH:%d:%d:%s}]" % (x, len(self.ops), self.nchunks(o), sizes))
            else:
                self.emit(op, "OpWrite %d [%s]" % (x, sizes))

    def write_vlen(self, path, x, o, bad):
        rng = self.rng
        base = o["dtype"][5:]
        w = 1 if base == "string" else ESZ[base]
        n = prod(o["dims"]) + (1 if bad else 0)
        vals = []
        for _ in range(n):
            ln = rng.choice([0, 1, 2, 3, 7, 8, 9, rng.randint(0, 30)] + ([rng.choice([700, 1500, 3000, 5000])] if rng.random() < 0.25 else []))
            if base != "string":
                ln = ln // w
            vals.append(bytes(rng.randint(1, 255) for _ in range(ln * w)))
        op = {"op": "write", "path": path, "dtype": o["dtype"], "vals": [v.hex() for v in vals]}
        if bad:
            self.emit(op, "OpReject")
            return
        lens = ";".join(str(len(v)) for v in vals)
        if o["kind"] == "contig":
            self.emit(op, "OpWriteVL %d [%s] []" % (x, lens))
        else:
            csz = prod(o["chunk"]) * 16
            sizes = ";".join(str(csz) for _ in range(self.nchunks(o)))
            if o.get("filters"):
                sizes = "{CH:%d:%d:%s}" % (len(self.ops), self.nchunks(o), sizes)
            self.emit(op, "OpWriteVL %d [%s] [%s]" % (x, lens, sizes))

    def resize(self, path):
        x = self.paths.get(path)
        o = self.objs.get(x)
        if o is None or o["kind"] != "chunked" or not o.get("maxdims") or self.no_handle(path):
            return
        nd = []
        for d, m in zip(o["dims"], o["maxdims"]):
            hi = d + 3 if m == UNLIMITED else m
            nd.append(self.rng.randint(max(1, d - 2), max(1, hi)))
        self.emit({"op": "resize", "path": path, "dims": nd}, "OpResize %d" % x if self.session == 0 else "OpReject")
        if self.session == 0 and not self.closed:
            o["dims"] = nd

    # ---- attributes
    def setattr(self, path, name, kind, raw):
        x = self.paths.get(path)
        o = self.objs.get(x)
        op = {"op": "setattr", "path": path, "name": hx(name), "kind": kind, "val": raw.hex()}
        if o is None or o["kind"] in ("link", "dense") or (o["kind"] == "group" and self.session != 0) or self.no_handle(path):
            self.emit(op, "OpReject")     # no handle can be obtained for it
            return
        alen = attr_len(name, kind, raw)
        exists = name in o["attrs"]
        idx = o["attrs"].index(name) if exists else None
        self.emit(op, "OpAttrSet %d %s %d true" % (x, "(Some %d%%nat)" % idx if exists else "None", alen))
        if self.closed:
            return
        m = o["msgs"]
        dense = any(t == 21 for t, _ in m)
        if dense:
            if not exists:
                if o["nrec"] < 371:
                    o["attrs"].append(name)
                    o["nrec"] += 1
            return
        nattr = sum(1 for t, _ in m if t == 12)
        def transition():
            rest = [e for e in m if e[0] != 12]
            if self.chunk(rest) + 22 <= 255:
                o["msgs"] = rest + [[21, 18]]
                o["attrs"].append(name)
                o["nrec"] = nattr + 1
        if nattr < 8:
            if exists:
                k = [i for i, e in enumerate(m) if e[0] == 12][idx]
                m2 = [list(e) for e in m]
                m2[k][1] = alen
                if self.chunk(m2) <= 255:
                    o["msgs"] = m2
            else:
                if self.chunk(m) + 4 + alen > 255:
                    transition()
                else:
                    m.append([12, alen])
                    o["attrs"].append(name)
        elif not exists:
            transition()

    def delattr(self, path, name):
        x = self.paths.get(path)
        o = self.objs.get(x)
        op = {"op": "delattr", "path": path, "name": hx(name)}
        if o is None or o["kind"] in ("link", "group", "dense") or self.no_handle(path):
            self.emit(op, "OpReject")
            return
        exists = name in o["attrs"]
        idx = o["attrs"].index(name) if exists else None
        self.emit(op, "OpAttrDel %d %s" % (x, "(Some %d%%nat)" % idx if exists else "None"))
        if self.closed or not exists:
            return
        m = o["msgs"]
        if any(t == 21 for t, _ in m):
            if o["nrec"] > 0:
                o["nrec"] -= 1
                o["attrs"].remove(name)
        else:
            k = [i for i, e in enumerate(m) if e[0] == 12][idx]
            del m[k]
            o["attrs"].remove(name)

    # ---- links
    def reaches(self, a, b):
        """group a reaches object b through links (a == b included)"""
        seen, todo = set(), [a]
        while todo:
            x = todo.pop()
            if x == b:
                return True
            if x in seen:
                continue
            seen.add(x)
            o = self.objs.get(x)
            if o and o["kind"] == "group":
                todo.extend(o["children"].values())
        return False

    def hardlink(self, path, target):
        parent, name = self.split(path)
        p = self.paths.get(parent, NO_OBJ)
        t = self.paths.get(target, NO_OBJ) if target != "/" else NO_OBJ
        if t in self.objs and p in self.objs and self.reaches(t, p) and self.rng.random() < 0.5:
            return      # hard-link cycles (legal HDF5; Open lists the closing link without descending since 8c0b97a): kept rarer
        nl = len(name.encode())
        dup = p in self.objs and self.objs[p]["kind"] == "group" and name in self.objs[p]["children"]
        op = {"op": "hardlink", "path": path, "target": target}
        if target == "/" or path == "/":
            self.emit(op, "OpReject")
            return
        self.emit(op, "OpHardLink %d %d %s %d" % (p, nl, self.cb(dup), t))
        if self.closed or not self.parent_known(p) or self.session != 0 or t not in self.objs:
            return
        o = self.objs[t]
        m = o["msgs"]
        if self.pre and not self.link(p, name):
            return                      # checkLinkable refuses before the reference count is touched
        if not any(ty == 22 for ty, _ in m):
            if self.chunk(m) + 8 > 255:
                return
            m.append([22, 4])
        if self.link(p, name):
            self.do_link(p, name, t)
            self.paths[path] = t
            self.nlinks[t] = self.nlinks.get(t, 1) + 1

    def close(self):
        self.emit({"op": "close"}, "OpClose")
        self.closed = True

    def reopen(self):
        self.emit({"op": "reopen"}, "OpReopen")
        self.closed = False
        self.session += 1
        self.canon = {}


ATTR_NAMES = ["u", "v", "w", "scale", "units", "a_rather_long_attribute_name", "k1", "k2", "k3", "k4", "k5", "k6"]


def rand_attr(rng, big=0.15):
    k = rng.choice(list(KSZ) + ["str", "str"])
    if k == "str":
        ln = rng.choice([0, 1, 5, 12, 30] + ([90, 150, 200] if rng.random() < big else []))
        return k, bytes(rng.randint(1, 255) for _ in range(ln))
    if k.startswith("[]"):
        n = rng.choice([1, 2, 3, 6] + ([20, 28] if rng.random() < big else []))
        return k, bytes(rng.randint(1, 255) for _ in range(n * KSZ[k]))
    return k, bytes(rng.randint(1, 255) for _ in range(KSZ[k]))


def probe_specs(ctx, rng, n=36):
    """A pool of dataset type specifications of the extended kinds (and of filter pipelines), each with the length of its
    datatype / filter pipeline message as the implementation encodes it (one tiny creation per specification; the byte
    contents of these messages are C11's and C08's subject, their length is a parameter of the store model)."""
    raw = []
    for _ in range(n):
        r = rng.random()
        if r < 0.2:
            comp = histgen.rand_compound(rng)
            raw.append(dict(opname="mkcompound", fields=dict(comp), dtype="compound", esz=comp["csize"], filters=None))
            continue
        if r < 0.4:
            dt = rng.choice(list(ESZ))
            f = {"dtype": dt}
        else:
            f = histgen.rand_ext_kind(rng)
        esz = esize_of(f["dtype"], f.get("strsize", 0), f.get("adims"), 0)
        filters = None
        if r < 0.4 or rng.random() < 0.25:
            filters = rng.choice([["gzip:6"], ["shuffle", "gzip:1"], ["fletcher32"], ["gzip:9", "fletcher32"], ["shuffle"]])
        raw.append(dict(opname="mkds", fields=f, dtype=f["dtype"], esz=esz, filters=filters))
    cases = []
    for sp in raw:
        op = dict({"op": sp["opname"], "path": "/p", "dims": [4]}, **sp["fields"])
        if sp["filters"]:
            op.update(chunk=[2], filters=sp["filters"])
        cases.append(dict(sb=2, ops=[op], dir=vlib.scratch()))
    out = []
    for sp, r in zip(raw, vlib.run_harness_parallel(ctx.harness, "c04unit", cases)):
        st = (r.get("steps") or [None, None])[1] if len(r.get("steps") or []) > 1 else None
        if not st or not st["res"].get("ok") or not st.get("hdr") or not sp["esz"]:
            continue
        h = {t: l for t, l in st["hdr"]}
        if 3 not in h:
            continue
        sp["ldt"] = h[3]
        sp["lpipe"] = h.get(11, 0)
        if sp["filters"] and not sp["lpipe"]:
            sp["filters"] = None
        out.append(sp)
    return out


def pick_spec(rng, pool, want=None):
    c = [sp for sp in pool if want is None or want(sp)]
    return rng.choice(c) if c else None


def gen_history(rng, pre=False, ai=False, pool=()):
    sb = rng.choice([0, 2, 2, 3])
    P = Plan(rng, sb, pre, ai)
    nobj = rng.randint(2, 6)
    groups, dsets, links = ["/"], [], []
    names = ["a", "b", "c", "d", "e", "g", "x", "y", "data", "a_long_object_name_%d"]
    created = 0

    def newpath():
        par = rng.choice(groups)
        nm = rng.choice(names)
        if "%d" in nm:
            nm = nm % rng.randint(0, 9)
        return par.rstrip("/") + "/" + nm

    def create_one():
        nonlocal created
        r = rng.random()
        path = newpath()
        ext = pool and rng.random() < 0.4
        if r < 0.18:
            if P.create("group", path) is not None:
                groups.append(path)
        elif r < 0.25:
            # a group created together with its links (dense format), or through CreateGroupWithLinks
            tg = [d for d in dsets if P.paths.get(d) is not None] + (["/missing"] if rng.random() < 0.1 else [])
            k = rng.choice([0, 1, 1, 2, 3, 9, 12])
            lk = {"k%d" % i: rng.choice(tg) for i in range(k)} if tg else {}
            x = P.mkdense(path, lk, rng.choice(["mkdense", "mkdense", "mkgrouplinks"]))
            if x is not None:
                if P.objs[x]["kind"] == "group":
                    groups.append(path)
                else:
                    links.append(path)      # usable as a hard-link target only
        elif r < 0.6 and ext:
            sp = pick_spec(rng, pool)
            dims = rng.choice([[3], [4], [2, 3], [1]])
            if sp["opname"] == "mkcompound" or (not sp["filters"] and rng.random() < 0.6):
                if P.create("contig", path, dtype=sp["dtype"], dims=dims, spec=dict(sp, filters=None)) is not None:
                    dsets.append(path)
            else:
                ch = [max(1, min(d, rng.choice([1, 2, d]))) for d in dims]
                md = None
                if rng.random() < 0.3 and not sp["dtype"].startswith("vlen:"):
                    md = [rng.choice([UNLIMITED, d, d + 4]) for d in dims]
                if P.create("chunked", path, dtype=sp["dtype"], dims=dims, chunk=ch, maxdims=md, spec=sp) is not None:
                    dsets.append(path)
        elif r < 0.6:
            dt = rng.choice(list(ESZ) + ["string"])
            dims = rng.choice([[3], [7], [2, 3], [4, 5], [2, 2, 2], [1]])
            kw = dict(dtype=dt, dims=dims)
            if dt == "string":
                kw["strsize"] = rng.choice([1, 4, 9])
            if P.create("contig", path, **kw) is not None:
                dsets.append(path)
        elif r < 0.9:
            dt = rng.choice(list(ESZ))
            dims = rng.choice([[7], [4, 6], [5, 5], [3, 2, 4], [9]])
            ch = [max(1, min(d, rng.choice([1, 2, 3, d]))) for d in dims]
            md = None
            if rng.random() < 0.4:
                md = [rng.choice([UNLIMITED, d, d + 4]) for d in dims]
            if rng.random() < 0.06:
                # header with no room for the attribute info message (243 of 255 bytes used)
                dims, ch, md = [1] * 10, [1] * 10, [rng.choice([1, 3, UNLIMITED]) for _ in range(10)]
            if P.create("chunked", path, dtype=dt, dims=dims, chunk=ch, maxdims=md) is not None:
                dsets.append(path)
        else:
            tgt = rng.choice(dsets + groups[1:] + ["/nowhere"])
            if rng.random() < 0.6:
                ok = P.create("soft", path + "_s", target=tgt)
            else:
                ok = P.create("ext", path + "_e", file=rng.choice(["o.h5", "other_file.h5"]), target=tgt)
            if ok is not None:
                links.append(path + ("_s" if path + "_s" in P.paths else "_e"))
        created += 1

    create_one()
    create_one()
    nops = rng.randint(10, 34)
    sessions_left = rng.choice([0, 0, 1, 1, 2])
    burst = None
    while len(P.ops) < nops:
        r = rng.random()
        everything = dsets + groups[1:]
        if burst:
            path, k = burst
            nm = "b%02d" % k
            kind, raw = rand_attr(rng, big=0.05)
            P.setattr(path, nm, kind, raw)
            burst = (path, k - 1) if k > 1 else None
            continue
        if r < 0.16 and created < nobj:
            create_one()
        elif r < 0.30 and dsets:
            path = rng.choice(dsets)
            if P.usable(path):
                P.write(path)
        elif r < 0.62 and everything:
            path = rng.choice(everything)
            if not P.usable(path):
                continue
            if rng.random() < 0.12:
                burst = (path, rng.randint(7, 11))
                continue
            kind, raw = rand_attr(rng)
            P.setattr(path, rng.choice(ATTR_NAMES), kind, raw)
        elif r < 0.70 and dsets:
            path = rng.choice(dsets)
            if not P.usable(path):
                continue
            o = P.objs.get(P.paths.get(path))
            nm = rng.choice(o["attrs"]) if o and o["attrs"] and rng.random() < 0.8 else rng.choice(ATTR_NAMES)
            P.delattr(path, nm)
        elif r < 0.80 and (dsets or links or len(groups) > 1):
            tgt = rng.choice(dsets + links + groups[1:])
            lp = newpath() + "_l"
            P.hardlink(lp, tgt)
            if lp in P.paths and P.objs[P.paths[lp]]["kind"] in ("contig", "chunked"):
                dsets.append(lp)
        elif r < 0.84 and dsets:
            path = rng.choice(dsets)
            if P.usable(path):
                P.resize(path)
        elif r < 0.93:
            # calls chosen to fail
            k = rng.choice(["dup", "noparent", "badsize", "delabsent", "linknotarget", "dupgroup"])
            if k == "dup" and everything:
                P.create("contig", rng.choice(everything), dtype="int32", dims=[2])
            elif k == "dupgroup" and everything:
                P.create("group", rng.choice(everything))
            elif k == "noparent":
                if rng.random() < 0.5:
                    P.create("contig", "/nope/d", dtype="float64", dims=[3])
                else:
                    P.create("group", "/nope/g")
            elif k == "badsize" and dsets:
                path = rng.choice(dsets)
                if P.usable(path):
                    P.write(path, bad=True)
            elif k == "delabsent" and dsets:
                path = rng.choice(dsets)
                if P.usable(path):
                    P.delattr(path, "never_written")
            elif k == "linknotarget":
                P.hardlink("/l%d" % rng.randint(0, 9), "/does_not_exist")
        elif sessions_left > 0 and len(P.ops) > 4:
            sessions_left -= 1
            if rng.random() < 0.5:
                P.close()
            P.reopen()
            # groups have no handle after reopen; creations fail after allocating
    if rng.random() < 0.7:
        P.close()
        if rng.random() < 0.3:
            P.close()
    return dict(sb=sb, ops=P.ops, coq=P.coq)


def gen_neighbour(rng, pre=False, ai=False, pool=()):
    """Grow with a neighbour (cf. histgen.gen_grow_with_neighbour): an object X of each kind in turn, a neighbour Y allocated
    right behind it, then X's object header grows in the same session (first hard link: reference-count message; attributes up
    to the dense transition).  Every changed byte must stay inside X's blocks.  This is the pattern by which the exact-size
    header of CreateDenseGroup (/repo before 18bfe7a) overwrote its neighbour."""
    P = Plan(rng, rng.choice([0, 2, 2, 3]), pre, ai)

    def mk(path, kind):
        dims = [rng.choice([1, 2, 3, 4])]
        x = None
        if kind == "plain":
            x = P.create("contig", path, dtype=rng.choice(list(ESZ)), dims=dims)
        elif kind == "string":
            x = P.create("contig", path, dtype="string", dims=dims, strsize=4)
        elif kind == "chunked":
            x = P.create("chunked", path, dtype=rng.choice(list(ESZ)), dims=dims, chunk=[1])
        elif kind == "group":
            x = P.create("group", path)
        elif kind == "soft":
            x = P.create("soft", path, target="/d0")
        elif kind == "dense":
            x = P.mkdense(path, {"l%d" % i: "/d0" for i in range(rng.choice([1, 1, 2]))})
        elif kind == "glinks":
            x = P.mkdense(path, {"m%d" % i: "/d0" for i in range(rng.choice([0, 9, 12]))}, "mkgrouplinks")
        else:   # a kind of the pool: compound, array, enum, opaque, objref, regref, vlen, filtered
            sp = pick_spec(rng, pool, lambda q: q["dtype"].split(":")[0] == kind or (kind == "filtered" and q["filters"]))
            if sp is None:
                return mk(path, "plain")
            if kind == "filtered" or (sp["filters"] and rng.random() < 0.5):
                x = P.create("chunked", path, dtype=sp["dtype"], dims=dims, chunk=[rng.choice([1, dims[0]])], spec=sp)
            else:
                x = P.create("contig", path, dtype=sp["dtype"], dims=dims, spec=dict(sp, filters=None))
        if x is not None and P.objs[x]["kind"] in ("contig", "chunked") and rng.random() < 0.9:
            P.write(path)
        return x

    mk("/d0", rng.choice(["plain", "chunked"]))
    kind = rng.choice(["plain", "string", "chunked", "compound", "array", "enum", "opaque", "objref", "regref", "vlen", "filtered",
                       "group", "glinks", "soft", "dense", "dense", "dense"])
    mk("/x", kind)
    if rng.random() < 0.3:
        mk("/yg", "group")
    mk("/y", rng.choice(["plain", "plain", "string", "chunked", "vlen"]))
    grow = rng.choice(["link", "link", "attrs", "both"])
    if grow in ("link", "both"):
        P.hardlink("/xl", "/x")
        if rng.random() < 0.3:
            P.hardlink("/xl2", "/x")
    if grow in ("attrs", "both"):
        for j in range(rng.choice([1, 3, 9, 12])):
            k, v = rand_attr(rng)
            P.setattr("/x", "a%02d" % j, k, v)
    if rng.random() < 0.5:
        mk("/z", rng.choice(["plain", "group", "vlen"]))
    if rng.random() < 0.4 and "/y" in P.paths:
        P.write("/y")
    if rng.random() < 0.6:
        P.close()
    return dict(sb=P.sb, ops=P.ops, coq=P.coq)


def fill_stored_sizes(case, steps):
    """{CH:i:n:fallback}: stored sizes of the n chunks written by operation i = the blocks the implementation allocated for
    them (the n blocks before the last one, the chunk index), when the call succeeded"""
    def sub(m):
        i, n, fb = int(m.group(1)), int(m.group(2)), m.group(3)
        stp = steps[i + 1] if i + 1 < len(steps) else None
        if stp and stp["res"].get("ok") and len(stp["newblocks"]) >= n + 1:      # (global heap collections come first)
            return ";".join(str(b[1]) for b in stp["newblocks"][-(n + 1):-1])
        return fb
    case["coq"] = [re.sub(r"\{CH:(\d+):(\d+):([0-9;]*)\}", sub, c) for c in case["coq"]]


# --------------------------------------------------------------------------- checks on the Go output

def merge(iv):
    iv = sorted((a, a + n) for a, n in iv if n > 0)
    out = []
    for a, b in iv:
        if out and a <= out[-1][1]:
            out[-1][1] = max(out[-1][1], b)
        else:
            out.append([a, b])
    return out


def inside(run, merged):
    a, b = run[0], run[0] + run[1]
    return any(lo <= a and b <= hi for lo, hi in merged)


def check_go(case, steps):
    """returns list of violation dicts (what, step index, details) for one history"""
    sb, ops = case["sb"], case["ops"]
    sbsize = 96 if sb == 0 else 48
    viol = []
    path_oid = {"/": 0}
    allb = {0: []}          # oid -> blocks
    hdr = {}                # oid -> header block
    hs = {}                 # group oid -> [heap block, symbol node block]
    st0 = steps[0]
    maxend = sbsize
    gcur = None             # block of the global heap collection being filled (one heap writer per session)
    nchunks_of = {}         # oid of a chunked dataset -> number of chunks
    def add_blocks(i, new, eof):
        nonlocal maxend
        for off, size in new:
            if size == 0:
                viol.append(dict(what="(a) zero-size allocator block", step=i, block=[off, size]))
            if off < maxend:
                viol.append(dict(what="(a) allocator block [%d,%d) overlaps space handed out earlier (up to %d)" % (off, off + size, maxend),
                                 step=i, block=[off, size]))
            if off + size > eof:
                viol.append(dict(what="(a) allocator block ends beyond the allocator's end of file", step=i, block=[off, size], eof=eof))
            maxend = max(maxend, off + size)
    if not st0["res"].get("ok"):
        return [dict(what="CreateForWrite failed: %r" % (st0["res"],), step=-1)]
    add_blocks(-1, st0["newblocks"], st0["eof"])
    if sb == 0:
        hs[0] = [[1480, 288], [192, 1288]]
    elif len(st0["newblocks"]) >= 2:
        hs[0] = [st0["newblocks"][0], st0["newblocks"][1]]
    allb[0] = list(st0["newblocks"])
    if st0.get("overlap"):
        viol.append(dict(what="(a) Allocator.ValidateNoOverlaps: " + st0["overlap"], step=-1))
    prev_eof = st0["eof"]
    for i, (op, stp) in enumerate(zip(ops, steps[1:])):
        k = op["op"]
        new = stp["newblocks"]
        ok = bool(stp["res"].get("ok"))
        if stp["res"].get("panic"):
            viol.append(dict(what="panic in %s: %s" % (k, stp["res"]["panic"][:200]), step=i))
        if stp.get("overlap"):
            viol.append(dict(what="(a) Allocator.ValidateNoOverlaps: " + stp["overlap"], step=i))
        if stp.get("reset"):
            if stp["eof"] < prev_eof:
                viol.append(dict(what="(c) allocator of the new session starts at %d, below the previous end of file %d "
                                      "(allocated space is handed out again)" % (stp["eof"], prev_eof), step=i))
        add_blocks(i, new, stp["eof"])
        prev_eof = stp["eof"]
        allowed, allowed_fail = list(new), list(new)
        x = None
        vlen_write = k == "write" and op.get("vals") is not None
        if vlen_write and gcur:
            # the roll-over flush of the current collection comes first, also when the call fails later
            allowed.append(gcur)
            allowed_fail.append(gcur)
        if k in ("mkgroup", "mkds", "softlink", "extlink", "mkcompound", "mkdense", "mkgrouplinks"):
            x = i + 1
            allb[x] = list(new)
            par = op["path"][:op["path"].rfind("/")] or "/"
            p = path_oid.get(par)
            if p is not None and p in hs:
                allowed += hs[p]
            if ok:
                path_oid[op["path"]] = x
                if (k == "mkgroup" or (k == "mkgrouplinks" and not op.get("links"))) and len(new) >= 4:
                    hs[x] = [new[0], new[1]]
                    hdr[x] = new[3]
                elif k in ("mkds", "mkcompound", "mkdense", "mkgrouplinks"):
                    hdr[x] = new[-1] if new else None       # the object header is allocated last
                    if op.get("chunk"):
                        nchunks_of[x] = prod([(d + c - 1) // c for d, c in zip(op["dims"], op["chunk"])])
                elif new:
                    hdr[x] = new[0]
        elif k in ("write", "resize", "setattr", "delattr", "closeds"):
            x = path_oid.get(op["path"])
            if x is not None:
                allowed += allb.get(x, [])
                allb.setdefault(x, []).extend(new)
            if vlen_write and new:
                # collections first, then (chunked layout) the chunks and their index
                cols = new[:len(new) - (nchunks_of[x] + 1)] if (x in nchunks_of and ok) else new
                if cols:
                    gcur = cols[-1]
        elif k == "hardlink":
            t = path_oid.get(op["target"])
            par = op["path"][:op["path"].rfind("/")] or "/"
            p = path_oid.get(par)
            if t is not None and hdr.get(t):
                allowed.append(hdr[t])
                allowed_fail.append(hdr[t])
            if p is not None and p in hs:
                allowed += hs[p]
            if ok and t is not None:
                path_oid[op["path"]] = t
        if k in ("close", "reopen"):
            # Close may rewrite the end-of-file field (and checksum) of the superblock
            allowed = allowed_fail = [[0, 48]] + ([gcur] if gcur else [])   # and flushes the global heap
            if k == "reopen":
                gcur = None
        use = merge(allowed if ok else allowed_fail)
        for run in stp["changed"]:
            if not inside(run, use):
                viol.append(dict(
                    what="(b) %s%s on %s changed bytes [%d,%d) outside the blocks of its target%s" % (
                        k, "" if ok else " (which returned an error)", op.get("path") or "-", run[0], run[0] + run[1],
                        " / parent group / own allocations" if ok else "'s own allocations"),
                    step=i, changed=run, allowed=use[:12]))
                break
        if k == "close" and ok and stp["fsize"] < stp["eof"]:
            viol.append(dict(what="(c) after Close the file size %d is below the allocator's end of file %d" % (stp["fsize"], stp["eof"]), step=i))
    return viol


# --------------------------------------------------------------------------- model prediction

def repo_cfg():
    """which configuration of the model corresponds to the tree under test (syntactic facts, cf. DESIGN 4.4):
    link object headers reserved (0d24a11), link pre-check before allocating, attribute-info check before the
    dense storage is written"""
    def src(name):
        try:
            return open(os.path.join(vlib.REPO, name)).read()
        except OSError:
            return ""
    b = lambda v: "true" if v else "false"
    link = "linkAddr, err := fw.writer.Allocate(maxObjectHeaderV2Size)" in src("link_write.go")
    pre = link and "func (fw *FileWriter) checkLinkable(" in src("group_write.go")
    ai = link and bool(re.search(r"if objectHeaderSize > 7\+255 \{", src("attribute_write.go")))
    dense = "allocator.Allocate(allocSize)" in src("internal/writer/densegroup_writer.go")     # 18bfe7a
    if link and dense:
        return "(gcfg %s %s)" % (b(pre), b(ai))
    return "(mkCfg true %s true true %s %s %s)" % (b(link), b(pre), b(ai), b(dense))


def parse_trace(flat, nsteps):
    out, i = [], 0
    for _ in range(nsteps):
        ok, nxt, fs, nb = flat[i:i + 4]
        i += 4
        blocks = [[flat[i + 2 * j], flat[i + 2 * j + 1]] for j in range(nb)]
        i += 2 * nb
        nw = flat[i]
        i += 1
        wr = [[flat[i + 2 * j], flat[i + 2 * j + 1]] for j in range(nw)]
        i += 2 * nw
        out.append(dict(ok=bool(ok), eof=nxt, fsize=fs, blocks=blocks, writes=wr))
    if i != len(flat):
        raise RuntimeError("trace length mismatch")
    return out


def model_traces(cases, cfg):
    parts = ["From HV Require Import Base.Prelude Model.Store.\n"]
    for sb in (0, 2, 3):
        parts.append("Definition ti_%d := Eval vm_compute in init_trace %s %d.\nPrint ti_%d.\n" % (sb, cfg, sb, sb))
    for n, c in enumerate(cases):
        parts.append("Definition t_%d := Eval vm_compute in trace (init %s %d) [%s].\nPrint t_%d.\n" % (
            n, cfg, c["sb"], "; ".join(c["coq"]), n))
    out = vlib.coq_eval("".join(parts), "c04unit_cases")
    inits = {sb: parse_trace(vlib.parse_nlist(out, "ti_%d" % sb), 1)[0] for sb in (0, 2, 3)}
    res = []
    for n, c in enumerate(cases):
        res.append([inits[c["sb"]]] + parse_trace(vlib.parse_nlist(out, "t_%d" % n), len(c["ops"])))
    return res


def compare_model(case, steps, mt):
    """fidelity diagnostics for one history: first diverging step, or None"""
    for i, (g, m) in enumerate(zip(steps, mt)):
        name = "create" if i == 0 else case["ops"][i - 1]["op"]
        gok = bool(g["res"].get("ok"))
        d = []
        if gok != m["ok"]:
            d.append("ok go=%s model=%s (%s)" % (gok, m["ok"], g["res"].get("err", "")[:80]))
        if g["eof"] != m["eof"]:
            d.append("eof go=%d model=%d" % (g["eof"], m["eof"]))
        if g["fsize"] != m["fsize"]:
            d.append("fsize go=%d model=%d" % (g["fsize"], m["fsize"]))
        if [list(b) for b in g["newblocks"]] != m["blocks"]:
            d.append("blocks go=%s model=%s" % (g["newblocks"][:6], m["blocks"][:6]))
        mw = merge(m["writes"])
        for run in g["changed"]:
            if not inside(run, mw):
                d.append("changed range %s not in the model's write set %s" % (run, mw[:8]))
                break
        if d:
            return dict(step=i - 1, op=name, coq=(case["coq"][i - 1] if i else "init"), diff=d)
    return None


# --------------------------------------------------------------------------- driver

def run_unit(ctx, n=None):
    rng = ctx.rng
    if n is None:
        n = 140 if ctx.tier == "quick" else 2500
    cfg = repo_cfg()
    toks = cfg.strip("()").split()
    pre, ai = (toks[1] == "true", toks[2] == "true") if toks[0] == "gcfg" else (toks[5] == "true", toks[6] == "true")
    pool = probe_specs(ctx, rng, 36 if ctx.tier == "quick" else 120)
    nn = max(1, n // 3)
    cases = [gen_history(rng, pre, ai, pool) for _ in range(n - nn)] + [gen_neighbour(rng, pre, ai, pool) for _ in range(nn)]
    scratch = vlib.scratch()
    payload = [dict(sb=c["sb"], ops=c["ops"], dir=scratch) for c in cases]
    results = vlib.run_harness_parallel(ctx.harness, "c04unit", payload)
    violations, samples = [], []
    evaluations = 0
    sigs = set()
    opmix = {}
    nfail_calls = ndense = nreopen = 0
    ngcol = ndgroup = 0
    for c, r in zip(cases, results):
        if "steps" not in r:
            violations.append(dict(what="c04unit harness failed: %r" % (str(r)[:300],), case=dict(sb=c["sb"], ops=c["ops"])))
            continue
        steps = r["steps"]
        evaluations += len(steps)
        for op, s in zip([{"op": "create"}] + c["ops"], steps):
            ok = bool(s["res"].get("ok"))
            sigs.add((op["op"], ok, tuple(b[1] for b in s["newblocks"]), bool(s["changed"])))
            opmix[op["op"]] = opmix.get(op["op"], 0) + 1
            nfail_calls += (not ok)
            ndense += any(b[1] == 65536 for b in s["newblocks"])
            ndgroup += any(b[1] == 524288 for b in s["newblocks"])
            ngcol += sum(1 for b in s["newblocks"] if op.get("vals") is not None and b[1] % 4096 == 0)
            nreopen += bool(s.get("reset"))
        for v in check_go(c, steps):
            i = v.get("step", -1)
            v["case"] = dict(sb=c["sb"], ops=c["ops"][:i + 1] if i >= 0 else [])
            v["failing_input"] = v["case"]
            v["impl"] = steps[i + 1] if 0 <= i + 1 < len(steps) else None
            violations.append(v)
    # model prediction (diagnostics only)
    diverging = 0
    try:
        good = [(c, r["steps"]) for c, r in zip(cases, results) if "steps" in r]
        for c, steps in good:
            fill_stored_sizes(c, steps)
        mts = model_traces([c for c, _ in good], cfg)
        for (c, steps), mt in zip(good, mts):
            d = compare_model(c, steps, mt)
            if d:
                diverging += 1
                if len(samples) < 6:
                    samples.append(dict(kind="fidelity-divergence (not a violation)", sb=c["sb"], first=d,
                                        ops=c["ops"][:d["step"] + 1][-4:]))
        model_note = "model configuration %s; %d of %d histories diverge from the model's allocation/write trace" % (cfg, diverging, len(good))
    except Exception as e:   # the model evaluation is a diagnostic; its failure is reported, not gated here
        model_note = "model evaluation failed: %r" % (e,)
        samples.append(dict(kind="model-evaluation-failed", error=str(e)[-600:]))
    if cases:
        c, r = cases[0], results[0]
        samples.append(dict(kind="example", sb=c["sb"], ops=[o["op"] for o in c["ops"]],
                            first_steps=[dict(op=o["op"], res=s["res"], eof=s["eof"], fsize=s["fsize"], newblocks=s["newblocks"],
                                              changed=s["changed"][:4])
                                         for o, s in list(zip(c["ops"], r.get("steps", [None])[1:]))[:4]]))
    samples.append(dict(kind="distribution", histories=len(cases), op_mix=opmix, failing_calls=nfail_calls,
                        dense_transitions=ndense, dense_groups=ndgroup, global_heap_collections=ngcol, reopens=nreopen,
                        type_pool=len(pool), model=model_note))
    return dict(violations=violations, evaluations=evaluations, distinct=len(sigs), samples=samples,
                model_divergent_histories=diverging, model_cfg=cfg)


if __name__ == "__main__":   # manual run: python3 tools/props/c04unit.py [n]
    import sys, json
    sys.path.insert(0, os.path.dirname(os.path.dirname(os.path.abspath(__file__))))

    class Ctx:
        pass
    ctx = Ctx()
    ctx.tier = os.environ.get("VERIF_TIER", "quick")
    ctx.seed, ctx.rng = vlib.seed_for("C04UNIT")
    ctx.harness = vlib.build_harness()
    try:
        res = run_unit(ctx, int(sys.argv[1]) if len(sys.argv) > 1 else None)
    finally:
        vlib.cleanup()
    print("c04unit: evaluations=%d distinct=%d violations=%d model_divergent_histories=%s cfg=%s" % (
        res["evaluations"], res["distinct"], len(res["violations"]), res.get("model_divergent_histories"), res.get("model_cfg")))
    kinds = {}
    for v in res["violations"]:
        kinds[v["what"][:3]] = kinds.get(v["what"][:3], 0) + 1
    print("  violation classes:", kinds)
    for v in res["violations"][:3]:
        print("  VIOLATION", v["what"])
        print("     sb=%s step=%s history=%s" % (v["case"]["sb"], v.get("step"),
              [(o["op"], o.get("path", "")) for o in v["case"]["ops"]][-6:]))
    for smp in res["samples"]:
        if smp["kind"].startswith("fidelity"):
            print("  DIAG", json.dumps(smp["first"])[:400])
        elif smp["kind"] == "distribution":
            print("  DIST", json.dumps(smp)[:600])
    sys.exit(1 if res["violations"] else 0)
