"""C11 - every metadata encoder is inverted by its decoder.

Per element kind K (dataspace, datatype, layout, attribute, superblock, ...):
  * values are generated from the grammar of the model's wf_K predicate with boundary pools;
  * gate 1  Go Encode(x) bytes == model enc_K x               (evaluated in Coq, hex transport)
  * gate 2  Go Parse(Encode(x)) == proj(x)                    (independent Python oracle on Go's output)
  * gate 3  Go Encode(x) twice gives identical bytes           (determinism)
  * gate 4  on the malformed stream (truncations and single-byte changes of valid encodings) the Go
            decoder's outcome class and value == model dec_K   (panics seen there are reported as C07
            material in the evidence; they do not gate C11, which is about well-formed values)
  * the encoder's own argument checks: Go returns an error  <=>  model encok_K x = false
A disagreement is classified with the Python oracle: Go violates decode(encode x) = x  => VIOLATION with
the failing value; Go != model but the round trip holds => search more values, then `nofail`.
"""
import json, os, re
import vlib
from props import c06switch

TRUSTED = ["C11: the encoders/decoders are hand-transcribed into Gallina (Model/Codec*.v); the tie compares encoder bytes and "
           "decoder outcomes on generated well-formed values and on truncated / byte-flipped encodings"]
ASSUMPTIONS = []

HDR = "From HV Require Import Base.Prelude Base.Outcome Base.Bytes Model.CodecTie %s.\n"

U64 = [0, 1, 2, 3, 7, 8, 255, 256, 257, 65535, 65536, (1 << 31) - 1, 1 << 31, (1 << 32) - 1, 1 << 32, (1 << 32) + 1,
       (1 << 63) - 1, 1 << 63, (1 << 64) - 2, (1 << 64) - 1]
U32 = [x for x in U64 if x < (1 << 32)]


def pick_u64(rng):
    r = rng.random()
    if r < 0.5:
        return rng.choice(U64)
    if r < 0.75:
        return rng.randrange(0, 1 << 16)
    return rng.getrandbits(rng.choice([8, 16, 31, 32, 33, 48, 63, 64]))


def pick_u32(rng):
    r = rng.random()
    if r < 0.5:
        return rng.choice(U32)
    return rng.getrandbits(rng.choice([8, 16, 31, 32]))


def pick_uk(rng, nbytes):
    """value fitting in nbytes bytes, boundary biased"""
    top = (1 << (8 * nbytes)) - 1
    r = rng.random()
    if r < 0.3:
        return rng.choice([0, 1, top, top - 1, top >> 1, (top >> 1) + 1])
    return rng.getrandbits(8 * nbytes)


def cl(xs):
    return "[" + ";".join(xs) + "]"


def cn(x):
    # the Coq front end reads hexadecimal numerals about twice as fast as decimal ones
    return "%d" % x if x < 1000 else "0x%x" % x


def cNl(xs):
    return "[" + ";".join(cn(x) for x in xs) + "]"


def chex(h):
    return '"%s"' % h


def cbytes(h):
    """hex string -> Coq term of type bytes.  Long runs of one byte become `repeat`, literals are cut
    into pieces (the Coq front end overflows its stack on very long string literals and reads ~10 kB/s)."""
    b = bytes.fromhex(h)
    parts, lit, i, n = [], bytearray(), 0, len(b)

    def flush():
        for k in range(0, len(lit), 2000):
            parts.append('unhex "%s"' % bytes(lit[k:k + 2000]).hex())
        lit.clear()
    while i < n:
        j = i
        while j < n and b[j] == b[i]:
            j += 1
        if j - i >= 48:
            flush()
            parts.append("repeat %d (N.to_nat %d)" % (b[i], j - i))
        else:
            lit += b[i:j]
        i = j
    flush()
    if not parts:
        return "(@nil N)"
    if len(parts) == 1:
        return "(%s)" % parts[0]
    return "(" + " ++ ".join(parts) + ")%list"


def cval(v):
    """canonical VAL (python: int | hex str | list) -> Coq term of type val"""
    if isinstance(v, bool):
        return "(VN %d)" % int(v)
    if isinstance(v, int):
        return "(VN %s)" % cn(v)
    if isinstance(v, str):
        return "(VB %s)" % cbytes(v)
    return "(VL [" + ";".join(cval(x) for x in v) + "])"


def csb(sb):
    return "{| sb_version := %d; sb_offsize := %d; sb_lensize := %d; sb_bigendian := %s |}" % (
        sb["v"], sb["o"], sb["l"], "true" if sb["be"] else "false")


def gen_sb(rng):
    return dict(v=rng.choice([0, 2, 3]), o=rng.choice([1, 2, 4, 8, 8]), l=rng.choice([1, 2, 4, 8, 8]), be=rng.random() < 0.25)


# ------------------------------------------------------------------------------------------------ kinds
class Kind:
    name = ""             # harness kind
    label = None          # reporting key (defaults to name)
    imports = ""          # Coq modules to import
    uses_sb = False

    def gen(self, rng, i):            # -> value (python dict); value["_sb"] when uses_sb
        raise NotImplementedError
    def invalid(self, rng):           # -> list of values the encoder must refuse (may be empty)
        return []
    def go(self, x):                  # -> JSON value for the harness
        return {k: v for k, v in x.items() if not k.startswith("_")}
    def coq(self, x):                 # -> Coq term of the model's value type
        raise NotImplementedError
    def enc_expr(self, x):            # Coq expr : bytes
        raise NotImplementedError
    def encok_expr(self, x):          # Coq expr : bool   (encoder accepts)
        return None
    def wf_expr(self, x):             # Coq expr : bool
        return None
    def dec_expr(self, hexs, sb):     # Coq expr : val  (oval val_X' (dec_X ...))
        raise NotImplementedError
    def proj(self, x):                # python oracle: expected canonical VAL of Parse(Encode x)
        raise NotImplementedError
    def shape(self, x):               # histogram key
        return ""
    panic_not_modelled = False
    no_model = False                  # True: no Coq model of this decoder, Go-side round trip only
    def focus(self, x):               # offset around which the malformed stream changes bytes
        return 0
    def skip_malformed(self, hx):     # malformed inputs on which the Go decoder is not a function of the input
        return False
    def probe(self, H):               # look at the implementation once before generating (model variant selection)
        pass
    def where(self, x):               # text appended to a round-trip violation (e.g. the address of the structure)
        return ""
    def rt_ok(self, x, got):          # round-trip oracle on Go's decoded value
        return got == [0, self.proj(x)]
    n_quick = None                    # number of generated values in the quick tier (default: run()'s n_values)
    dec_every = 4                     # the model decoder is evaluated on every dec_every-th valid encoding
    def extra_malformed(self, rng, x, r):   # -> [(how, hex)] hand-made invalid inputs added to the malformed stream
        return []


class Dataspace(Kind):
    name = "dataspace"
    imports = "Model.CodecMsg"
    RANKS = [1, 1, 2, 2, 3, 4, 5, 8, 16, 31, 32, 32, 33, 64, 254, 255, 255]

    def gen(self, rng, i):
        rank = self.RANKS[i] if i < len(self.RANKS) else rng.choice([1, 1, 2, 2, 3, 3, 4, 5, 6, 7, 8, rng.randint(1, 32)])
        dims = [pick_u64(rng) for _ in range(rank)]
        mx = [] if rng.random() < 0.4 else [rng.choice([d, (1 << 64) - 1, pick_u64(rng)]) for d in dims]
        return dict(dims=dims, maxdims=mx)

    def invalid(self, rng):
        return [dict(dims=[], maxdims=[]), dict(dims=[], maxdims=[3]), dict(dims=[1, 2], maxdims=[3]),
                dict(dims=[4], maxdims=[4, 5])]

    def coq(self, x):
        return "{| ds_dims := %s; ds_maxdims := %s |}" % (cNl(x["dims"]), cNl(x["maxdims"]))
    def enc_expr(self, x):
        return "enc_dataspace " + self.coq(x)
    def encok_expr(self, x):
        return "encok_dataspace " + self.coq(x)
    def wf_expr(self, x):
        return "wf_dataspace " + self.coq(x)
    def dec_expr(self, hexs, sb):
        return "oval val_dataspace' (dec_dataspace %s)" % cbytes(hexs)
    def proj(self, x):
        return [1, 1, list(x["dims"]), [list(x["maxdims"])] if x["maxdims"] else []]
    def shape(self, x):
        return "rank=%d,max=%d" % (len(x["dims"]), bool(x["maxdims"]))


class Layout(Kind):
    name = "layout"
    imports = "Model.CodecMsg"
    uses_sb = True

    def gen(self, rng, i):
        sb = gen_sb(rng)
        if i % 2 == 0:
            return dict(_sb=sb, **{"class": 1}, size=pick_uk(rng, sb["l"]), addr=pick_uk(rng, sb["o"]), chunk=[])
        rank = [1, 2, 3, 4, 8, 32, 33, 255][i // 2] if i < 16 else rng.choice([1, 2, 2, 3, 3, 4, 5, rng.randint(1, 33)])
        return dict(_sb=sb, **{"class": 2}, size=pick_u64(rng), addr=pick_uk(rng, sb["o"]), chunk=[pick_u32(rng) for _ in range(rank)])

    def invalid(self, rng):
        sb = dict(v=2, o=8, l=8, be=False)
        return [dict(_sb=sb, **{"class": 2}, size=0, addr=0, chunk=[]),
                dict(_sb=sb, **{"class": 2}, size=0, addr=0, chunk=[1 << 32]),
                dict(_sb=sb, **{"class": 2}, size=0, addr=0, chunk=[1] * 256)]

    def coq(self, x):
        if x["class"] == 1:
            return "(LContig %s %s)" % (cn(x["size"]), cn(x["addr"]))
        return "(LChunked %s %s)" % (cNl(x["chunk"]), cn(x["addr"]))
    def enc_expr(self, x):
        return "enc_layout %s %s" % (csb(x["_sb"]), self.coq(x))
    def encok_expr(self, x):
        return "encok_layout " + self.coq(x)
    def wf_expr(self, x):
        return "wf_layout %s %s" % (csb(x["_sb"]), self.coq(x))
    def dec_expr(self, hexs, sb):
        return "oval val_layout' (dec_layout %s %s)" % (csb(sb), cbytes(hexs))
    def proj(self, x):
        ks = 8 if x["_sb"]["v"] >= 4 else 4
        if x["class"] == 1:
            return [3, 1, x["addr"], x["size"], [], [], ks]
        return [3, 2, x["addr"], 0, [], [list(x["chunk"])], ks]
    def shape(self, x):
        return "class=%d,rank=%d,o=%d,l=%d,be=%d" % (x["class"], len(x["chunk"]), x["_sb"]["o"], x["_sb"]["l"], x["_sb"]["be"])


def le(n, v):
    return int(v % (1 << (8 * n))).to_bytes(n, "little")


def rbytes(rng, n, nonzero=False):
    return bytes(rng.randrange(1 if nonzero else 0, 256) for _ in range(n))


def py_numeric_props(cls, size, cbf):
    if cls == 1:
        return bytes([cbf & 1, (size * 8) & 0xFF, 0, 8 if size == 4 else 11, 23 if size == 4 else 52, 127]) + bytes(6)
    return bytes([cbf & 1, (size * 8) & 0xFF, 0, 0])


def py_enc_simple_dt(cls, size, cbf):
    """bytes of a fixed/float/string/reference datatype message (used to build nested property lists)"""
    hdr = le(4, cls | (1 << 4) | ((cbf << 8) & 0xFFFFFFFF)) + le(4, size)
    if cls in (0, 1):
        return hdr + py_numeric_props(cls, size, cbf)
    if cls == 3:
        return hdr + b"\0"
    return hdr


def gen_simple_dt(rng, classes=(0, 1)):
    cls = rng.choice(classes)
    size = rng.choice([1, 2, 4, 8]) if cls == 0 else rng.choice([4, 8]) if cls == 1 else rng.choice([1, 7, 256])
    cbf = rng.choice([0, 8, 1, 9, 0x20, rng.getrandbits(24)])
    return cls, size, cbf


def gen_compound_v3_props(rng, depth=0):
    """well-formed version-3 member list whose member types are self-delimiting for the decoder"""
    n = rng.choice([1, 1, 2, 3, 5])
    out = le(4, n)
    off = 0
    for i in range(n):
        name = rbytes(rng, rng.choice([1, 1, 2, 7, 8, 9, 15]), nonzero=True)
        if depth < 2 and rng.random() < 0.2:
            inner = gen_compound_v3_props(rng, depth + 1)
            mt = le(4, 6 | (3 << 4)) + le(4, rng.choice([4, 12, 100])) + inner
        else:
            mt = py_enc_simple_dt(*gen_simple_dt(rng))
        out += name + b"\0" + le(4, off) + mt
        off += rng.choice([1, 4, 8])
    return out


class DatatypeK(Kind):
    name = "datatype"
    imports = "Model.CodecType"
    CLASSES = [0, 0, 1, 3, 3, 5, 6, 6, 7]

    def gen(self, rng, i):
        cls = self.CLASSES[i % len(self.CLASSES)]
        cbf = rng.choice([0, 1, 8, 9, 0xFF, 0x100, 0xFFFF, 0xFFFFFF, rng.getrandbits(24), rng.getrandbits(8)])
        version = rng.choice([0, 1, 1, 2, 3, 15])
        props = rbytes(rng, rng.choice([0, 0, 1, 4, 12]))
        if cls == 0:
            size = rng.choice([1, 2, 4, 8])
        elif cls == 1:
            size = rng.choice([4, 8])
        elif cls == 3:
            size = rng.choice([1, 2, 255, 256, 65535, 65536, (1 << 32) - 1, rng.getrandbits(32) or 1])
        elif cls == 7:
            size = rng.choice([8, 12])
        elif cls == 5:
            size = rng.choice([1, 16, 255, 1 << 20, (1 << 32) - 1])
            props = rbytes(rng, rng.choice([1, 2, 7, 8, 9, 15, 16, 17, 255, 256, rng.randint(1, 40)]), nonzero=rng.random() < 0.8)
        else:
            size = rng.choice([1, 8, 24, 1 << 16, (1 << 32) - 1])
            r = rng.random()
            if r < 0.45:
                version = 3
                props = gen_compound_v3_props(rng)
            elif r < 0.6:
                version = 3
                props = rbytes(rng, rng.choice([1, 3, 4, 5, 13, 17, 40]))
            else:
                version = rng.choice([1, 2, 1, 0, 15])
                props = rbytes(rng, rng.choice([1, 8, 40, 41]))
        return {"class": cls, "version": version, "size": size, "cbf": cbf, "props": props.hex()}

    def invalid(self, rng):
        mk = lambda c, s, p="": {"class": c, "version": 1, "size": s, "cbf": 0, "props": p}
        return [mk(0, 0), mk(0, 3), mk(0, 16), mk(1, 2), mk(1, 1), mk(1, 16), mk(3, 0), mk(7, 4), mk(7, 16), mk(5, 4), mk(6, 4),
                mk(10, 4), mk(8, 4), mk(2, 4), mk(4, 4), mk(11, 4), mk(5, 0, "61"), mk(6, 0, "61"), mk(9, 0, "")]

    def coq(self, x):
        return "{| dt_class := %d; dt_version := %d; dt_size := %s; dt_cbf := %s; dt_props := %s |}" % (
            x["class"], x["version"], cn(x["size"]), cn(x["cbf"]), cbytes(x["props"]))
    def enc_expr(self, x):
        return "enc_datatype " + self.coq(x)
    def encok_expr(self, x):
        return "encok_datatype " + self.coq(x)
    def wf_expr(self, x):
        return "wf_datatype " + self.coq(x)
    def dec_expr(self, hexs, sb):
        return "oval val_datatype (dec_datatype %s)" % cbytes(hexs)
    def proj(self, x):
        c, size, cbf = x["class"], x["size"], x["cbf"]
        if c in (0, 1):
            return [c, 1, size, cbf, py_numeric_props(c, size, cbf).hex()]
        if c == 3:
            return [c, 1, size, cbf, "00"]
        if c == 7:
            return [c, 1, size, cbf, ""]
        if c == 5:
            tag = bytes.fromhex(x["props"])
            padded = (len(tag) + 7) // 8 * 8
            return [c, 1, size, padded, (tag + bytes(padded - len(tag))).hex()]
        return [c, x["version"], size, cbf, x["props"]]
    def shape(self, x):
        return "class=%d,v=%d,plen=%d" % (x["class"], x["version"], len(x["props"]) // 2)


class DatatypeVlen(DatatypeK):
    """variable-length datatypes (D10: the header did not round-trip before /repo 71914eb)"""
    name = "datatype"
    label = "datatype_vlen"

    def gen(self, rng, i):
        base = py_enc_simple_dt(*gen_simple_dt(rng, classes=(0, 1, 3)))
        if i % 5 == 4:
            base = bytes.fromhex(DatatypeK.gen(self, rng, rng.randrange(9))["props"]) or base
        return {"class": 9, "version": rng.choice([0, 0, 1, 15]), "size": rng.choice([16, 16, 1, (1 << 32) - 1]),
                "cbf": rng.choice([0, 1, 0x101, 0xFFFFFF, rng.getrandbits(12)]), "props": base.hex()}
    def invalid(self, rng):
        return []
    def wf_expr(self, x):
        return "wf_vlen " + self.coq(x)
    def proj(self, x):
        return [9, 1, x["size"], x["cbf"], x["props"]]


class AttributeK(Kind):
    name = "attribute"
    imports = "Model.CodecMsg Model.CodecType Model.CodecAttr"
    uses_sb = True
    NAMELEN = [1, 2, 7, 8, 9, 254, 255, 256, 257, 1000, 65534]

    def __init__(self):
        self.dtk, self.dsk = DatatypeK(), Dataspace()

    def gen(self, rng, i):
        nl = self.NAMELEN[i] if i < len(self.NAMELEN) else rng.choice([1, 2, 3, 5, 8, 13, 16, 31, rng.randint(1, 64)])
        name = rbytes(rng, nl, nonzero=rng.random() < 0.7) if nl < 300 else rbytes(rng, 3, True) + b"a" * (nl - 6) + rbytes(rng, 3)
        dt = self.dtk.gen(rng, rng.randrange(9))
        ds = self.dsk.gen(rng, 1000)
        if len(ds["dims"]) > 6:
            ds = dict(dims=ds["dims"][:3], maxdims=ds["maxdims"][:3])
        data = rbytes(rng, rng.choice([0, 0, 1, 4, 8, 16, rng.randint(0, 48)]))
        return dict(_sb=dict(v=2, o=8, l=8, be=False), name=name.hex(), dt=dt, dims=ds["dims"], maxdims=ds["maxdims"], data=data.hex())

    def invalid(self, rng):
        ok = self.gen(rng, 20)
        a = dict(ok, name="")
        a2 = dict(ok, name="61" * 65535)
        b = dict(ok, dims=[])
        c = dict(ok, dt=dict(ok["dt"], **{"class": 0, "size": 3}))
        return [a, a2, b, c]

    def coq(self, x):
        return "{| at_name := %s; at_dt := %s; at_ds := %s; at_data := %s |}" % (
            cbytes(x["name"]), self.dtk.coq(x["dt"]), self.dsk.coq(x), cbytes(x["data"]))
    def enc_expr(self, x):
        return "enc_attribute " + self.coq(x)
    def encok_expr(self, x):
        return "encok_attribute " + self.coq(x)
    def wf_expr(self, x):
        return "wf_attribute " + self.coq(x)
    def dec_expr(self, hexs, sb):
        # the variant of the version 2 padding switch that the source tree under test implements (tools/props/c06switch.py)
        return "oval val_attribute' (dec_attribute_gen %s %s %s)" % (c06switch.cb(c06switch.attribute()), "true" if sb and sb["be"] else "false", cbytes(hexs))
    def proj(self, x):
        return [x["name"], self.dtk.proj(x["dt"]), self.dsk.proj(x), [x["data"]] if x["data"] else []]
    def shape(self, x):
        return "name=%d,class=%d,rank=%d,data=%d" % (len(x["name"]) // 2, x["dt"]["class"], len(x["dims"]), len(x["data"]) // 2)


class SuperblockK(Kind):
    name = "superblock"
    imports = "Model.CodecSuper"
    F = ["version", "offsize", "lensize", "base", "root", "superext", "rootbtree", "rootheap", "eof"]

    def gen(self, rng, i):
        ver = [0, 2, 3][i % 3]
        x = dict(version=ver, offsize=8, lensize=8)
        for f in self.F[3:]:
            x[f] = pick_u64(rng)
        if rng.random() < 0.4:
            x["superext"] = 0
        if rng.random() < 0.3:
            x["base"] = 0
        return x

    def invalid(self, rng):
        ok = self.gen(rng, 1)
        return [dict(ok, version=1), dict(ok, version=4), dict(ok, offsize=4), dict(ok, lensize=4), dict(ok, version=0, offsize=2)]

    def coq(self, x):
        return ("{| sp_version := %d; sp_offsize := %d; sp_lensize := %d; sp_base := %s; sp_root := %s; sp_superext := %s; "
                "sp_rootbtree := %s; sp_rootheap := %s; sp_eof := %s |}") % (
            x["version"], x["offsize"], x["lensize"], cn(x["base"]), cn(x["root"]), cn(x["superext"]),
            cn(x["rootbtree"]), cn(x["rootheap"]), cn(x["eof"]))
    def enc_expr(self, x):
        return "enc_superblock " + self.coq(x)
    def encok_expr(self, x):
        return "encok_superblock " + self.coq(x)
    def wf_expr(self, x):
        return "wf_superblock " + self.coq(x)
    def dec_expr(self, hexs, sb):
        # the variant of the superblock sizes switch that the source tree under test implements (tools/props/c06switch.py)
        return "oval val_superblock' (dec_superblock_gen %s %s)" % (c06switch.cb(c06switch.superblock()), cbytes(hexs))
    def proj(self, x):
        U = (1 << 64) - 1
        if x["version"] == 0:
            return [0, 8, 8, 0, 0, x["root"], 0, 0, x["rootbtree"], x["rootheap"]]
        return [x["version"], 8, 8, 0, x["base"], x["root"], x["superext"] or U, 0, 0, 0]
    def shape(self, x):
        return "v=%d,ext0=%d,base0=%d" % (x["version"], x["superext"] == 0, x["base"] == 0)



def csbe(sb):
    return "true" if sb and sb.get("be") else "false"


# Addresses at which object headers are placed (ObjectHeaderWriter.WriteTo accepts any address and the
# library's allocator does not align): every residue modulo 8, the root group header address of a version 0
# file (96) and 96 + 3 bytes of int8 data, page-sized addresses with odd residues, plus random ones.
OHDR_ADDRS = [0, 1, 2, 3, 4, 5, 6, 7, 8, 48, 96, 99, 100, 0x1001, 0x1003, 0x1007]


def pick_ohdr_addr(rng, i):
    if i % 2 == 0:
        return OHDR_ADDRS[(i // 2) % len(OHDR_ADDRS)]
    r = rng.random()
    if r < 0.5:
        return rng.choice(OHDR_ADDRS)
    if r < 0.85:
        return rng.randrange(0, 600)
    return rng.randrange(600, 20000)


def ohdr_pre(rng, addr):
    """the bytes in front of the header: arbitrary for small addresses; zeros followed by 24 arbitrary bytes for
    large ones (long literals are slow to read on the Coq side, runs of one byte are transported as `repeat`)"""
    if addr <= 128:
        return rbytes(rng, addr)
    return bytes(addr - 24) + rbytes(rng, 24, nonzero=True)


class OhdrV2(Kind):
    name = "ohdr"
    label = "ohdr_v2"
    imports = "Model.CodecOhdr"
    uses_sb = True
    panic_not_modelled = True     # ReadObjectHeader also parses attribute messages; a panic there is C07 material
    TYPES = [1, 2, 3, 5, 6, 8, 11, 12, 13, 15, 17, 22, 22, 13, 255, 0, 10]

    def gen_msgs(self, rng, budget, hdr):
        msgs = []
        n = rng.choice([0, 1, 1, 2, 3, 4, 6])
        for _ in range(n):
            room = budget - hdr - sum(hdr + len(m["data"]) // 2 for m in msgs)
            if room < 1:
                break
            ln = min(room, rng.choice([1, 1, 2, 4, 5, 8, 16, 18, 40, 100, 251]))
            t = rng.choice(self.TYPES)
            d = rbytes(rng, ln)
            if t == 12:
                d = bytes([3, 0]) + d[2:]      # attribute-looking, parse errors are ignored by the reader
            msgs.append(dict(type=t, data=d.hex()))
        return msgs

    def gen(self, rng, i):
        addr = pick_ohdr_addr(rng, i)
        sb = dict(v=2, o=8, l=8, be=rng.random() < 0.2, addr=addr)
        flags = rng.choice([0, 0, 0, 8, 64, 128, 200])
        msgs = self.gen_msgs(rng, 255, 4)
        if i < 3:
            msgs = [dict(type=12, data=rbytes(rng, 251).hex())]        # exactly 255 bytes of messages
        elif i % 4 == 1:
            msgs = self.gen_multi(rng, 255, 4)
        suf = rbytes(rng, rng.choice([1, 2, 8, 16]))
        return dict(_sb=sb, version=2, flags=flags, refcount=rng.choice([0, 1, 7]), msgs=msgs, suf=suf.hex(),
                    pre=ohdr_pre(rng, addr).hex())

    def gen_multi(self, rng, budget, hdr):
        """three to six messages of pairwise different sizes, at least two of them not a multiple of 8 (the shape
        of a dataset header: datatype 12, dataspace 8 + 8 * rank, layout 18 bytes)"""
        n = rng.choice([3, 3, 4, 5, 6])
        lens = rng.sample([1, 2, 3, 5, 7, 9, 12, 13, 17, 18, 23, 31], 2) + rng.sample([4, 6, 8, 10, 16, 20, 24, 27, 33, 40], n - 2)
        rng.shuffle(lens)
        msgs = []
        for ln in lens:
            room = budget - hdr - sum(hdr + len(m["data"]) // 2 for m in msgs)
            if room < 1:
                break
            t = rng.choice([1, 3, 8, 5, 17, 2, 10, 13])
            msgs.append(dict(type=t, data=rbytes(rng, min(ln, room)).hex()))
        return msgs

    def invalid(self, rng):
        sb = dict(v=2, o=8, l=8, be=False, addr=0)
        return [dict(_sb=sb, version=2, flags=0, refcount=1, msgs=[dict(type=1, data="00" * 252)], suf="00", pre=""),
                dict(_sb=sb, version=2, flags=0, refcount=1, msgs=[dict(type=1, data="00" * 200), dict(type=1, data="00" * 48)], suf="00", pre="")]

    def coq_msgs(self, x):
        return cl("{| hm_type := %d; hm_data := %s |}" % (m["type"], cbytes(m["data"])) for m in x["msgs"])
    def coq(self, x):
        return "{| oh_version := %d; oh_flags := %d; oh_refcount := %d; oh_msgs := %s |}" % (
            x["version"], x["flags"], x["refcount"], self.coq_msgs(x))
    def enc_expr(self, x):
        return "(%s ++ enc_ohdr_v2 %s ++ %s)%%list" % (cbytes(x["pre"]), self.coq(x), cbytes(x["suf"]))
    def encok_expr(self, x):
        return "encok_ohdr_v2 " + self.coq(x)
    def wf_expr(self, x):
        return "wf_ohdr_v2 " + self.coq(x)
    def dec_expr(self, hexs, sb):
        return "oval val_ohdr' (dec_ohdr %s %s %d)" % (csbe(sb), cbytes(hexs), sb["addr"])
    def focus(self, x):
        return x["_sb"]["addr"]
    def where(self, x):
        return " - e.g. %d messages written at address %d (= %d mod 8)" % (len(x["msgs"]), x["_sb"]["addr"], x["_sb"]["addr"] % 8)
    def proj(self, x):
        cur = x["_sb"]["addr"] + 7
        ms, name, ref = [], "", None
        for m in x["msgs"]:
            d = bytes.fromhex(m["data"])
            ms.append([m["type"], cur, m["data"]])
            cur += 4 + len(d)
            if m["type"] == 13 and len(d) > 1:
                name = d[1:].hex()
            if m["type"] == 22 and len(d) >= 4 and ref is None:
                ref = int.from_bytes(d[:4], "big" if x["_sb"]["be"] else "little")
        return [2, x["flags"], 1 if ref is None else ref, name, ms]
    def shape(self, x):
        a = x["_sb"]["addr"]
        return "n=%d,addr%%8=%d,addr=%s" % (min(len(x["msgs"]), 3), a % 8, a if a in OHDR_ADDRS else "other")


class OhdrV1(OhdrV2):
    label = "ohdr_v1"

    def gen(self, rng, i):
        # the reader steps from message to message relative to the start of the message block (as the writer
        # pads), NOT to absolute multiples of 8: the two differ exactly at addresses that are not multiples of 8
        addr = pick_ohdr_addr(rng, i)
        sb = dict(v=0, o=8, l=8, be=False, addr=addr)
        if i % 4 == 0:
            msgs = [dict(type=17, data=rbytes(rng, 16).hex())]          # what the library itself writes
        elif i % 4 == 1:
            msgs = self.gen_multi(rng, 400, 8)
        else:
            msgs = [m for m in self.gen_msgs(rng, 400, 8) if m["type"] != 16]
        suf = rbytes(rng, rng.choice([0, 1, 8, 16, 64]))
        return dict(_sb=sb, version=1, flags=0, refcount=rng.choice([0, 1, 7, (1 << 32) - 1]), msgs=msgs, suf=suf.hex(),
                    pre=ohdr_pre(rng, addr).hex())

    def invalid(self, rng):
        return []
    # Which size-field computation does the tree under test use?  Decided on a probe header (two 16-byte
    # messages: 16+8*2 = 32 before notes/fixes/ohdr-v1-size-field.patch, 48 message bytes after it); the model
    # has both variants (enc_ohdr_v1_gen false/true) with C11_ohdr_v1_refuted resp. the repaired-witness lemma.
    repaired = None
    def probe(self, H):
        p = dict(_sb=dict(v=0, o=8, l=8, be=False, addr=0), version=1, flags=0, refcount=1,
                 msgs=[dict(type=17, data="00" * 16), dict(type=1, data="00" * 16)], suf="", pre="")
        r = vlib.run_harness(H, "c11", [dict(kind=self.name, val=self.go(p), sb=p["_sb"])])[0]
        field = int.from_bytes(bytes.fromhex(r["enc"])[8:12], "little")
        if field not in (32, 48):
            raise RuntimeError("object header v1 size field of the probe is %d (expected 32 or 48)" % field)
        self.repaired = field == 48
    def enc_expr(self, x):
        return "(%s ++ enc_ohdr_v1_gen %s %s ++ %s)%%list" % (
            cbytes(x["pre"]), "true" if self.repaired else "false", self.coq(x), cbytes(x["suf"]))
    def encok_expr(self, x):
        return None
    def wf_expr(self, x):
        return "wf_ohdr_v1 " + self.coq(x)
    def proj(self, x):
        cur = x["_sb"]["addr"] + 16
        ms, name = [], ""
        for m in x["msgs"]:
            d = bytes.fromhex(m["data"])
            ms.append([m["type"], cur, m["data"]])
            cur += (8 + len(d) + 7) // 8 * 8
            if m["type"] == 13 and len(d) > 0:
                name = d.split(b"\0")[0].hex()
        return [1, 0, x["refcount"], name, ms]



class OhdrV1ContK(OhdrV2):
    """Version 1 object header continued in one continuation block; header and block at arbitrary addresses
    (all residues modulo 8 for both).  The image is assembled by the harness with the library's own version 1
    writer (a continuation block is the message part of a version 1 header); core.ReadObjectHeader must return
    the header block's messages (the continuation message among them) followed by the block's messages.
    Gate: the Python projection of what was encoded (no Coq model of the version 1 continuation queue:
    Model/CodecOhdr.v parse_v1 covers the first block only)."""
    name = "ohdrv1cont"
    label = "ohdr_v1_cont"
    no_model = True
    n_quick = 96
    CT = [1, 3, 8, 5, 17, 2, 10, 11, 255]

    def msgs(self, rng, nmin, nmax):
        out = []
        for _ in range(rng.randint(nmin, nmax)):
            out.append(dict(type=rng.choice(self.CT), data=rbytes(rng, rng.choice([1, 2, 3, 4, 7, 8, 9, 12, 16, 18, 24, 33, 100])).hex()))
        return out

    @staticmethod
    def span(ms):
        return sum((8 + len(m["data"]) // 2 + 7) // 8 * 8 for m in ms)

    def gen(self, rng, i):
        # the first 64 values: every pair (header address mod 8, block address mod 8)
        if i < 64:
            addr, want = rng.choice([a for a in OHDR_ADDRS if a % 8 == i % 8]), i // 8
        else:
            addr, want = pick_ohdr_addr(rng, i) % 5000, rng.randrange(8)
        a0, b0 = self.msgs(rng, 0, 3), self.msgs(rng, 0, 2)
        blk = self.msgs(rng, 2, 5)
        # the block address takes every residue modulo 8, whatever the header's address is
        blk_addr0 = addr + 16 + self.span(a0) + 24 + self.span(b0)
        gap = (want - blk_addr0) % 8 + 8 * rng.choice([0, 0, 1, 5])
        between = rbytes(rng, gap)
        blk_addr, blk_size = blk_addr0 + gap, self.span(blk)
        cont = dict(type=16, data=(blk_addr.to_bytes(8, "little") + blk_size.to_bytes(8, "little")).hex())
        return dict(_sb=dict(v=0, o=8, l=8, be=False, addr=addr), refcount=rng.choice([0, 1, 7]), pre=ohdr_pre(rng, addr).hex(),
                    msgs=a0 + [cont] + b0, between=between.hex(), blk=blk, suf=rbytes(rng, rng.choice([0, 1, 8, 40])).hex(),
                    _blk_addr=blk_addr)

    def invalid(self, rng):
        return []
    def wf_expr(self, x):
        return None
    def proj(self, x):
        out = []
        for start, ms in ((x["_sb"]["addr"] + 16, x["msgs"]), (x["_blk_addr"], x["blk"])):
            cur = start
            for m in ms:
                out.append([m["type"], cur, m["data"]])
                cur += (8 + len(m["data"]) // 2 + 7) // 8 * 8
        return [1, 0, x["refcount"], "", out]
    def where(self, x):
        return " - e.g. header at address %d (= %d mod 8), continuation block at %d (= %d mod 8)" % (
            x["_sb"]["addr"], x["_sb"]["addr"] % 8, x["_blk_addr"], x["_blk_addr"] % 8)
    def shape(self, x):
        return "hdr%%8=%d,blk%%8=%d" % (x["_sb"]["addr"] % 8, x["_blk_addr"] % 8)


class OhdrContK(OhdrV2):
    """Object header version 2 with a chain of 0..3 continuation chunks ("OCHK").  The library has no encoder
    for them: the file image is built here (python), the harness hands it back unchanged, the Coq side checks
    it against the specification-side encoder build_chain, and core.ReadObjectHeader's result is compared
    with the model dec_ohdr_c and with the python projection below."""
    name = "ohdrcont"
    label = "ohdr_v2_cont"
    imports = "Model.CodecOhdr Model.CodecOhdrCont"
    n_quick = 100
    dec_every = 1
    CTYPES = [t for t in OhdrV2.TYPES if t != 16]

    def small_msgs(self, rng, nmax, lens):
        out = []
        for _ in range(rng.randrange(0, nmax + 1)):
            t = rng.choice(self.CTYPES)
            d = rbytes(rng, rng.choice(lens))
            if t == 12:
                d = (bytes([3, 0]) + d[2:])[:max(len(d), 2)]
            out.append(dict(type=t, data=d.hex()))
        return out

    def gen(self, rng, i):
        n = [0, 1, 2, 3, 1, 2][i % 6]
        addr = rng.choice([0, 0, 1, 8, 48, 100])
        x = dict(flags=rng.choice([0, 0, 0, 8, 64, 128, 200]), pre=rbytes(rng, addr).hex(),
                 a0=self.small_msgs(rng, 2, [1, 1, 2, 4, 8, 16, 40]), b0=self.small_msgs(rng, 2, [1, 2, 4, 8, 30]), ks=[])
        for _ in range(n):
            x["ks"].append(dict(between=rbytes(rng, rng.choice([0, 0, 1, 3, 8])).hex(),
                                a=self.small_msgs(rng, 2, [1, 2, 4, 8, 16, 60, 300]), b=self.small_msgs(rng, 2, [1, 1, 4, 20]),
                                gap=rbytes(rng, rng.choice([0, 0, 1, 2, 3])).hex(), ck=rbytes(rng, 4).hex()))
        x["suf"] = rbytes(rng, rng.choice([1, 2, 8]) if n == 0 or rng.random() < 0.5 else 0).hex()
        be = rng.random() < 0.3
        o, l = rng.choice([1, 2, 4, 8, 8]), rng.choice([1, 2, 4, 8, 8])
        x["_sb"] = dict(v=2, o=o, l=l, be=be, addr=addr)
        # addresses and sizes must fit the offset / length size
        while True:
            img = self.build(x)[0]
            if len(img) >= 256 ** x["_sb"]["o"]:
                x["_sb"]["o"] *= 2
            elif len(img) >= 256 ** x["_sb"]["l"]:
                x["_sb"]["l"] *= 2
            else:
                break
        x["image"] = img.hex()
        return x

    @staticmethod
    def enc_msg(m):
        d = bytes.fromhex(m["data"])
        return bytes([m["type"]]) + len(d).to_bytes(2, "little") + b"\0" + d

    def build(self, x, extra=None, tail=b""):
        """-> (image, [chunk addresses], [chunk sizes], [[type, offset, datahex]] as the reader returns them).
        extra: function(addresses, sizes, image length) -> messages appended to the last chunk;  tail: bytes
        put after suf."""
        sb = x["_sb"]
        order = "big" if sb["be"] else "little"
        mod_o, mod_l = 256 ** min(sb["o"], 8), 256 ** min(sb["l"], 8)
        def contmsg(a, s):
            return dict(type=16, data=((a % mod_o).to_bytes(sb["o"], order) + (s % mod_l).to_bytes(sb["l"], order)).hex())
        n = len(x["ks"])
        lists = None
        addrs, sizes, total = [0] * (n + 1), [0] * (n + 1), 0
        for _pass in range(2):       # pass 0 fixes the lengths, pass 1 fills in addresses and sizes
            lists = []
            for ci in range(n + 1):
                c = dict(a=x["a0"], b=x["b0"]) if ci == 0 else x["ks"][ci - 1]
                ms = list(c["a"])
                if ci < n:
                    ms.append(contmsg(addrs[ci + 1], sizes[ci + 1]))
                ms += c["b"]
                if ci == n and extra:
                    ms += extra(addrs, sizes, total, contmsg)
                lists.append(ms)
            pos = sb["addr"]
            for ci in range(n + 1):
                body = sum(4 + len(m["data"]) // 2 for m in lists[ci])
                if ci == 0:
                    addrs[0], sizes[0] = pos, 7 + body
                else:
                    k = x["ks"][ci - 1]
                    addrs[ci] = pos + len(k["between"]) // 2
                    sizes[ci] = 4 + body + len(k["gap"]) // 2 + 4
                pos = addrs[ci] + sizes[ci]
            total = pos + len(x["suf"]) // 2
        img = bytearray(bytes.fromhex(x["pre"]))
        out = []
        for ci in range(n + 1):
            if ci == 0:
                img += b"OHDR" + bytes([2, x["flags"], (sizes[0] - 7) % 256])
                cur = addrs[0] + 7
            else:
                img += bytes.fromhex(x["ks"][ci - 1]["between"]) + b"OCHK"
                cur = addrs[ci] + 4
            for m in lists[ci]:
                out.append([m["type"], cur, m["data"]])
                e = self.enc_msg(m)
                img += e
                cur += len(e)
            if ci > 0:
                img += bytes.fromhex(x["ks"][ci - 1]["gap"]) + bytes.fromhex(x["ks"][ci - 1]["ck"])
        img += bytes.fromhex(x["suf"]) + tail
        return bytes(img), addrs, sizes, out

    def go(self, x):
        return dict(image=x["image"])
    def cm(self, ms):
        return cl("{| hm_type := %d; hm_data := %s |}" % (m["type"], cbytes(m["data"])) for m in ms)
    def args(self, x):
        ks = cl("{| k_between := %s; k_a := %s; k_b := %s; k_gap := %s; k_ck := %s |}" % (
            cbytes(k["between"]), self.cm(k["a"]), self.cm(k["b"]), cbytes(k["gap"]), cbytes(k["ck"])) for k in x["ks"])
        return x["flags"], self.cm(x["a0"]), self.cm(x["b0"]), ks
    def enc_expr(self, x):
        sb = x["_sb"]
        return "build_chain %d %d %s %s %d %s %s %s %s" % ((sb["o"], sb["l"], csbe(sb), cbytes(x["pre"])) + self.args(x) + (cbytes(x["suf"]),))
    def encok_expr(self, x):
        return None
    def wf_expr(self, x):
        sb = x["_sb"]
        return "wf_chain %d %d %d %s %s %s" % ((sb["o"], sb["l"]) + self.args(x))
    def invalid(self, rng):
        return []
    def dec_expr(self, hexs, sb):
        return "oval val_ohdr' (dec_ohdr_c %d %d %s %s %d)" % (sb["o"], sb["l"], csbe(sb), cbytes(hexs), sb["addr"])
    def proj(self, x):
        ms = self.build(x)[3]
        name, ref = "", None
        for t, _, dh in ms:
            d = bytes.fromhex(dh)
            if t == 13 and len(d) > 1:
                name = d[1:].hex()
            if t == 22 and len(d) >= 4 and ref is None:
                ref = int.from_bytes(d[:4], "big" if x["_sb"]["be"] else "little")
        return [2, x["flags"], 1 if ref is None else ref, name, ms]
    def shape(self, x):
        return "chunks=%d,os=%d,ls=%d,be=%d" % (len(x["ks"]), x["_sb"]["o"], x["_sb"]["l"], x["_sb"]["be"])
    def where(self, x):
        return " - e.g. first chunk at address %d" % x["_sb"]["addr"]

    def extra_malformed(self, rng, x, r):
        """the reader's refusals and the shapes outside the chain grammar: links back to a visited chunk or to
        the first chunk, sizes below 8, a missing signature, a link beyond the file, an empty chunk of size 8,
        two links in one chunk (queue order)"""
        out = []
        ochk = b"OCHK" + bytes([1, 1, 0, 0, 0x55]) + bytes(4)              # a valid 13-byte chunk put after suf
        def variant(how, extra, tail=b""):
            try:
                out.append((how, self.build(x, extra, tail)[0].hex()))
            except (OverflowError, ValueError):
                pass
        if x["ks"]:
            variant("cycle", lambda A, S, T, cm: [cm(A[rng.randrange(1, len(A))], 16)])
        variant("to-first-chunk", lambda A, S, T, cm: [cm(A[0], S[0])])
        variant("short-size", lambda A, S, T, cm: [cm(T, rng.randrange(0, 8))], ochk)
        variant("bad-signature", lambda A, S, T, cm: [cm(T + 1, 12)], ochk)
        variant("beyond-file", lambda A, S, T, cm: [cm(T + rng.choice([10, 11, 13, 1 << 20]), 13)], ochk)
        variant("extra-chunk", lambda A, S, T, cm: [cm(T, 13)], ochk)
        variant("empty-chunk", lambda A, S, T, cm: [cm(T, 8)], ochk)
        variant("oversized-chunk", lambda A, S, T, cm: [cm(T, rng.choice([14, 40, 1 << 16]))], ochk + bytes(rng.randrange(0, 12)))
        variant("two-links", lambda A, S, T, cm: [cm(T, 13), cm(T + 13, 13)], ochk + ochk)
        variant("same-twice", lambda A, S, T, cm: [cm(T, 13), cm(T, 13)], ochk)
        rng.shuffle(out)
        return out[:4]


class LinkK(Kind):
    name = "link"
    imports = "Model.CodecMsg Model.CodecLink"
    uses_sb = True
    NAMELEN = [0, 1, 2, 254, 255, 256, 257, 1000]

    def gen(self, rng, i):
        sb = dict(v=2, o=rng.choice([8, 8, 4, 2, 1]), l=8, be=False)
        ty = rng.choice([0, 0, 1, 64])
        ls_code = rng.choice([0, 0, 1, 2, 3])
        flags = ls_code | (0x04 if rng.random() < 0.4 else 0) | (0x10 if rng.random() < 0.5 else 0)
        if ty != 0 or rng.random() < 0.4:
            flags |= 0x08
        flags |= rng.choice([0, 0, 0, 0x20, 0x40, 0x80, 0xE0])       # reserved bits are carried through
        nl = self.NAMELEN[i] if i < len(self.NAMELEN) else rng.choice([1, 2, 3, 5, 8, 13, 40, rng.randint(0, 64)])
        if ls_code == 0:
            nl = min(nl, 255)
        name = rbytes(rng, nl) if nl < 300 else rbytes(rng, 3, True) + b"a" * (nl - 6) + rbytes(rng, 3)
        if ty == 0:
            value = rbytes(rng, sb["o"])
        elif ty == 1:
            path = rbytes(rng, rng.choice([0, 1, 5, 20, 255, 256]))
            value = le(2, len(path)) + path
        else:
            f, pth = rbytes(rng, rng.choice([0, 1, 9, 30])), rbytes(rng, rng.choice([0, 1, 7, 40]))
            value = le(2, len(f)) + f + le(2, len(pth)) + pth
        return dict(_sb=sb, version=1, flags=flags, type=ty, corder=pick_u64(rng) if flags & 4 else 0,
                    charset=rng.choice([0, 1, 255]) if flags & 0x10 else 0, name=name.hex(), value=value.hex())

    def invalid(self, rng):
        ok = self.gen(rng, 100)
        return [dict(ok, version=0), dict(ok, version=2), dict(ok, flags=0x08, name="61" * 256), dict(ok, flags=0x09, name="61" * 65536)]

    def coq(self, x):
        return ("{| lk_version := %d; lk_flags := %d; lk_type := %d; lk_corder := %s; lk_charset := %d; lk_name := %s; lk_value := %s |}"
                % (x["version"], x["flags"], x["type"], cn(x["corder"]), x["charset"], cbytes(x["name"]), cbytes(x["value"])))
    def enc_expr(self, x):
        return "enc_link " + self.coq(x)
    def encok_expr(self, x):
        return "encok_link " + self.coq(x)
    def wf_expr(self, x):
        return "wf_link %d %s" % (x["_sb"]["o"], self.coq(x))
    def dec_expr(self, hexs, sb):
        return "oval val_link (dec_link %d %s)" % (sb["o"], cbytes(hexs))
    def proj(self, x):
        v = x["value"][4:] if x["type"] == 1 else x["value"]
        return [1, x["flags"], x["type"], x["corder"], x["charset"], x["name"], v]
    def shape(self, x):
        return "type=%d,flags=%02x,name=%d" % (x["type"], x["flags"] & 0x1F, len(x["name"]) // 2)


class Link2K(LinkK):
    """core.EncodeLinkMessage read by the second parser, structures.ParseLinkMessage (Model/CodecLink2.v dec_link2;
    the encoder model is the first parser's enc_link).  Big-endian superblocks included: the encoder copies the
    LinkValue bytes verbatim, the parser reads a hard link's address in the superblock's byte order."""
    name = "link2"
    imports = "Model.CodecMsg Model.CodecLink Model.CodecLink2"

    def gen(self, rng, i):
        x = LinkK.gen(self, rng, i + 1)
        x["_sb"] = dict(x["_sb"], be=rng.random() < 0.4)
        if not x["name"]:
            x["name"] = "6c"
        if x["type"] == 1 and x["value"] == "0000":
            x["value"] = "01002f"
        if x["type"] == 64 and rng.random() < 0.5:
            # link types the first parser refuses and this one accepts: two readable value bytes are all it needs
            x["type"] = rng.choice([2, 5, 63, 65, 128, 255])
            if rng.random() < 0.5:
                x["value"] = rbytes(rng, rng.choice([2, 3, 10])).hex()
        return x
    def invalid(self, rng):
        return []
    def wf_expr(self, x):
        return "wf_link2 %d %s %s" % (x["_sb"]["o"], "true" if x["_sb"]["be"] else "false", self.coq(x))
    def dec_expr(self, hexs, sb):
        return "oval val_link2 (dec_link2 %d %s %s)" % (sb["o"], "true" if sb["be"] else "false", cbytes(hexs))
    def proj(self, x):
        addr, path = 0, ""
        v = bytes.fromhex(x["value"])
        if x["type"] == 0:
            addr = int.from_bytes(v, "big" if x["_sb"]["be"] else "little")
        elif x["type"] == 1:
            path = v[2:].hex()
        return [1, x["flags"], x["type"], x["name"], x["corder"], 1 if x["flags"] & 4 else 0, x["charset"], addr, path]
    def shape(self, x):
        return "type=%d,flags=%02x,name=%d,os=%d%s" % (x["type"], x["flags"] & 0x1F, len(x["name"]) // 2, x["_sb"]["o"], "be" if x["_sb"]["be"] else "le")


class LinkInfoK(Kind):
    name = "linkinfo"
    imports = "Model.CodecMsg Model.CodecLink"
    uses_sb = True

    def gen(self, rng, i):
        sb = gen_sb(rng)
        flags = i % 4
        return dict(_sb=sb, version=0, flags=flags,
                    maxcorder=rng.choice([0, 1, (1 << 63) - 1, rng.getrandbits(62)]) if flags & 1 else 0,
                    heap=pick_uk(rng, sb["o"]), btname=pick_uk(rng, sb["o"]), btorder=pick_uk(rng, sb["o"]) if flags & 2 else 0)

    def invalid(self, rng):
        return [dict(self.gen(rng, 0), version=1), dict(self.gen(rng, 3), version=255)]

    def coq(self, x):
        return "{| li_version := %d; li_flags := %d; li_maxcorder := %s; li_heap := %s; li_btname := %s; li_btorder := %s |}" % (
            x["version"], x["flags"], cn(x["maxcorder"]), cn(x["heap"]), cn(x["btname"]), cn(x["btorder"]))
    def enc_expr(self, x):
        return "enc_linkinfo %s %s" % (csb(x["_sb"]), self.coq(x))
    def encok_expr(self, x):
        return "encok_linkinfo " + self.coq(x)
    def wf_expr(self, x):
        return "wf_linkinfo %s %s" % (csb(x["_sb"]), self.coq(x))
    def dec_expr(self, hexs, sb):
        return "oval val_linkinfo (dec_linkinfo %s %s)" % (csb(sb), cbytes(hexs))
    def proj(self, x):
        return [0, x["flags"], x["maxcorder"], x["heap"], x["btname"], x["btorder"]]
    def shape(self, x):
        return "flags=%d,o=%d,be=%d" % (x["flags"], x["_sb"]["o"], x["_sb"]["be"])


class AttrInfoK(Kind):
    name = "attrinfo"
    imports = "Model.CodecMsg Model.CodecLink"
    uses_sb = True

    def gen(self, rng, i):
        sb = dict(gen_sb(rng), be=False)
        flags = (i % 4) | rng.choice([0, 0, 4, 0x80, 0xFC])
        return dict(_sb=sb, version=rng.choice([0, 0, 1, 255]), flags=flags, heap=pick_uk(rng, sb["o"]), btname=pick_uk(rng, sb["o"]),
                    maxcidx=rng.choice([0, 1, 255, 256, 65535]) if flags & 1 else 0,
                    btorder=pick_uk(rng, sb["o"]) if flags & 2 else 0)

    def coq(self, x):
        return "{| ai_version := %d; ai_flags := %d; ai_heap := %s; ai_btname := %s; ai_maxcidx := %s; ai_btorder := %s |}" % (
            x["version"], x["flags"], cn(x["heap"]), cn(x["btname"]), cn(x["maxcidx"]), cn(x["btorder"]))
    def enc_expr(self, x):
        return "enc_attrinfo %s %s" % (csb(x["_sb"]), self.coq(x))
    def wf_expr(self, x):
        return "wf_attrinfo %s %s" % (csb(x["_sb"]), self.coq(x))
    def dec_expr(self, hexs, sb):
        return "oval val_attrinfo (dec_attrinfo %s %s)" % (csb(sb), cbytes(hexs))
    def proj(self, x):
        return [x["version"], x["flags"], x["heap"], x["btname"], x["maxcidx"], x["btorder"]]
    def shape(self, x):
        return "flags=%d,o=%d" % (x["flags"] & 3, x["_sb"]["o"])


class SymtabK(Kind):
    name = "symtab"
    imports = "Model.CodecMsg Model.CodecLink"
    uses_sb = True

    def gen(self, rng, i):
        return dict(_sb=dict(v=0, o=8, l=8, be=False), btree=pick_u64(rng), heap=pick_u64(rng))
    def coq(self, x):
        return "{| st_btree := %s; st_heap := %s |}" % (cn(x["btree"]), cn(x["heap"]))
    def enc_expr(self, x):
        return "enc_symtab %d %s" % (x["_sb"]["o"], self.coq(x))
    def wf_expr(self, x):
        return "wf_symtab " + self.coq(x)
    def dec_expr(self, hexs, sb):
        return "oval val_symtab (dec_symtab %s %s)" % (csbe(sb), cbytes(hexs))
    def proj(self, x):
        return [x["btree"], x["heap"]]
    def shape(self, x):
        return "o=%d" % x["_sb"]["o"]


def greedy_dt(rng):
    cls = rng.choice([3, 3, 7, 5])
    if cls == 3:
        return {"class": 3, "version": 1, "size": rng.choice([1, 8, 100]), "cbf": rng.choice([0, 1, 0x11]), "props": "00"}
    if cls == 7:
        return {"class": 7, "version": 1, "size": 8, "cbf": 0, "props": ""}
    return {"class": 5, "version": 1, "size": 16, "cbf": 8, "props": rbytes(rng, 8, True).hex()}


def sd_leaf(rng):
    """a leaf member type whose end the decoder finds: fixed-point, float, bitfield (4 property bytes), time (2)"""
    r = rng.random()
    if r < 0.08:
        return {"class": 4, "version": 1, "size": rng.choice([1, 4]), "cbf": rng.choice([0, 1]), "props": rbytes(rng, 4).hex()}
    if r < 0.14:
        return {"class": 2, "version": 1, "size": 4, "cbf": 0, "props": rbytes(rng, 2).hex()}
    cls, size, cbf = gen_simple_dt(rng)
    return {"class": cls, "version": 1, "size": size, "cbf": cbf, "props": py_numeric_props(cls, size, cbf).hex()}


def py_member_hdr(dt):
    return (le(4, dt["class"] | (dt["version"] << 4) | ((dt["cbf"] << 8) & 0xFFFFFFFF)) + le(4, dt["size"])
            + bytes.fromhex(dt["props"]))


def tree_flat_dt(t):
    """member type of a tree node -> the DatatypeMessage (dict) handed to the Go encoder"""
    if "leaf" in t:
        return t["leaf"]
    c = t["comp"]
    fs = [dict(name=f["name"], offset=f["offset"], dt=tree_flat_dt(f["t"])) for f in c["fields"]]
    out = b"" if c["version"] == 1 else le(4, len(fs))
    for f in fs:
        nm = bytes.fromhex(f["name"])
        if c["version"] == 1:
            out += nm + bytes((len(nm) + 8) // 8 * 8 - len(nm)) + le(4, f["offset"]) + bytes(28) + py_member_hdr(f["dt"])
        else:
            out += nm + b"\0" + le(4, f["offset"]) + py_member_hdr(f["dt"])
    return {"class": 6, "version": c["version"], "size": c["size"], "cbf": len(fs) if c["version"] == 1 else 0, "props": out.hex()}


def gen_tree(rng, ver, depth, sd_only, n=None):
    """a compound tree in the grammar of wf_ctype: every member but the last self-delimiting (fixed-point / float /
    bitfield / time leaf, or a version-3 compound of such members); the last member anything well-formed unless sd_only"""
    n = n or rng.choice([1, 1, 2, 3, 3, 4, 8] if depth == 0 else [1, 2, 3])
    fields, off = [], 0
    for k in range(n):
        nl = rng.choice([1, 1, 2, 6, 7, 8, 9, 15, 16, 17, 40])
        last = (k == n - 1)
        r = rng.random()
        if depth < 2 and r < 0.2:
            t = dict(comp=gen_tree(rng, 3, depth + 1, sd_only or not last))
        elif last and not sd_only and depth < 2 and r < 0.3:
            t = dict(comp=gen_tree(rng, 1, depth + 1, False))
        elif last and not sd_only and r < 0.55:
            t = dict(leaf=greedy_dt(rng))
        else:
            t = dict(leaf=sd_leaf(rng))
        fields.append(dict(name=rbytes(rng, nl, nonzero=True).hex(), offset=(off & 0xFFFFFFFF) if rng.random() < 0.9 else pick_u32(rng), t=t))
        off += tree_flat_dt(t)["size"] if depth == 0 else rng.choice([1, 4, 8])
    return dict(version=ver, size=rng.choice([off or 1, off or 1, 1, (1 << 32) - 1]) & 0xFFFFFFFF or 1, fields=fields)


class CompoundK(Kind):
    """compound datatypes as trees (Model/CodecCompoundTree.v): theorem C11_compound_roundtrip"""
    name = "compound"
    imports = "Model.CodecType Model.CodecCompound Model.CodecCompoundTree"
    greedy_inside = False

    def __init__(self):
        self.dtk = DatatypeK()

    def gen(self, rng, i):
        ver = 3 if i % 3 else 1
        tree = gen_tree(rng, ver, 0, False, n=[1, 2, 16][i] if i < 3 else None)
        if self.greedy_inside:
            fs = tree["fields"]
            fs.insert(rng.randrange(0, len(fs)), dict(name=rbytes(rng, 3, True).hex(), offset=0, t=dict(leaf=greedy_dt(rng))))
        return self.of_tree(tree)

    def of_tree(self, tree):
        return dict(version=tree["version"], size=tree["size"], _tree=tree,
                    fields=[dict(name=f["name"], offset=f["offset"], dt=tree_flat_dt(f["t"])) for f in tree["fields"]])

    def invalid(self, rng):
        ok = self.gen(rng, 1)["_tree"]
        return [self.of_tree(dict(ok, fields=[])), self.of_tree(dict(ok, size=0)),
                self.of_tree(dict(ok, fields=[dict(ok["fields"][0], name="")]))]

    def coq_fields(self, fs):
        out = "CNil"
        for f in reversed(fs):
            out = "(CCons %s %s %s %s)" % (cbytes(f["name"]), cn(f["offset"]), self.coq_t(f["t"]), out)
        return out
    def coq_t(self, t):
        if "leaf" in t:
            return "(CLeaf %s)" % self.dtk.coq(t["leaf"])
        c = t["comp"]
        return "(CComp %d %s %s)" % (c["version"], cn(c["size"]), self.coq_fields(c["fields"]))
    def coq(self, x):
        t = x["_tree"]
        return "%d %s %s" % (t["version"], cn(t["size"]), self.coq_fields(t["fields"]))
    def enc_expr(self, x):
        return "enc_compound (to_compound %s)" % self.coq(x)
    def encok_expr(self, x):
        return "encok_compound (to_compound %s)" % self.coq(x)
    def wf_expr(self, x):
        return "wf_ctype (CComp %s)" % self.coq(x)
    def dec_expr(self, hexs, sb):
        return "oval val_compound' (dec_compound %s)" % cbytes(hexs)
    def proj(self, x):
        ms = [[f["name"], f["offset"], [f["dt"]["class"], f["dt"]["version"], f["dt"]["size"], f["dt"]["cbf"], f["dt"]["props"]]] for f in x["fields"]]
        return [x["version"], len(x["fields"]) if x["version"] == 1 else 0, x["size"], ms]
    def shape(self, x):
        return "v=%d,n=%d,classes=%s" % (x["version"], len(x["fields"]), "".join(str(f["dt"]["class"]) for f in x["fields"]))


class CompoundTreeK(CompoundK):
    """the same values read back recursively (ParseCompoundType on every member of class compound, as the dataset
    reader does): theorem C11_compound_nested_roundtrip"""
    name = "compoundtree"
    label = "compound_nested"
    n_quick = 80

    def invalid(self, rng):
        return []
    def dec_expr(self, hexs, sb):
        return "oval val_ctype (dec_compound_tree %s)" % cbytes(hexs)
    def proj_t(self, t):
        if "leaf" in t:
            d = t["leaf"]
            return [0, [d["class"], d["version"], d["size"], d["cbf"], d["props"]]]
        c = t["comp"]
        return [1, c["version"], c["size"], [[f["name"], f["offset"], self.proj_t(f["t"])] for f in c["fields"]]]
    def proj(self, x):
        return self.proj_t(dict(comp=x["_tree"]))
    def shape(self, x):
        def d(t):
            return 0 if "leaf" in t else 1 + max(d(f["t"]) for f in t["comp"]["fields"])
        return "v=%d,n=%d,depth=%d" % (x["version"], len(x["fields"]), d(dict(comp=x["_tree"])))


class CompoundGreedy(CompoundK):
    """a member of a class whose extent the decoder cannot determine (string, reference, opaque) before the last
    member: the model's wf_ctype must reject every such value"""
    label = "compound_greedy_member"
    greedy_inside = True
    n_quick = 80
    def invalid(self, rng):
        return []
    def wf_expr(self, x):
        return "negb (wf_ctype (CComp %s))" % self.coq(x)


class ArrayK(Kind):
    name = "array"
    imports = "Model.CodecType Model.CodecCompound"

    def gen(self, rng, i):
        base = py_enc_simple_dt(*gen_simple_dt(rng, classes=(0, 1, 3)))
        rank = [1, 2, 3, 32, 255][i] if i < 5 else rng.choice([1, 1, 2, 3, 4])
        return dict(base=base.hex(), dims=[pick_u32(rng) for _ in range(rank)], size=pick_u32(rng))
    def invalid(self, rng):
        ok = self.gen(rng, 10)
        return [dict(ok, dims=[]), dict(ok, base=""), dict(ok, dims=[1 << 32]), dict(ok, dims=[1] * 256)]
    def coq(self, x):
        return "{| ar_base := %s; ar_dims := %s; ar_size := %s |}" % (cbytes(x["base"]), cNl(x["dims"]), cn(x["size"]))
    def enc_expr(self, x):
        return "enc_array " + self.coq(x)
    def encok_expr(self, x):
        return "encok_array " + self.coq(x)
    def wf_expr(self, x):
        return "wf_array " + self.coq(x)
    def dec_expr(self, hexs, sb):
        return "oval val_datatype (dec_datatype %s)" % cbytes(hexs)
    def proj(self, x):
        props = bytes([len(x["dims"])]) + b"".join(le(4, d) for d in x["dims"]) + bytes.fromhex(x["base"])
        return [10, 3, x["size"], 0, props.hex()]
    def shape(self, x):
        return "rank=%d" % len(x["dims"])


class EnumK(Kind):
    name = "enum"
    imports = "Model.CodecType Model.CodecCompound"

    def gen(self, rng, i):
        es = rng.choice([1, 2, 4, 8])
        base = py_enc_simple_dt(0, es, 8)
        n = rng.choice([1, 2, 3, 5, 16])
        names = [rbytes(rng, rng.choice([0, 1, 6, 7, 8, 9, 15, 16, 30]), nonzero=True).hex() for _ in range(n)]
        values = rbytes(rng, n * es + rng.choice([0, 0, 3]))
        return dict(base=base.hex(), names=names, values=values.hex(), size=es)
    def invalid(self, rng):
        ok = self.gen(rng, 0)
        return [dict(ok, names=[]), dict(ok, base=""), dict(ok, values="")]
    def coq(self, x):
        return "{| en_base := %s; en_names := %s; en_values := %s; en_size := %d |}" % (
            cbytes(x["base"]), cl(cbytes(n) for n in x["names"]), cbytes(x["values"]), x["size"])
    def enc_expr(self, x):
        return "enc_enum " + self.coq(x)
    def encok_expr(self, x):
        return "encok_enum " + self.coq(x)
    def wf_expr(self, x):
        return "wf_enum " + self.coq(x)
    def dec_expr(self, hexs, sb):
        return "oval val_datatype (dec_datatype %s)" % cbytes(hexs)
    def proj(self, x):
        es, vals = x["size"], bytes.fromhex(x["values"])
        props = bytes.fromhex(x["base"])
        for i, n in enumerate(x["names"]):
            nm = bytes.fromhex(n)
            nl = len(nm) + 1
            props += nm + bytes((nl + 7) // 8 * 8 - len(nm)) + vals[i * es:(i + 1) * es]
        return [8, 3, es, len(x["names"]), props.hex()]
    def shape(self, x):
        return "n=%d,es=%d" % (len(x["names"]), x["size"])


class FilterPipeK(Kind):
    name = "filterpipe"
    imports = "Model.CodecFilter"
    NAMES = [b"", b"deflate", b"shuffle", b"fletcher32", b"lzf", b"12345678", b"123456789", b"x" * 16, b"y" * 255]

    def gen(self, rng, i):
        n = [1, 1, 2, 3, 255][i] if i < 5 else rng.choice([1, 1, 2, 2, 3, 4, 6])
        fs = []
        for _ in range(n):
            nm = rng.choice(self.NAMES) if rng.random() < 0.8 else rbytes(rng, rng.randint(1, 20), nonzero=True)
            if n > 20:
                nm = nm[:8]
            cd = [pick_u32(rng) for _ in range(rng.choice([0, 0, 1, 1, 2, 3, 4, 7]))]
            fs.append(dict(id=rng.choice([1, 2, 3, 4, 5, 6, 307, 32000, 255, 256, 65535]), name=nm.hex(),
                           flags=rng.choice([0, 1, 0xFF, 0xFFFF]), cd=cd))
        return dict(filters=fs)

    def go(self, x):
        return x["filters"]
    def invalid(self, rng):
        return [dict(filters=[])]
    def coq(self, x):
        return cl("{| wf_id := %d; wf_name := %s; wf_flags := %d; wf_cd := %s |}" % (f["id"], cbytes(f["name"]), f["flags"], cNl(f["cd"]))
                  for f in x["filters"])
    def enc_expr(self, x):
        return "enc_pipeline " + self.coq(x)
    def encok_expr(self, x):
        return "encok_pipeline " + self.coq(x)
    def wf_expr(self, x):
        return "wf_pipeline " + self.coq(x)
    def dec_expr(self, hexs, sb):
        # the variant of the version 2 filter name switch that the source tree under test implements (tools/props/c06switch.py)
        return "oval val_pipeline' (dec_pipeline_gen %s %s)" % (c06switch.cb(c06switch.pipeline()), cbytes(hexs))
    def proj(self, x):
        fs = [[f["id"], len(f["name"]) // 2, f["flags"], len(f["cd"]), f["name"], [list(f["cd"])] if f["cd"] else []] for f in x["filters"]]
        return [2, len(fs), fs]
    def shape(self, x):
        return "n=%d" % len(x["filters"])


KINDS = [Dataspace(), Layout(), DatatypeK(), DatatypeVlen(), AttributeK(), SuperblockK(), OhdrV2(), OhdrV1(), OhdrV1ContK(), OhdrContK(),
         LinkK(), Link2K(), LinkInfoK(), AttrInfoK(), SymtabK(), CompoundK(), CompoundTreeK(), CompoundGreedy(), ArrayK(), EnumK(), FilterPipeK()]

# kinds whose encoder/decoder pair is known not to round-trip: id of the KNOWN_FINDINGS entry
KNOWN_ROUNDTRIP = {"ohdr_v1": "C11-ohdr-v1-size-field",            # only when the probe finds the unrepaired size field
                   "compound_greedy_member": "C11-compound-member-extent"}


# ------------------------------------------------------------------------------------------------ malformed stream
def mutations(rng, h, n_trunc, n_flip, focus=0):
    b = bytes.fromhex(h)
    out = []
    L = len(b)
    cuts = {0, 1, 2, 3, 4, 7, 8, 9, L - 1, L - 2, L - 4, L - 8}
    cuts = sorted(c for c in cuts if 0 <= c < L)
    rng.shuffle(cuts)
    for c in cuts[:n_trunc]:
        out.append(("trunc", b[:c].hex()))
    for _ in range(max(0, n_trunc - len(cuts))):
        out.append(("trunc", b[:rng.randrange(0, L)].hex()) if L else ("trunc", ""))
    for _ in range(n_flip):
        if L == 0:
            break
        # header bytes carry the structure: bias towards the first 16 bytes
        pos = min(L - 1, focus + rng.randrange(0, 16)) if rng.random() < 0.7 else rng.randrange(0, L)
        nb = bytearray(b)
        r = rng.random()
        if r < 0.4:
            nb[pos] ^= 1 << rng.randrange(8)
        elif r < 0.7:
            nb[pos] = rng.choice([0, 1, 2, 3, 4, 0x7F, 0x80, 0xFF])
        else:
            nb[pos] = rng.randrange(256)
        if bytes(nb) != b:
            out.append(("flip", bytes(nb).hex()))
    if rng.random() < 0.1:
        out.append(("extend", (b + bytes(rng.randrange(256) for _ in range(rng.choice([1, 4, 8])))).hex()))
    return out


def goval(v):
    """Go's decoder result -> (class, canonical VAL for Coq)"""
    c = v["c"]
    if c == "ok":
        return [0, v["v"]]
    return [1] if c == "err" else [2]


def run(ctx):
    H, rng = ctx.harness, ctx.rng
    quick = ctx.tier != "thorough"
    n_values = 160 if quick else 20000
    n_mal_src = 50 if quick else 4000        # valid encodings that seed the malformed stream
    n_trunc, n_flip = (2, 4) if quick else (3, 5)
    viol, known, samples = [], [], []
    cov_kinds = {}
    evaluations = 0
    distinct = 0
    c07 = []
    all_exprs = []
    kf = {k["id"]: k for k in vlib.known_findings("C11")}

    for K in KINDS:
        K.label = K.label or K.name
        K.probe(H)
        vals = [K.gen(rng, i) for i in range(K.n_quick if (quick and K.n_quick) else n_values)]
        inval = K.invalid(rng)
        cases = [dict(kind=K.name, val=K.go(x), sb=x.get("_sb")) for x in vals + inval]
        res = vlib.run_harness(H, "c11", cases)
        hist = {}
        encs = set()
        exprs = []       # (label, Coq bool expr, payload for reporting)
        rt_bad = []
        for vi, (x, r) in enumerate(zip(vals, res[:len(vals)])):
            hist[K.shape(x)] = hist.get(K.shape(x), 0) + 1
            if "harness_error" in r or "panic" in r:
                raise RuntimeError("harness failure on %s: %r" % (K.label, r))
            if r.get("encerr"):
                viol.append(dict(what="%s: encoder refused / crashed on a well-formed value: %s" % (K.label, r["encerr"]),
                                 failing_input=dict(kind=K.name, value=K.go(x), sb=x.get("_sb")), impl=r))
                continue
            encs.add(r["enc"])
            # gate 3: determinism
            if r["enc"] != r["enc2"]:
                viol.append(dict(what="%s: encoding the same value twice gives different bytes" % K.label,
                                 failing_input=dict(kind=K.name, value=K.go(x), sb=x.get("_sb")), impl=r))
            # gate 2: round trip, python oracle
            want = [0, K.proj(x)]
            got = goval(r["dec"])
            if not K.rt_ok(x, got):
                rt_bad.append((x, r, want, got))
            if K.no_model:
                continue
            # gate 1: bytes vs model, and wf must hold for every generated value
            exprs.append(("enc", "bytes_eqb (%s) %s" % (K.enc_expr(x), cbytes(r["enc"])), (x, r)))
            if K.wf_expr(x):
                exprs.append(("wf", K.wf_expr(x), (x, r)))
            # model decoder on the Go bytes gives the Go decoder's result
            if vi % K.dec_every == 0:
                exprs.append(("dec", "val_eqb (%s) %s" % (K.dec_expr(r["enc"], x.get("_sb")), cval(got)), (x, r)))
        for x, r in zip(inval, res[len(vals):]):
            if K.encok_expr(x):
                go_ok = not r.get("encerr")
                exprs.append(("encok", "Bool.eqb (%s) %s" % (K.encok_expr(x), "true" if go_ok else "false"), (x, r)))
        if rt_bad:
            x, r, want, got = rt_bad[0]
            kid = KNOWN_ROUNDTRIP.get(K.label)
            if kid and kid in kf:
                known.append("%s: Parse(Encode(x)) != x for %d/%d values, e.g. %s (%s)" % (
                    K.label, len(rt_bad), len(vals), json.dumps(K.go(x))[:120], kid))
            else:
                viol.append(dict(what="%s: decoding the encoded bytes does not give the value back (%d of %d values)%s" % (
                    K.label, len(rt_bad), len(vals), K.where(x)),
                    failing_input=dict(kind=K.name, value=K.go(x), sb=x.get("_sb")),
                    encoded=r.get("enc"), decoded=got, expected=want))
        # malformed stream
        srcs = [(x, r) for x, r in zip(vals, res[:len(vals)]) if r.get("enc") is not None and len(r["enc"]) <= 400][:0 if K.no_model else n_mal_src]
        mal = []
        skipped_mal = 0
        for x, r in srcs:
            for how, hx in mutations(rng, r["enc"], n_trunc, n_flip, K.focus(x)):
                if K.skip_malformed(hx):
                    skipped_mal += 1
                    continue
                mal.append((x, how, hx))
            for how, hx in K.extra_malformed(rng, x, r):
                mal.append((x, how, hx))
        mres = vlib.run_harness(H, "c11", [dict(kind=K.name, raw=hx, sb=x.get("_sb")) for x, how, hx in mal]) if mal else []
        mclass = {}
        for (x, how, hx), r in zip(mal, mres):
            d = r["raw"]
            mclass[d["c"]] = mclass.get(d["c"], 0) + 1
            if d["c"] == "ok" and d["v"] == ["636f6e74"]:
                mclass["outside_model"] = mclass.get("outside_model", 0) + 1
                continue
            if d["c"] == "panic" and K.panic_not_modelled:
                if len(c07) < 40:
                    c07.append(dict(kind=K.label, raw=hx, sb=x.get("_sb"), panic=d.get("e")))
                continue
            if d["c"] == "panic" and len(c07) < 40:
                c07.append(dict(kind=K.name, raw=hx, sb=x.get("_sb"), panic=d.get("e")))
            exprs.append(("mal", "val_eqb (%s) %s" % (K.dec_expr(hx, x.get("_sb")), cval(goval(d))), (dict(raw=hx, sb=x.get("_sb"), how=how), d)))
        all_exprs.append((K, exprs, rt_bad))
        evaluations += len(exprs)
        distinct += len(encs)
        cov_kinds[K.label] = dict(values=len(vals), distinct_encodings=len(encs), invalid_values=len(inval),
                                 malformed=len(mal), malformed_skipped_nondeterministic=skipped_mal, model_variant=getattr(K, 'repaired', None), malformed_outcomes=mclass, coq_checks=len(exprs),
                                 shapes=dict(sorted(hist.items(), key=lambda kv: -kv[1])[:12]), n_shapes=len(hist))
        if vals:
            samples.append(dict(kind=K.name, value=K.go(vals[0]), sb=vals[0].get("_sb"), enc=res[0].get("enc"), dec=res[0].get("dec")))

    # ---- evaluate every collected boolean in Coq (vm_compute), many coqc processes in parallel:
    # the Coq front end reads roughly 10 kB of term text per second and core
    jobs = []          # (kind index, first expr index, text)
    for ki, (K, exprs, _) in enumerate(all_exprs):
        k = 0
        while k < len(exprs):
            size, j = 0, k
            while j < len(exprs) and size < 36000 and j - k < 300:
                size += len(exprs[j][1])
                j += 1
            nm = "c_%s_%d" % (K.label, k)
            text = (HDR % K.imports) + "Definition %s : list bool := [%s].\n" % (nm, ";\n".join(e[1] for e in exprs[k:j])) + \
                "Definition bad_%s := Eval vm_compute in mismatches id_bool %s.\nPrint bad_%s.\n" % (nm, nm, nm)
            jobs.append((ki, k, "bad_" + nm, text))
            k = j
    import concurrent.futures as cf
    with cf.ThreadPoolExecutor(max_workers=min(16, max(1, (os.cpu_count() or 4)))) as ex:
        outs = list(ex.map(lambda jb: vlib.coq_eval(jb[3], "c11_%d_%d" % (jb[0], jb[1])), jobs))
    bad_by_kind = {}
    for (ki, k, lab, _), out in zip(jobs, outs):
        bad_by_kind.setdefault(ki, []).extend(k + i for i in vlib.parse_nlist(out, lab))
    for ki, (K, exprs, rt_bad) in enumerate(all_exprs):
        bad = bad_by_kind.get(ki, [])
        by = {}
        for i in bad:
            by.setdefault(exprs[i][0], []).append(i)
        for what, idx in by.items():
            lab, expr, (x, r) = exprs[idx[0]]
            if what == "mal":
                viol.append(dict(what="%s: decoder outcome on a malformed message differs from the model (%d cases)" % (K.label, len(idx)),
                                 nofail=True, correspondence="Model dec_%s vs Go parser on malformed bytes" % K.label,
                                 case=x, impl=r, coq_expr=expr[:2000]))
            elif what == "encok":
                viol.append(dict(what="%s: the encoder's argument check differs from the model (%d cases)" % (K.label, len(idx)),
                                 nofail=True, correspondence="Model encok_%s" % K.label, case=K.go(x), impl=r, coq_expr=expr[:2000]))
            else:
                kid = KNOWN_ROUNDTRIP.get(K.label)
                if kid and kid in kf and what != "wf":
                    continue
                v = dict(what="%s: implementation and Coq model disagree on %s (%d cases)" % (K.label, what, len(idx)),
                         case=dict(kind=K.name, value=K.go(x), sb=x.get("_sb")), impl=r, coq_expr=expr[:2000])
                if not rt_bad:
                    # the Go round trip holds on every generated value (Python oracle): model != implementation only
                    v["nofail"] = True
                    v["correspondence"] = "Model enc_%s / dec_%s vs Go; theorem C11_%s_roundtrip" % (K.label, K.label, K.label)
                else:
                    v["failing_input"] = dict(kind=K.name, value=K.go(rt_bad[0][0]), sb=rt_bad[0][0].get("_sb"))
                viol.append(v)

    cov = dict(evaluations=evaluations, distinct_nontrivial=distinct,
               rule="per element kind: generated well-formed values (boundary pools for ranks, sizes, name lengths, field widths); "
                    "each value is encoded twice by the Go encoder, decoded by the Go decoder, and the bytes / decoded value are compared "
                    "with the Coq model (vm_compute) and with an independent Python projection; distinct = distinct encodings; "
                    "plus truncations and single-byte changes of valid encodings through both decoders",
               samples=samples[:8], kinds=cov_kinds,
               c07_panics_observed=c07[:20], c07_panics_count=len(c07),
               programs=len(KINDS), disagreements_checked=evaluations)
    return dict(violations=viol, known=known, coverage=cov)
