"""C07 model-level tie: the Go functions transcribed in Model/RobustAlloc.v and Model/RobustTerm.v are run (verifharness c07)
on generated file images; outcome class and value must equal the Coq model's (vm_compute), any Go panic gates, and the bytes the
Go call allocated must stay below (k + 18) * |file| + 64 KiB for the k of the corresponding alloc_bounded theorem."""
import collections
import vlib
from props import c11

HDR = "From HV Require Import Base.Prelude Base.Outcome Base.Bytes Model.CodecTie Model.RobustAlloc Model.RobustTerm.\n"
U = (1 << 64) - 1
UNDEF = b"\xff" * 8


def le(v, w):
    return (v % (1 << (8 * w))).to_bytes(w, "little")


def cn(x):
    return c11.cn(x)


def goval(r):
    if r["c"] == "ok":
        return [0, list(r["v"])]
    return [1] if r["c"] == "err" else [2]


def pick(rng, n):
    return rng.choice([0, 1, 2, 7, 8, n - 1 if n else 0, n, n + 1, n + 8, 255, 65535, 1 << 31, (1 << 32) - 1, 1 << 32, (1 << 63) - 1, 1 << 63, (1 << 63) + 1, U - 1, U,
                       rng.randrange(0, max(1, 2 * n + 2))])


OKN = "(fun n => vlistN [n])"
OKLEN = "(fun b => vlistN [blen b])"


# ------------------------------------------------------------------------------------------------ v1 header graphs
def v1_image(blocks, first_addr, hdr_addr):
    """blocks: {addr: [("fill",) | ("cont", target, size)]}; the first block follows the 16-byte prefix at hdr_addr"""
    def enc(msgs):
        out = b""
        for m in msgs:
            if m[0] == "fill":
                out += le(0x12, 2) + le(8, 2) + b"\0\0\0\0" + b"\x01" + b"\0" * 7
            else:
                out += le(0x10, 2) + le(16, 2) + b"\0\0\0\0" + le(m[1], 8) + le(m[2], 8)
        return out
    size = lambda msgs: sum(16 if m[0] == "fill" else 24 for m in msgs)
    end = max([hdr_addr + 16 + size(blocks[first_addr])] + [a + size(ms) for a, ms in blocks.items()])
    img = bytearray(end)
    fb = blocks[first_addr]
    img[hdr_addr:hdr_addr + 16] = bytes([1, 0]) + le(len(fb), 2) + le(1, 4) + le(size(fb), 4) + b"\0" * 4
    for a, ms in blocks.items():
        b = enc(ms)
        img[a:a + len(b)] = b
    return bytes(img), size


def v1_cases(rng):
    """-> list of (image, hdr_addr, coq graph text, first addr)"""
    out = []
    H = 8
    F = H + 16

    def mk(blocks, extra_conts=None):
        sizes = {a: sum(16 if m[0] == "fill" else 24 for m in ms) for a, ms in blocks.items()}
        fixed = {a: [(m if m[0] == "fill" else ("cont", m[1], sizes.get(m[1], 48))) for m in ms] for a, ms in blocks.items()}
        img, _ = v1_image(fixed, F, H)
        graph = "[" + ";".join("(%d, (%d, [%s]))" % (a, len(ms), ";".join(str(m[1]) for m in ms if m[0] == "cont")) for a, ms in fixed.items()) + "]"
        out.append((img, H, graph, F))

    fill = ("fill",)
    c = lambda t: ("cont", t, 0)
    mk({F: [fill, fill]})
    mk({F: [fill, c(F)]})                                        # continuation into its own block
    mk({F: [fill, c(200)], 200: [fill, c(F)]})                   # back to the first block
    mk({F: [c(200)], 200: [fill, c(400)], 400: [c(200)]})        # two blocks continuing into each other
    mk({F: [c(200), c(200)], 200: [fill]})                       # one block referenced twice
    mk({F: [c(200), c(400)], 200: [fill, c(600)], 400: [c(600)], 600: [fill]})   # diamond
    mk({F: [fill, c(5000)]})                                     # target beyond the end of the file
    mk({F: [c(200)], 200: [c(200)]})                             # self loop one step away
    for n in (1, 2, 5, 17, 40):
        blocks = {F: [fill, c(200)]}
        for i in range(n):
            a = 200 + 100 * i
            blocks[a] = [fill] * rng.randrange(0, 3) + ([c(a + 100)] if i + 1 < n else [])
            if not blocks[a]:
                blocks[a] = [fill]
        mk(blocks)
        if n >= 5:
            b2 = dict(blocks)
            b2[200 + 100 * (n - 1)] = [fill, c(200 + 100 * rng.randrange(0, n))]      # the last block closes a cycle
            mk(b2)
    # the 16-bit message cap: 10 + 65520 messages pass, 10 + 65530 do not
    for tail in (65520, 65530):
        mk({F: [fill] * 9 + [c(400)], 400: [fill] * tail})
    return out


# ------------------------------------------------------------------------------------------------ chunk B-tree graphs
def bt_image(nodes, nd=1):
    """nodes: {addr: (level, [children])}"""
    ks = 8 + 8 * nd
    size = lambda kids: 24 + len(kids) * (ks + 8) + ks
    end = max(a + size(k) for a, (lv, k) in nodes.items())
    img = bytearray(end)
    for a, (lv, kids) in nodes.items():
        b = b"TREE" + bytes([1, lv]) + le(len(kids), 2) + UNDEF + UNDEF
        for i, k in enumerate(kids):
            b += le(4, 4) + le(0, 4) + le(i, 8) * nd + le(k, 8)
        b += le(0, 4) + le(0, 4) + le(len(kids), 8) * nd
        img[a:a + len(b)] = b
    return bytes(img)


def bt_cases(rng):
    out = []

    def mk(nodes, root):
        graph = "[" + ";".join("(%d, (%d, [%s]))" % (a, lv, ";".join(map(str, k))) for a, (lv, k) in nodes.items()) + "]"
        out.append((bt_image(nodes), root, graph, nodes[root]))

    mk({64: (0, [1000, 2000, 3000])}, 64)
    mk({64: (0, [])}, 64)
    mk({64: (1, [256, 512]), 256: (0, [1, 2]), 512: (0, [3])}, 64)
    mk({64: (1, [64])}, 64)                                      # child -> the node itself
    mk({64: (255, [64])}, 64)
    mk({64: (2, [256]), 256: (1, [64])}, 64)                     # child -> ancestor
    mk({64: (1, [256, 256]), 256: (0, [1])}, 64)                 # two pointers to one node
    mk({64: (2, [256, 512]), 256: (1, [768]), 512: (1, [768]), 768: (0, [9])}, 64)      # shared grandchild
    mk({64: (1, [256]), 256: (1, [512]), 512: (0, [1])}, 64)     # level does not decrease
    mk({64: (1, [256]), 256: (3, [])}, 64)
    mk({64: (1, [9000])}, 64)                                    # child beyond the end of the file
    nodes = {}
    for i in range(6):                                           # a chain of levels 5..0
        nodes[64 + 128 * i] = (5 - i, [64 + 128 * (i + 1)] if i < 5 else [7, 8, 9])
    mk(nodes, 64)
    for _ in range(6):                                           # random small DAGs / graphs
        n = rng.randrange(3, 8)
        addrs = [64 + 256 * i for i in range(n)]
        nodes = {}
        for i, a in enumerate(addrs):
            lv = rng.randrange(0, 4)
            kids = [rng.choice(addrs + [99999]) for _ in range(rng.randrange(0, 4))] if lv else [rng.randrange(1, 500) for _ in range(rng.randrange(0, 3))]
            nodes[a] = (lv, kids)
        mk(nodes, addrs[0])
    return out


def run_isolated(H, sub, gocases):
    """run_harness, but a Go fatal error (stack overflow, out of memory: the whole harness process dies) is attributed to the
    case that caused it: the batch is re-run case by case and the dying cases get class `fatal` with the runtime's message"""
    try:
        return vlib.run_harness(H, sub, gocases)
    except RuntimeError:
        import json, subprocess
        out = []
        for c in gocases:
            p = subprocess.run([H, sub], input=json.dumps(c) + "\n", capture_output=True, text=True, timeout=300)
            if p.returncode == 0 and p.stdout.strip():
                out.append(json.loads(p.stdout.splitlines()[0]))
            else:
                out.append(dict(c="fatal", e="Go fatal error, exit %d: %s" % (p.returncode, " | ".join(p.stderr.splitlines()[:3])[:400])))
        return out


# ------------------------------------------------------------------------------------------------ tie
def tie(ctx, viol, cov):
    H, rng = ctx.harness, ctx.rng
    quick = ctx.tier != "thorough"
    n = 60 if quick else 600
    cases = []      # (go case, coq val expr, kind, k for the allocation gate, file length)

    def rfile(m):
        return bytes(rng.randrange(256) for _ in range(rng.choice([0, 1, 2, 7, 8, 9, 16, 33, 64, m])))

    for _ in range(n):
        f = rfile(100)
        off, size = pick(rng, len(f)), pick(rng, len(f))
        cases.append((dict(k="readbytesat", file=f.hex(), off=off, size=size),
                      "oval %s (fst (read_bytes_at %s %s %s))" % (OKLEN, c11.cbytes(f.hex()), cn(off), cn(size)), "readbytesat", 1, len(f)))
    for _ in range(n):
        a, b = pick(rng, 64), pick(rng, 64)
        cases.append((dict(k="safemul", a=a, b=b), "oval %s (safe_multiply %s %s)" % (OKN, cn(a), cn(b)), "safemul", 0, 0))
    for _ in range(n):
        f = rfile(240)
        rank = rng.choice([1, 1, 2, 3])
        dims = [rng.choice([0, 1, 2, 3, 5, 8, len(f) // 8, len(f) // 4, len(f), 1 << 16, 1 << 32, 1 << 33, (1 << 63) + 1, 1 << 63, U, 1 << 31]) for _ in range(rank)]
        es, cls = rng.choice([4, 8]), rng.choice([0, 1])
        addr = rng.choice([0, 0, 1, 8, len(f), len(f) - 8 if len(f) >= 8 else 0, 1 << 63, U, pick(rng, len(f))])
        cases.append((dict(k="contig", file=f.hex(), dims=dims, es=es, cls=cls, addr=addr),
                      "oval %s (fst (contiguous_read %s %s %d %s))" % (OKN, c11.cbytes(f.hex()), c11.cNl(dims), es, cn(addr)), "contig", 8, len(f)))
    for _ in range(n):
        O, L = rng.choice([(8, 8), (8, 8), (4, 4), (2, 2), (8, 4), (4, 8), (8, 1)])
        pre = bytes(rng.randrange(256) for _ in range(rng.choice([0, 8, 24])))
        body = bytes(rng.randrange(1, 256) for _ in range(rng.choice([0, 8, 40])))
        n_total = len(pre) + 8 + 2 * L + O + len(body)
        dsize = rng.choice([len(body), len(body), 0, 1, len(body) + 1, n_total, pick(rng, n_total)]) % (1 << (8 * L))
        daddr = rng.choice([len(pre) + 8 + 2 * L + O, len(pre) + 8 + 2 * L + O, 0, pick(rng, n_total)]) % (1 << (8 * O))
        sig = b"HEAP" if rng.random() < 0.9 else b"HEAQ"
        f = pre + sig + b"\0\0\0\0" + le(dsize, L) + le(rng.choice([1, U]), L) + le(daddr, O) + body
        if rng.random() < 0.15:
            f = f[:rng.randrange(len(f))]
        addr = rng.choice([len(pre)] * 6 + [0, len(f), 1 << 63, U])
        cases.append((dict(k="lheap", file=f.hex(), addr=addr, o=O, l=L),
                      "oval %s (fst (local_heap_load %s %s %d %d))" % (OKN, c11.cbytes(f.hex()), cn(addr), O, L), "lheap", 1, len(f)))
    for _ in range(n):
        os_ = rng.choice([8, 8, 4])
        objs = b""
        for i in range(rng.randrange(0, 5)):
            d = bytes(rng.randrange(256) for _ in range(rng.choice([0, 1, 7, 8, 9, 24])))
            oid = rng.choice([i + 1, i + 1, 0])
            sz = rng.choice([len(d)] * 5 + [pick(rng, 64)]) % (1 << (8 * os_))
            objs += le(oid, 2) + le(1, 2) + b"\0\0\0\0" + le(sz, os_) + d + b"\0" * (-len(d) % 8)
        hs = 8 + os_
        pad = b"\0" * (-hs % 8)
        total = hs + len(pad) + len(objs)
        csize = rng.choice([total] * 6 + [hs, hs - 1, total + 1, total - 1, 0, pick(rng, total)]) % (1 << (8 * os_))
        pre = bytes(rng.randrange(256) for _ in range(rng.choice([0, 8])))
        f = pre + (b"GCOL" if rng.random() < 0.92 else b"GCOX") + bytes([rng.choice([1, 1, 1, 1, 0, 2]), 0, 0, 0]) + le(csize, os_) + pad + objs
        addr = rng.choice([len(pre)] * 6 + [0, len(f), U])
        if rng.random() < 0.1:
            os_ = rng.choice([2, 1, 16])
        cases.append((dict(k="gcol", file=f.hex(), addr=addr, os=os_),
                      "oval vlistN (fst (gcol_read %s %s %d))" % (c11.cbytes(f.hex()), cn(addr), os_), "gcol", 1, len(f)))
    for img, hdr, graph, first in v1_cases(rng):
        cases.append((dict(k="ohdr", file=img.hex(), addr=hdr),
                      "tres_val (fun p => vlistN [fst p]) (v1_header (assoc %s) (N.to_nat 70000) %d)" % (graph, first), "v1chain", 4, len(img)))
    for img, root, graph, (lv, kids) in bt_cases(rng):
        cases.append((dict(k="btree", file=img.hex(), addr=root, nd=1),
                      "tres_val (fun p => vlistN [fst p]) (bt_collect (assoc %s) 256 %d %s [])" % (graph, lv, c11.cNl(kids)), "btree", 4, len(img)))

    res = run_isolated(H, "c07", [c[0] for c in cases])
    hist = collections.Counter()
    exprs = []
    alloc_bad = []
    for (gc, expr, kind, k, flen), r in zip(cases, res):
        hist[(kind, r["c"])] += 1
        if r["c"] == "harness":
            raise RuntimeError("c07 harness: %s on %r" % (r.get("e"), {kk: vv for kk, vv in gc.items() if kk != "file"}))
        if r["c"] in ("panic", "fatal"):
            viol.append(dict(what="%s: Go %s: %s" % (kind, r["c"], (r.get("e") or "")[:300]), failing_input={kk: (vv if kk != "file" or len(vv) < 4000 else vv[:4000] + "...") for kk, vv in gc.items()}))
            continue
        # per-object bookkeeping (message structs, error values) is allowed 128 bytes per 8 bytes of image on top
        if r.get("alloc", 0) > (k + 2 + 16) * flen + 65536:
            alloc_bad.append((kind, r["alloc"], flen, gc))
        exprs.append((kind, "val_eqb (%s) %s" % (expr, c11.cval(goval(r))), gc, r))
    for kind, a, flen, gc in alloc_bad[:2]:
        viol.append(dict(what="%s allocated %d bytes for a %d-byte image (bound (k+18)*|file| + 64 KiB)" % (kind, a, flen),
                         failing_input={kk: (vv if kk != "file" or len(vv) < 4000 else vv[:4000] + "...") for kk, vv in gc.items()}))
    jobs = []
    k = 0
    while k < len(exprs):
        size, j = 0, k
        while j < len(exprs) and size < 40000 and j - k < 200:
            size += len(exprs[j][1])
            j += 1
        nm = "m_%d" % k
        text = HDR + "Definition %s : list bool := [%s].\nDefinition bad_%s := Eval vm_compute in mismatches id_bool %s.\nPrint bad_%s.\n" % (
            nm, ";\n".join(e[1] for e in exprs[k:j]), nm, nm, nm)
        jobs.append((k, "bad_" + nm, text))
        k = j
    import concurrent.futures as cf, os
    with cf.ThreadPoolExecutor(max_workers=min(8, os.cpu_count() or 4)) as ex:
        outs = list(ex.map(lambda jb: vlib.coq_eval(jb[2], "c07m_%d" % jb[0]), jobs))
    nbad = 0
    for (k0, lab, _), out in zip(jobs, outs):
        for b in vlib.parse_nlist(out, lab):
            kind, e, gc, r = exprs[k0 + b]
            nbad += 1
            if nbad <= 3:
                viol.append(dict(what="%s: the Go function and the Coq model (Model/Robust*.v) disagree" % kind, nofail=True,
                                 correspondence="Model.Robust* %s vs Go; theorems C07_*_%s" % (kind, kind),
                                 case={kk: (vv if kk != "file" or len(vv) < 3000 else vv[:3000] + "...") for kk, vv in gc.items()}, impl=r, coq_expr=e[:1500]))
    cov["model_level"] = dict(cases=len(exprs), mismatches=nbad, alloc_gate_failures=len(alloc_bad),
                              outcomes={"%s:%s" % kk: v for kk, v in sorted(hist.items())})
    return len(exprs)
