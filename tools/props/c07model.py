"""C07 model-level tie: the Go functions transcribed in Model/RobustAlloc.v and Model/RobustTerm.v are run (verifharness c07)
on generated file images; outcome class and value must equal the Coq model's (vm_compute), any Go panic gates, and the bytes the
Go call allocated must stay below (k + 18) * |file| + 64 KiB for the k of the corresponding alloc_bounded theorem."""
import collections
import vlib
from props import c11

HDR = ("From HV Require Import Base.Prelude Base.Outcome Base.Bytes Model.CodecTie Model.RobustAlloc Model.RobustTerm "
       "Model.RobustGroup Model.RobustDense Model.RobustConv.\nFrom HV Require Model.Filters.\n")
U = (1 << 64) - 1
UNDEF = b"\xff" * 8


def le(v, w):
    return (v % (1 << (8 * w))).to_bytes(w, "little")


def cn(x):
    return c11.cn(x)


def goval(r):
    if r["c"] == "ok":
        return [0, list(r["v"])]
    return [1] if r["c"] == "err" else [2]


def pick(rng, n):
    return rng.choice([0, 1, 2, 7, 8, n - 1 if n else 0, n, n + 1, n + 8, 255, 65535, 1 << 31, (1 << 32) - 1, 1 << 32, (1 << 63) - 1, 1 << 63, (1 << 63) + 1, U - 1, U,
                       rng.randrange(0, max(1, 2 * n + 2))])


OKN = "(fun n => vlistN [n])"
OKLEN = "(fun b => vlistN [blen b])"


# ------------------------------------------------------------------------------------------------ v1 header graphs
def v1_image(blocks, first_addr, hdr_addr):
    """blocks: {addr: [("fill",) | ("cont", target, size)]}; the first block follows the 16-byte prefix at hdr_addr"""
    def enc(msgs):
        out = b""
        for m in msgs:
            if m[0] == "fill":
                out += le(0x12, 2) + le(8, 2) + b"\0\0\0\0" + b"\x01" + b"\0" * 7
            else:
                out += le(0x10, 2) + le(16, 2) + b"\0\0\0\0" + le(m[1], 8) + le(m[2], 8)
        return out
    size = lambda msgs: sum(16 if m[0] == "fill" else 24 for m in msgs)
    end = max([hdr_addr + 16 + size(blocks[first_addr])] + [a + size(ms) for a, ms in blocks.items()])
    img = bytearray(end)
    fb = blocks[first_addr]
    img[hdr_addr:hdr_addr + 16] = bytes([1, 0]) + le(len(fb), 2) + le(1, 4) + le(size(fb), 4) + b"\0" * 4
    for a, ms in blocks.items():
        b = enc(ms)
        img[a:a + len(b)] = b
    return bytes(img), size


def v1_cases(rng):
    """-> list of (image, hdr_addr, coq graph text, first addr)"""
    out = []
    H = 8
    F = H + 16

    def mk(blocks, extra_conts=None):
        sizes = {a: sum(16 if m[0] == "fill" else 24 for m in ms) for a, ms in blocks.items()}
        fixed = {a: [(m if m[0] == "fill" else ("cont", m[1], sizes.get(m[1], 48))) for m in ms] for a, ms in blocks.items()}
        img, _ = v1_image(fixed, F, H)
        graph = "[" + ";".join("(%d, (%d, [%s]))" % (a, len(ms), ";".join(str(m[1]) for m in ms if m[0] == "cont")) for a, ms in fixed.items()) + "]"
        out.append((img, H, graph, F))

    fill = ("fill",)
    c = lambda t: ("cont", t, 0)
    mk({F: [fill, fill]})
    mk({F: [fill, c(F)]})                                        # continuation into its own block
    mk({F: [fill, c(200)], 200: [fill, c(F)]})                   # back to the first block
    mk({F: [c(200)], 200: [fill, c(400)], 400: [c(200)]})        # two blocks continuing into each other
    mk({F: [c(200), c(200)], 200: [fill]})                       # one block referenced twice
    mk({F: [c(200), c(400)], 200: [fill, c(600)], 400: [c(600)], 600: [fill]})   # diamond
    mk({F: [fill, c(5000)]})                                     # target beyond the end of the file
    mk({F: [c(200)], 200: [c(200)]})                             # self loop one step away
    for n in (1, 2, 5, 17, 40):
        blocks = {F: [fill, c(200)]}
        for i in range(n):
            a = 200 + 100 * i
            blocks[a] = [fill] * rng.randrange(0, 3) + ([c(a + 100)] if i + 1 < n else [])
            if not blocks[a]:
                blocks[a] = [fill]
        mk(blocks)
        if n >= 5:
            b2 = dict(blocks)
            b2[200 + 100 * (n - 1)] = [fill, c(200 + 100 * rng.randrange(0, n))]      # the last block closes a cycle
            mk(b2)
    # the 16-bit message cap: 10 + 65520 messages pass, 10 + 65530 do not
    for tail in (65520, 65530):
        mk({F: [fill] * 9 + [c(400)], 400: [fill] * tail})
    return out


# ------------------------------------------------------------------------------------------------ chunk B-tree graphs
def bt_image(nodes, nd=1):
    """nodes: {addr: (level, [children])}"""
    ks = 8 + 8 * nd
    size = lambda kids: 24 + len(kids) * (ks + 8) + ks
    end = max(a + size(k) for a, (lv, k) in nodes.items())
    img = bytearray(end)
    for a, (lv, kids) in nodes.items():
        b = b"TREE" + bytes([1, lv]) + le(len(kids), 2) + UNDEF + UNDEF
        for i, k in enumerate(kids):
            b += le(4, 4) + le(0, 4) + le(i, 8) * nd + le(k, 8)
        b += le(0, 4) + le(0, 4) + le(len(kids), 8) * nd
        img[a:a + len(b)] = b
    return bytes(img)


def bt_cases(rng):
    out = []

    def mk(nodes, root):
        graph = "[" + ";".join("(%d, (%d, [%s]))" % (a, lv, ";".join(map(str, k))) for a, (lv, k) in nodes.items()) + "]"
        out.append((bt_image(nodes), root, graph, nodes[root]))

    mk({64: (0, [1000, 2000, 3000])}, 64)
    mk({64: (0, [])}, 64)
    mk({64: (1, [256, 512]), 256: (0, [1, 2]), 512: (0, [3])}, 64)
    mk({64: (1, [64])}, 64)                                      # child -> the node itself
    mk({64: (255, [64])}, 64)
    mk({64: (2, [256]), 256: (1, [64])}, 64)                     # child -> ancestor
    mk({64: (1, [256, 256]), 256: (0, [1])}, 64)                 # two pointers to one node
    mk({64: (2, [256, 512]), 256: (1, [768]), 512: (1, [768]), 768: (0, [9])}, 64)      # shared grandchild
    mk({64: (1, [256]), 256: (1, [512]), 512: (0, [1])}, 64)     # level does not decrease
    mk({64: (1, [256]), 256: (3, [])}, 64)
    mk({64: (1, [9000])}, 64)                                    # child beyond the end of the file
    nodes = {}
    for i in range(6):                                           # a chain of levels 5..0
        nodes[64 + 128 * i] = (5 - i, [64 + 128 * (i + 1)] if i < 5 else [7, 8, 9])
    mk(nodes, 64)
    for _ in range(6):                                           # random small DAGs / graphs
        n = rng.randrange(3, 8)
        addrs = [64 + 256 * i for i in range(n)]
        nodes = {}
        for i, a in enumerate(addrs):
            lv = rng.randrange(0, 4)
            kids = [rng.choice(addrs + [99999]) for _ in range(rng.randrange(0, 4))] if lv else [rng.randrange(1, 500) for _ in range(rng.randrange(0, 3))]
            nodes[a] = (lv, kids)
        mk(nodes, addrs[0])
    return out


def run_isolated(H, sub, gocases):
    """run_harness, but a Go fatal error (stack overflow, out of memory: the whole harness process dies) is attributed to the
    case that caused it: the batch is re-run case by case and the dying cases get class `fatal` with the runtime's message"""
    try:
        return vlib.run_harness(H, sub, gocases)
    except RuntimeError:
        import json, subprocess
        out = []
        for c in gocases:
            p = subprocess.run([H, sub], input=json.dumps(c) + "\n", capture_output=True, text=True, timeout=300)
            if p.returncode == 0 and p.stdout.strip():
                out.append(json.loads(p.stdout.splitlines()[0]))
            else:
                out.append(dict(c="fatal", e="Go fatal error, exit %d: %s" % (p.returncode, " | ".join(p.stderr.splitlines()[:3])[:400])))
        return out



# ------------------------------------------------------------------------------------------------ group walk / dense / loops
def snod_bytes(entries, O, nsym=None, sig=b"SNOD", ver=1):
    """entries: list of (name, obj, cache, bt, heap)"""
    b = sig + bytes([ver, 0]) + le(len(entries) if nsym is None else nsym, 2)
    for (nm, ob, ct, bt, hp) in entries:
        b += le(nm, O) + le(ob, O) + le(ct, 4) + le(0, 4) + (le(bt, O) + le(hp, O) + b"\0" * 16)[:16]
    return b


def gnode_bytes(kids, O, used=None, ty=0, lv=0, sig=b"TREE"):
    b = sig + bytes([ty, lv]) + le(len(kids) if used is None else used, 2) + b"\xff" * (2 * O)
    for i, k in enumerate(kids):
        b += le(i, O) + le(k, O)
    return b + le(len(kids), O)


def amp_image(n, m, O=8):
    """one leaf node whose n child pointers all name one symbol table node of m entries"""
    a = 8 + 2 * O + 2 * O * n + O
    return gnode_bytes([a] * n, O) + snod_bytes([(0, 0, 0, 0, 0)] * m, O), a


def group_cases(rng, n, capped):
    out = []
    cap = "true" if capped else "false"

    def add_snod(f, addr, O):
        out.append((dict(k="snod", file=f.hex(), addr=addr, o=O), "snod_val (snod_parse %s %s %d)" % (c11.cbytes(f.hex()), cn(addr), O), "snod", (0, 9000000), len(f)))

    def add_gnode(f, addr, O, kind="gnode"):
        out.append((dict(k="gnode", file=f.hex(), addr=addr, o=O), "gwalk_val (group_btree_entries %s %s %s %d)" % (cap, c11.cbytes(f.hex()), cn(addr), O), kind, (4, 12000000), len(f)))

    for _ in range(n):
        O = rng.choice([8, 8, 8, 4, 2, 1])
        m = rng.choice([0, 1, 2, 3, 5, 33])
        mask = (1 << (8 * O)) - 1
        ents = [(rng.randrange(0, 64), rng.choice([0, 96, mask, rng.randrange(0, 1 << 16)]) & mask, rng.choice([0, 0, 1, 1, 2, 7]), rng.randrange(0, 1 << 16) & mask, rng.randrange(0, 256) & mask) for _ in range(m)]
        pre = bytes(rng.randrange(256) for _ in range(rng.choice([0, 8, 13])))
        body = snod_bytes(ents, O, nsym=rng.choice([None] * 5 + [m + 1, 65535, 0, 40]), sig=b"SNOD" if rng.random() < 0.92 else b"SNOE", ver=rng.choice([1] * 9 + [0, 2]))
        f = pre + body + bytes(rng.randrange(256) for _ in range(rng.choice([0, 0, 7, 40])))
        if rng.random() < 0.3:
            f = f[:rng.randrange(len(pre), len(f) + 1)]
        add_snod(f, rng.choice([len(pre)] * 6 + [0, len(f), len(f) - 1 if f else 0, 1 << 63, U]), O)
    for _ in range(n):
        O = rng.choice([8, 8, 8, 4, 2, 1])
        mask = (1 << (8 * O)) - 1
        nk = rng.choice([0, 1, 2, 3, 6])
        node_len = 8 + 2 * O + 2 * O * nk + O
        snods, kids, pos = b"", [], node_len
        for i in range(nk):
            m = rng.choice([0, 1, 2, 4])
            sb_ = snod_bytes([(rng.randrange(0, 32), rng.randrange(0, 1 << 8), rng.choice([0, 1]), rng.randrange(0, 200), rng.randrange(0, 200)) for _ in range(m)], O)
            kids.append(rng.choice([pos] * 6 + [0, mask, node_len, pos + 1, 1 << 20]) & mask)
            snods += sb_
            pos += len(sb_)
        node = gnode_bytes(kids, O, used=rng.choice([None] * 6 + [nk + 1, 65535, 0]), ty=rng.choice([0] * 9 + [1]), lv=rng.choice([0] * 9 + [1, 255]),
                           sig=b"TREE" if rng.random() < 0.93 else b"TREF")
        f = node + snods
        if rng.random() < 0.2:
            f = f[:rng.randrange(len(f) + 1)]
        add_gnode(f, rng.choice([0] * 7 + [1, len(f), U]), O)
    # repeated / overlapping child pointers: the unrepaired walk multiplies (children x entries)
    for (nn, mm) in ((1, 8), (2, 2), (3, 8), (8, 8), (40, 40)):
        f, _ = amp_image(nn, mm)
        add_gnode(f, 0, 8, kind="gnode-amp")
    # local heap string lookup
    for _ in range(n):
        d = bytes(rng.choice([0, 0, 65, 66, 255, rng.randrange(256)]) for _ in range(rng.choice([0, 1, 2, 8, 20])))
        off = rng.choice([0, 0, 1, len(d), len(d) - 1 if d else 0, len(d) + 1, 1 << 63, U, rng.randrange(0, len(d) + 2)])
        out.append((dict(k="hstr", file=d.hex(), off=off), "oval vlistN (heap_get_string %s %s)" % (c11.cbytes(d.hex()), cn(off)), "hstr", (1, 0), len(d)))
    return out


def attr_msg(name, payload):
    """version 3 attribute message: 1-byte unsigned integers, one dimension"""
    nm = name + b"\0"
    dt = bytes([0x10, 0, 0, 0]) + le(1, 4) + le(0, 2) + le(8, 2)
    ds = bytes([2, 1, 0, 1]) + le(len(payload), 8)
    return bytes([3, 0]) + le(len(nm), 2) + le(len(dt), 2) + le(len(ds), 2) + b"\0" + nm + dt + ds + payload


def dense_image(rng, nattr, O=8, L=8, mutate=True):
    """B-tree v2 header + leaf + fractal heap header + one direct block holding nattr attribute messages"""
    hos, hls = 4, 2
    objs = [attr_msg(b"a%d" % i, bytes(rng.randrange(256) for _ in range(rng.choice([1, 2, 5])))) for i in range(nattr)]
    bthd_at = 16
    leaf_at = bthd_at + 48
    leaf = b"BTLF" + bytes([0, 8])
    fh_at = leaf_at + 6 + 11 * nattr + 4 + 6
    db_at = fh_at + 160
    dbhdr = 5 + O + hos
    off = dbhdr
    ids = []
    for ob in objs:
        hid = bytes([0]) + le(off, hos) + le(len(ob), hls)
        ids.append(hid)
        leaf += le(rng.randrange(1 << 32), 4) + hid
        off += len(ob)
    leaf += b"\0" * 4
    bthd = b"BTHD" + bytes([0, 8]) + le(512, 4) + le(11, 2) + le(0, 2) + bytes([100, 40]) + le(leaf_at, O) + le(nattr, 2) + le(nattr, 8) + b"\0" * 4
    fh = bytearray(160)
    fh[0:4] = b"FRHP"
    fh[5:7] = le(7, 2)
    fh[10:14] = le(4096, 4)
    fh[112 + L:112 + 2 * L] = le(65536, L)
    fh[112 + 2 * L:114 + 2 * L] = le(32, 2)
    fh[132:132 + O] = le(db_at, O)
    db = b"FHDB" + b"\0" + le(fh_at, O) + le(0, hos) + b"".join(objs)
    img = bytearray(db_at + len(db) + 8)
    img[bthd_at:bthd_at + len(bthd)] = bthd
    img[leaf_at:leaf_at + len(leaf)] = leaf
    img[fh_at:fh_at + 160] = fh
    img[db_at:db_at + len(db)] = db
    return bytes(img), bthd_at, fh_at, ids


def dense_cases(rng, n):
    out = []
    for _ in range(n):
        nattr = rng.choice([0, 1, 2, 3, 5])
        img, bt, fh, ids = dense_image(rng, nattr)
        f = bytearray(img)
        r = rng.random()
        if r < 0.45 and len(f):
            for _ in range(rng.choice([1, 1, 2, 4])):
                f[rng.randrange(len(f))] = rng.choice([0, 1, 255, 0x7f, 0x80, rng.randrange(256)])
        elif r < 0.6:
            f = f[:rng.randrange(len(f) + 1)]
        f = bytes(f)
        O = rng.choice([8] * 8 + [4, 2])
        L = rng.choice([8] * 8 + [4, 2, 1])
        which = rng.randrange(3)
        if which == 0:
            a = rng.choice([bt] * 8 + [0, len(f), U, 1 << 63])
            out.append((dict(k="bt2", file=f.hex(), addr=a, o=O), "bt2_val %s %s %d" % (c11.cbytes(f.hex()), cn(a), O), "bt2", (1, 800000), len(f)))
        elif which == 1:
            hid = ids[rng.randrange(len(ids))] if ids else bytes(7)
            if rng.random() < 0.4:
                hid = bytes(rng.choice([0, 0x10, 0x20, 0xff, rng.randrange(256)]) if rng.random() < 0.3 else b for b in hid)
            a = rng.choice([fh] * 8 + [0, len(f), U])
            out.append((dict(k="fheap", file=f.hex(), addr=a, id=hid.hex(), o=O, l=L),
                        "fheap_val %s %s %s %d %d" % (c11.cbytes(f.hex()), cn(a), c11.cbytes(hid.hex()), O, L), "fheap", (1, 4096), len(f)))
        else:
            a, b = rng.choice([fh] * 8 + [0, 1, U]), rng.choice([bt] * 8 + [0, 1, len(f)])
            out.append((dict(k="dense", file=f.hex(), fh=a, bt=b, o=O, l=L),
                        "dense_val (dense_read %s %s %s %d %d)" % (c11.cbytes(f.hex()), cn(a), cn(b), O, L), "dense", (1, 800000), len(f)))
    return out


OPT = "(fun r => match fst r with Some o => oval (fun n => vlistN [n]) o | None => VL [VN 3] end)"


def loop_cases(rng, n):
    out = []
    for _ in range(n):
        raw = bytes(rng.randrange(256) for _ in range(rng.choice([0, 1, 4, 7, 8, 15, 16, 24, 40])))
        es, cls = rng.choice([(8, 1), (4, 1), (8, 0), (4, 0), (2, 0), (16, 1), (1, 0)])
        ne = rng.choice([0, 1, 2, len(raw) // 8, len(raw) // 4, len(raw), len(raw) + 1, 1 << 61, (1 << 61) + 1, 1 << 63, U])
        out.append((dict(k="convf", file=raw.hex(), es=es, cls=cls, n=ne), "%s (conv_float64 %s %d %s)" % (OPT, c11.cbytes(raw.hex()), es, cn(ne)), "convf", (8, 0), len(raw)))
        ss = rng.choice([0, 1, 2, 3, 8, len(raw), len(raw) + 1, 16777216, 16777217, (1 << 32) - 1])
        ne = rng.choice([0, 1, 2, 3, len(raw), len(raw) + 1, (len(raw) // ss) if ss else 1, 1 << 40, U])
        out.append((dict(k="convs", file=raw.hex(), es=ss, n=ne), "%s (conv_strings %s %s %s)" % (OPT, c11.cbytes(raw.hex()), cn(ss), cn(ne)), "convs", (16, 0), len(raw)))
    LZ = "(match Filters.lzf_decompress %s with Filters.Ok o => VL [VN 0; vlistN o] | Filters.Err => VL [VN 1] | Filters.Panic => VL [VN 2] | Filters.OutOfFuel => VL [VN 3] end)"
    for _ in range(n):
        parts = b""
        for _ in range(rng.randrange(0, 6)):
            t = rng.random()
            if t < 0.4:
                ln = rng.randrange(1, 33)
                parts += bytes([ln - 1]) + bytes(rng.randrange(256) for _ in range(ln))
            elif t < 0.7:
                parts += bytes([rng.randrange(32, 224), rng.choice([0, 0, 1, 3, 255])])
            elif t < 0.9:
                parts += bytes([rng.randrange(224, 256), rng.choice([0, 1, 255]), rng.choice([0, 0, 2, 255])])
            else:
                parts += bytes(rng.randrange(256) for _ in range(rng.randrange(1, 4)))
        if rng.random() < 0.25 and parts:
            parts = parts[:rng.randrange(len(parts))]
        out.append((dict(k="lzf", file=parts.hex()), LZ % c11.cbytes(parts.hex()), "lzf", (176 + 2200, 65536), len(parts)))
    # tightness of the 88x output bound: 2 + 3k input bytes give 1 + 264k output bytes
    parts = bytes([0, 65]) + bytes([224, 255, 0]) * 12
    out.append((dict(k="lzf", file=parts.hex()), LZ % c11.cbytes(parts.hex()), "lzf", (176 + 2200, 65536), len(parts)))
    return out


# ------------------------------------------------------------------------------------------------ tie
def tie(ctx, viol, cov):
    H, rng = ctx.harness, ctx.rng
    quick = ctx.tier != "thorough"
    n = 60 if quick else 600
    cases = []      # (go case, coq val expr, kind, k for the allocation gate, file length)

    def rfile(m):
        return bytes(rng.randrange(256) for _ in range(rng.choice([0, 1, 2, 7, 8, 9, 16, 33, 64, m])))

    for _ in range(n):
        f = rfile(100)
        off, size = pick(rng, len(f)), pick(rng, len(f))
        cases.append((dict(k="readbytesat", file=f.hex(), off=off, size=size),
                      "oval %s (fst (read_bytes_at %s %s %s))" % (OKLEN, c11.cbytes(f.hex()), cn(off), cn(size)), "readbytesat", 1, len(f)))
    for _ in range(n):
        a, b = pick(rng, 64), pick(rng, 64)
        cases.append((dict(k="safemul", a=a, b=b), "oval %s (safe_multiply %s %s)" % (OKN, cn(a), cn(b)), "safemul", 0, 0))
    for _ in range(n):
        f = rfile(240)
        rank = rng.choice([1, 1, 2, 3])
        dims = [rng.choice([0, 1, 2, 3, 5, 8, len(f) // 8, len(f) // 4, len(f), 1 << 16, 1 << 32, 1 << 33, (1 << 63) + 1, 1 << 63, U, 1 << 31]) for _ in range(rank)]
        es, cls = rng.choice([4, 8]), rng.choice([0, 1])
        addr = rng.choice([0, 0, 1, 8, len(f), len(f) - 8 if len(f) >= 8 else 0, 1 << 63, U, pick(rng, len(f))])
        cases.append((dict(k="contig", file=f.hex(), dims=dims, es=es, cls=cls, addr=addr),
                      "oval %s (fst (contiguous_read %s %s %d %s))" % (OKN, c11.cbytes(f.hex()), c11.cNl(dims), es, cn(addr)), "contig", 8, len(f)))
    for _ in range(n):
        O, L = rng.choice([(8, 8), (8, 8), (4, 4), (2, 2), (8, 4), (4, 8), (8, 1)])
        pre = bytes(rng.randrange(256) for _ in range(rng.choice([0, 8, 24])))
        body = bytes(rng.randrange(1, 256) for _ in range(rng.choice([0, 8, 40])))
        n_total = len(pre) + 8 + 2 * L + O + len(body)
        dsize = rng.choice([len(body), len(body), 0, 1, len(body) + 1, n_total, pick(rng, n_total)]) % (1 << (8 * L))
        daddr = rng.choice([len(pre) + 8 + 2 * L + O, len(pre) + 8 + 2 * L + O, 0, pick(rng, n_total)]) % (1 << (8 * O))
        sig = b"HEAP" if rng.random() < 0.9 else b"HEAQ"
        f = pre + sig + b"\0\0\0\0" + le(dsize, L) + le(rng.choice([1, U]), L) + le(daddr, O) + body
        if rng.random() < 0.15:
            f = f[:rng.randrange(len(f))]
        addr = rng.choice([len(pre)] * 6 + [0, len(f), 1 << 63, U])
        cases.append((dict(k="lheap", file=f.hex(), addr=addr, o=O, l=L),
                      "oval %s (fst (local_heap_load %s %s %d %d))" % (OKN, c11.cbytes(f.hex()), cn(addr), O, L), "lheap", 1, len(f)))
    for _ in range(n):
        os_ = rng.choice([8, 8, 4])
        objs = b""
        for i in range(rng.randrange(0, 5)):
            d = bytes(rng.randrange(256) for _ in range(rng.choice([0, 1, 7, 8, 9, 24])))
            oid = rng.choice([i + 1, i + 1, 0])
            sz = rng.choice([len(d)] * 5 + [pick(rng, 64)]) % (1 << (8 * os_))
            objs += le(oid, 2) + le(1, 2) + b"\0\0\0\0" + le(sz, os_) + d + b"\0" * (-len(d) % 8)
        hs = 8 + os_
        pad = b"\0" * (-hs % 8)
        total = hs + len(pad) + len(objs)
        csize = rng.choice([total] * 6 + [hs, hs - 1, total + 1, total - 1, 0, pick(rng, total)]) % (1 << (8 * os_))
        pre = bytes(rng.randrange(256) for _ in range(rng.choice([0, 8])))
        f = pre + (b"GCOL" if rng.random() < 0.92 else b"GCOX") + bytes([rng.choice([1, 1, 1, 1, 0, 2]), 0, 0, 0]) + le(csize, os_) + pad + objs
        addr = rng.choice([len(pre)] * 6 + [0, len(f), U])
        if rng.random() < 0.1:
            os_ = rng.choice([2, 1, 16])
        cases.append((dict(k="gcol", file=f.hex(), addr=addr, os=os_),
                      "oval vlistN (fst (gcol_read %s %s %d))" % (c11.cbytes(f.hex()), cn(addr), os_), "gcol", 1, len(f)))
    for img, hdr, graph, first in v1_cases(rng):
        cases.append((dict(k="ohdr", file=img.hex(), addr=hdr),
                      "tres_val (fun p => vlistN [fst p]) (v1_header (assoc %s) (N.to_nat 70000) %d)" % (graph, first), "v1chain", 4, len(img)))
    for img, root, graph, (lv, kids) in bt_cases(rng):
        cases.append((dict(k="btree", file=img.hex(), addr=root, nd=1),
                      "tres_val (fun p => vlistN [fst p]) (bt_collect (assoc %s) 256 %d %s [])" % (graph, lv, c11.cNl(kids)), "btree", 4, len(img)))

    # which variant of ReadGroupBTreeEntries is the tree? (notes/fixes/c07-group-node-entry-budget.patch)
    probe_img, _ = amp_image(8, 8)
    probe = run_isolated(H, "c07", [dict(k="gnode", file=probe_img.hex(), addr=0, o=8)])[0]
    capped = probe["c"] == "err"
    cases += group_cases(rng, n, capped) + dense_cases(rng, 2 * n) + loop_cases(rng, n)

    res = run_isolated(H, "c07", [c[0] for c in cases])
    hist = collections.Counter()
    amp = []
    exprs = []
    alloc_bad = []
    for (gc, expr, kind, k, flen), r in zip(cases, res):
        hist[(kind, r["c"])] += 1
        if r["c"] == "harness":
            raise RuntimeError("c07 harness: %s on %r" % (r.get("e"), {kk: vv for kk, vv in gc.items() if kk != "file"}))
        if r["c"] in ("panic", "fatal"):
            viol.append(dict(what="%s: Go %s: %s" % (kind, r["c"], (r.get("e") or "")[:300]), failing_input={kk: (vv if kk != "file" or len(vv) < 4000 else vv[:4000] + "...") for kk, vv in gc.items()}))
            continue
        # per-object bookkeeping (message structs, error values) is allowed 128 bytes per 8 bytes of image on top
        k, c0 = k if isinstance(k, tuple) else (k, 0)
        if kind == "gnode-amp":
            amp.append(dict(image_bytes=flen, go=r["c"], entries=(r.get("v") or [None])[0], allocated=r.get("alloc", 0)))
        if r.get("alloc", 0) > (k + 2 + 16) * flen + 65536 + c0 and not (kind == "gnode-amp" and not capped):
            alloc_bad.append((kind, r["alloc"], flen, gc))
        exprs.append((kind, "val_eqb (%s) %s" % (expr, c11.cval(goval(r))), gc, r))
    for kind, a, flen, gc in alloc_bad[:2]:
        viol.append(dict(what="%s allocated %d bytes for a %d-byte image (bound (k+18)*|file| + 64 KiB)" % (kind, a, flen),
                         failing_input={kk: (vv if kk != "file" or len(vv) < 4000 else vv[:4000] + "...") for kk, vv in gc.items()}))
    jobs = []
    k = 0
    while k < len(exprs):
        size, j = 0, k
        while j < len(exprs) and size < 40000 and j - k < 200:
            size += len(exprs[j][1])
            j += 1
        nm = "m_%d" % k
        text = HDR + "Definition %s : list bool := [%s].\nDefinition bad_%s := Eval vm_compute in mismatches id_bool %s.\nPrint bad_%s.\n" % (
            nm, ";\n".join(e[1] for e in exprs[k:j]), nm, nm, nm)
        jobs.append((k, "bad_" + nm, text))
        k = j
    import concurrent.futures as cf, os
    with cf.ThreadPoolExecutor(max_workers=min(8, os.cpu_count() or 4)) as ex:
        outs = list(ex.map(lambda jb: vlib.coq_eval(jb[2], "c07m_%d" % jb[0]), jobs))
    nbad = 0
    for (k0, lab, _), out in zip(jobs, outs):
        for b in vlib.parse_nlist(out, lab):
            kind, e, gc, r = exprs[k0 + b]
            nbad += 1
            if nbad <= 3:
                viol.append(dict(what="%s: the Go function and the Coq model (Model/Robust*.v) disagree" % kind, nofail=True,
                                 correspondence="Model.Robust* %s vs Go; theorems C07_*_%s" % (kind, kind),
                                 case={kk: (vv if kk != "file" or len(vv) < 3000 else vv[:3000] + "...") for kk, vv in gc.items()}, impl=r, coq_expr=e[:1500]))
    cov["group_walk_variant"] = dict(
        capped=capped, constructed_repeats=amp,
        note=("ReadGroupBTreeEntries refuses repeated/overlapping symbol table nodes (model: group_btree_entries true; theorem C07_group_walk_bounded)" if capped else
              "PROPOSED FINDING C07-group-node-amplification: ReadGroupBTreeEntries follows every child pointer, n pointers to one node of m entries "
              "collect n*m entries (model: group_btree_entries false; theorems C07_group_walk_unrepaired_multiplies / _refuted); "
              "repair: notes/fixes/c07-group-node-entry-budget.patch; the allocation gate is not applied to the constructed repeats on this tree"))
    cov["model_level"] = dict(cases=len(exprs), mismatches=nbad, alloc_gate_failures=len(alloc_bad),
                              outcomes={"%s:%s" % kk: v for kk, v in sorted(hist.items())})
    return len(exprs)
