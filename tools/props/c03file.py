"""C03, whole-file tie of the END-TO-END namespace theorems (coq/theories/Props/C03File.v): the byte image
`tree_image hist` (coq/theories/Model/TreeImage.v: a fold of a byte-level step function over the file - allocate = append at
the end, every creation appends its blocks and rewrites the parent's heap segment and symbol table node in place through
GroupWire.link_heap / link_snod, a hard link also rewrites the target's header with the reference count message) against the
COMPLETE file the library leaves after

    fw := CreateForWrite(f, CreateTruncate, WithSuperblockVersion(2)); <history>; fw.Close()

byte for byte, together with the ok/err answer of every call (harness subcommand `hist` with keep=true; Coq evaluates
`tree_case_ok` by vm_compute; the file travels as hex pieces with run-length encoded zero runs).
Histories: CreateGroup / CreateDataset(+Write) / CreateHardLink (targets: datasets; a few groups) up to depth 4 and 40
creations, names that fill the 256-byte heap, groups filled to the 32-entry capacity, duplicate / missing-parent / missing-target
/ capacity-refused calls in between.  Independent of the model, Python checks on the library's own answers what the theorems
conclude: every call succeeds exactly when the specification (tree with the per-group capacity rule) says so, and the tree
hdf5.Open returns for the file is the specification tree (paths, kinds, hard links share the target's address)."""
import concurrent.futures as cf, json, os, re, shutil, time
import vlib

DTYPES = ["int8", "int16", "int32", "int64", "uint8", "uint16", "uint32", "uint64", "float32", "float64"]
ESZ = {"int8": 1, "int16": 2, "int32": 4, "int64": 8, "uint8": 1, "uint16": 2, "uint32": 4, "uint64": 8, "float32": 4, "float64": 8}
CORR = ("Model.TreeImage.tree_image / tree_oks (byte-level step function: alloc_group, alloc_dataset, prepare_link, link_heap, "
        "link_snod, rc_header, t_close) vs the whole file and the per-call results of CreateForWrite/<history>/Close")
HEADER = "From HV Require Import Base.Prelude Model.TreeImage.\n"
ALPHA = "abcdefghijklmnopqrstuvwxyz_0123456789.-+ ~"
REASONS = {}


# ----------------------------------------------------------------------------- specification oracle
class Spec:
    """the tree with the capacity rule: a group holds at most 32 names whose lengths + 1 sum to at most 256"""

    def __init__(self):
        self.nodes = {"": dict(kind="group", ch={})}      # canonical path -> node; ch: name -> node
        self.root = self.nodes[""]

    def node(self, path):
        n = self.root
        for c in path.split("/")[1:]:
            if n["kind"] != "group" or c not in n["ch"]:
                return None
            n = n["ch"][c]
        return n

    def can_link(self, path):
        if not re.fullmatch(r"(/[^/\0]+)+", path):
            return None, "path"
        parent, name = path.rsplit("/", 1)
        g = self.node(parent)
        if g is None or g["kind"] != "group":
            return None, "parent"
        if name in g["ch"]:
            return None, "dup"
        if sum(len(k) + 1 for k in g["ch"]) + len(name) + 1 > 256:
            return None, "heap"
        if len(g["ch"]) >= 32:
            return None, "snod"
        return (g, name), "ok"

    def apply(self, op):
        path = op["path"]
        if op["op"] == "mkgroup" and len(path) > 1 and path.endswith("/"):
            path = path[:-1]                                   # CreateGroup: strings.TrimSuffix(path, "/")
        slot, why = self.can_link(path)
        if op["op"] == "hardlink":
            t = self.node(op["target"]) if re.fullmatch(r"(/[^/\0]+)+", op["target"]) else None
            if slot is None:
                return False, why
            if t is None:
                return False, "target"
            slot[0]["ch"][slot[1]] = t
            return True, "ok"
        if slot is None:
            return False, why
        slot[0]["ch"][slot[1]] = dict(kind="group", ch={}) if op["op"] == "mkgroup" else dict(kind="dataset", id=op["path"])
        return True, "ok"

    def listing(self):
        out = {}

        def go(n, p):
            out[p or "/"] = n
            if n["kind"] == "group":
                for k, c in n["ch"].items():
                    go(c, p + "/" + k)
        go(self.root, "")
        return out


# ----------------------------------------------------------------------------- generator
def rand_name(rng, long_=False):
    if long_:
        n = rng.choice([30, 50, 60, 63, 84, 100, 127, 200, 254, 255])
    else:
        n = rng.choice([1, 1, 2, 3, 4, 5, 8])
    return "".join(rng.choice(ALPHA) for _ in range(n))


def gen_history(rng, mode):
    """returns the list of hist ops (mkgroup / mkds + write / hardlink); refused calls are part of the history"""
    spec = Spec()
    ops, groups, dsets, created = [], [""], [], 0
    limit = dict(small=rng.randint(1, 8), deep=rng.randint(8, 20), wide=40, names=rng.randint(6, 14), mixed=rng.randint(20, 40))[mode]

    def emit(op):
        nonlocal created
        ok, _ = spec.apply(op)
        ops.append(op)
        if op["op"] == "mkds" and ok:
            ops.append(dict(op="write", path=op["path"], val=op["_data"].hex()))
        if ok:
            created += 1
            if op["op"] == "mkgroup":
                groups.append(op["path"])
            elif op["op"] == "mkds":
                dsets.append(op["path"])
        return ok

    def mkds(path):
        dt = rng.choice(DTYPES)
        dims = [rng.choice([1, 2, 3, 4, 5, 7])] if rng.random() < 0.6 else [rng.choice([1, 2, 3]), rng.choice([1, 2, 3])]
        tot = 1
        for d in dims:
            tot *= d
        return dict(op="mkds", path=path, dtype=dt, dims=dims, _data=bytes(rng.getrandbits(8) for _ in range(tot * ESZ[dt])))

    guard = 0
    while created < limit and guard < 4 * limit + 20:
        guard += 1
        r = rng.random()
        if mode == "wide":
            parent = groups[0] if rng.random() < 0.93 or len(groups) < 2 else groups[1]
        elif mode == "deep":
            parent = groups[-1] if rng.random() < 0.6 and groups[-1].count("/") < 4 else rng.choice(groups)
        else:
            parent = rng.choice(groups)
        if parent.count("/") >= 4:
            parent = rng.choice([g for g in groups if g.count("/") < 4])
        name = rand_name(rng, long_=(mode == "names" and rng.random() < 0.7) or rng.random() < 0.03)
        path = parent + "/" + name
        if r < 0.08 and (groups[1:] or dsets):                 # duplicate of something that exists
            path = rng.choice(groups[1:] + dsets)
        elif r < 0.13:                                          # missing parent
            path = parent + "/nope" + rand_name(rng) + "/" + name
        elif r < 0.16 and dsets:                                # a dataset as parent
            path = rng.choice(dsets) + "/" + name
        k = rng.random()
        if k < (0.25 if mode == "wide" else 0.45 if mode == "deep" else 0.35):
            emit(dict(op="mkgroup", path=path + ("/" if rng.random() < 0.05 else "")))
        elif k < 0.8 or not dsets:
            emit(mkds(path))
        else:
            tgt = rng.choice(dsets) if rng.random() < 0.9 else rng.choice(dsets) + "x"
            emit(dict(op="hardlink", path=path, target=tgt))
    return ops


def gen_cases(rng, tier):
    fixed = [
        [dict(op="mkds", path="/d", dtype="uint8", dims=[3], _data=bytes([1, 2, 3])), dict(op="write", path="/d", val="010203")],
        [dict(op="mkgroup", path="/g"), dict(op="mkgroup", path="/g/h"), dict(op="mkgroup", path="/g/h/i"), dict(op="mkgroup", path="/g/h/i/j"),
         dict(op="mkds", path="/g/h/i/j/d", dtype="float64", dims=[1], _data=bytes(range(8))), dict(op="write", path="/g/h/i/j/d", val=bytes(range(8)).hex()),
         dict(op="hardlink", path="/l1", target="/g/h/i/j/d"), dict(op="hardlink", path="/g/l2", target="/g/h/i/j/d"),
         dict(op="hardlink", path="/g/l2", target="/g/h/i/j/d"), dict(op="mkgroup", path="/q/r"), dict(op="hardlink", path="/l3", target="/nothing")],
    ]
    modes = (["small"] * 5 + ["deep"] * 2 + ["names"] * 3 + ["mixed"] * 2 + ["wide"]) if tier != "thorough" else \
            (["small"] * 30 + ["deep"] * 12 + ["names"] * 14 + ["mixed"] * 12 + ["wide"] * 6)
    hs = fixed + [gen_history(rng, m) for m in modes]
    return hs


# ----------------------------------------------------------------------------- transport
def wire_op(o):
    return {k: v for k, v in o.items() if not k.startswith("_")}


def runs(b, minrun=24):
    """[(hex piece, zeros that follow)]"""
    out, i, n = [], 0, len(b)
    for m in re.finditer(rb"\x00{%d,}" % minrun, b):
        s, e = m.span()
        piece = b[i:s]
        while len(piece) > 1500:
            out.append((piece[:1500], 0))
            piece = piece[1500:]
        out.append((piece, e - s))
        i = e
    piece = b[i:]
    while len(piece) > 1500:
        out.append((piece[:1500], 0))
        piece = piece[1500:]
    if piece or not out:
        out.append((piece, 0))
    return out


def coq_ops(ops):
    terms, i = [], 0
    while i < len(ops):
        o = ops[i]
        if o["op"] == "mkgroup":
            terms.append('(0, "%s"%%string, ""%%string, 0, [])' % o["path"].encode().hex())
        elif o["op"] == "mkds":
            terms.append('(1, "%s"%%string, "%s"%%string, %d, %s)' % (o["path"].encode().hex(), o["_data"].hex(), DTYPES.index(o["dtype"]), vlib.cNlist(o["dims"])))
        elif o["op"] == "hardlink":
            terms.append('(2, "%s"%%string, "%s"%%string, 0, [])' % (o["path"].encode().hex(), o["target"].encode().hex()))
        i += 1
    return "[" + ";\n ".join(terms) + "]"


def _eval_one(args):
    k, ops, oks, fileb = args
    v = [HEADER]
    v.append("Definition cs : list (list (N * string * string * N * list N) * list bool * list (string * N)) := [\n(%s,\n [%s],\n [%s])].\n" % (
        coq_ops(ops), ";".join("true" if x else "false" for x in oks),
        "; ".join('("%s"%%string, %d)' % (p.hex(), z) for p, z in runs(fileb))))
    v.append("Definition bad := Eval vm_compute in mismatches tree_case_ok cs.\nPrint bad.\n")
    out = vlib.coq_eval("".join(v), "c03file_%d" % k)
    return [k for _ in vlib.parse_nlist(out, "bad")]


def coq_bad(items, workers=8):
    with cf.ThreadPoolExecutor(max_workers=workers) as ex:
        return sorted(i for r in ex.map(_eval_one, items) for i in r)


# ----------------------------------------------------------------------------- independent specification check
def py_spec(ops, res, fileb):
    probs = []
    spec = Spec()
    calls = [o for o in ops if o["op"] != "write"]
    for o, r in zip(ops, res["results"]):
        if o["op"] == "write":
            if not r.get("ok"):
                probs.append("Write on the dataset %s failed: %s" % (o["path"], r.get("err")))
            continue
        want, why = spec.apply(o)
        REASONS[why] = REASONS.get(why, 0) + 1
        if bool(r.get("ok")) != want:
            probs.append("%s %s: the library answered %s, the specification %s (%s)" % (o["op"], o["path"], "ok" if r.get("ok") else "error: " + str(r.get("err"))[:120], "ok" if want else "error", why))
    fin = res.get("final") or {}
    if fin.get("openerr") or fin.get("panic"):
        probs.append("the file does not open: %s" % (fin.get("openerr") or fin.get("panic"))[:200])
        return probs, len(calls)
    got = {(o["path"].rstrip("/") or "/"): o for o in fin.get("objects", [])}     # Walk reports groups as "/g/"
    want = spec.listing()
    if set(got) != set(want):
        probs.append("paths after reopen differ: missing %s, extra %s" % (sorted(set(want) - set(got))[:4], sorted(set(got) - set(want))[:4]))
        return probs, len(calls)
    byid = {}
    for p, n in want.items():
        if got[p]["kind"] != n["kind"]:
            probs.append("%s is a %s, built as %s" % (p, got[p]["kind"], n["kind"]))
        if n["kind"] == "dataset":
            byid.setdefault(n["id"], set()).add(got[p]["addr"])
        else:
            if sorted(bytes.fromhex(c).decode() for c in got[p].get("children") or []) != sorted(n["ch"]):
                probs.append("children of %s differ" % p)
    for i, addrs in byid.items():
        if len(addrs) != 1:
            probs.append("the links to dataset %s resolve to different addresses %s" % (i, sorted(addrs)))
    alla = [next(iter(a)) for a in byid.values()]
    if len(set(alla)) != len(alla):
        probs.append("two datasets share an address")
    if fin.get("eof") != len(fileb):
        probs.append("superblock end-of-file address %s, file length %d" % (fin.get("eof"), len(fileb)))
    return probs, len(calls)


def run_unit(ctx):
    H, rng = ctx.harness, ctx.rng
    t0 = time.time()
    builddir = os.path.join(vlib.BUILD, "scratch")
    os.makedirs(builddir, exist_ok=True)
    hists = gen_cases(rng, ctx.tier)
    REASONS.clear()
    wire = [dict(sb=2, ops=[wire_op(o) for o in ops], dir=builddir, keep=True, nodata=True) for ops in hists]
    res = vlib.run_harness(H, "hist", wire)
    viol, items, kept, samples = [], [], [], []
    ncalls = nrefused = 0
    maxdepth = maxfile = maxcreate = 0
    for k, (ops, w, r) in enumerate(zip(hists, wire, res)):
        case = dict(sb=2, ops=w["ops"])
        path = r.get("file")
        fileb = None
        try:
            if path and os.path.exists(path):
                fileb = open(path, "rb").read()
        finally:
            if path:
                shutil.rmtree(os.path.dirname(path), ignore_errors=True)
        if fileb is None or not (r.get("create") or {}).get("ok") or not (r.get("final_close") or {}).get("ok") or "results" not in r:
            viol.append(dict(what="c03file: the library failed to create / close the file: %s" % json.dumps(dict(create=r.get("create"), close=r.get("final_close")))[:300],
                             failing_input=case, impl=dict(create=r.get("create"), final_close=r.get("final_close"))))
            continue
        if any(x.get("panic") for x in r["results"]):
            viol.append(dict(what="c03file: a creation call panicked", failing_input=case, impl=[x for x in r["results"] if x.get("panic")][:1]))
            continue
        probs, n = py_spec(ops, r, fileb)
        ncalls += n
        if probs:
            viol.append(dict(what="c03file: " + probs[0], failing_input=case, impl=dict(results=r["results"], objects=[(o["path"], o["kind"], o["addr"]) for o in ((r.get("final") or {}).get("objects") or [])][:80]), problems=probs[:10]))
            continue
        oks = [bool(x.get("ok")) for o, x in zip(ops, r["results"]) if o["op"] != "write"]
        nrefused += oks.count(False)
        maxcreate = max(maxcreate, oks.count(True))
        maxdepth = max([maxdepth] + [o["path"].rstrip("/").count("/") for o, x in zip(ops, r["results"]) if x.get("ok")])
        maxfile = max(maxfile, len(fileb))
        items.append((k, ops, oks, fileb))
        kept.append((k, case, fileb))
    bad = coq_bad(items) if items else []
    for k in bad:
        case, fileb = [(c, f) for kk, c, f in kept if kk == k][0]
        viol.append(dict(what="c03file: the file written by the library (or a call's ok/err answer) differs from Model.TreeImage.tree_image / tree_oks",
                         case=case, impl=dict(file_len=len(fileb), file_head=fileb[:3000].hex()), nofail=True, correspondence=CORR))
    for k, case, fileb in kept[:2]:
        samples.append(dict(ops=[(o["op"], o["path"]) for o in case["ops"][:8]], nops=len(case["ops"]), file_len=len(fileb)))
    return dict(violations=viol, known=[], evaluations=ncalls, distinct=len({json.dumps(c, sort_keys=True) for _, c, _ in kept}), samples=samples,
                rule="whole file compared byte for byte with tree_image and every call's ok/err with tree_oks; evaluations = API calls replayed, "
                     "distinct = distinct histories", histories=len(hists), refused_calls=nrefused, specification_answers=dict(REASONS), max_successful_creations=maxcreate, max_depth=maxdepth,
                max_file_bytes=maxfile, wall=round(time.time() - t0, 1))
