"""C02 - attribute write/delete histories behave like a name -> value map (after reopen)."""
import histcheck, histgen
from histlib import hx

TRUSTED = ["C02: tools/histlib.py map oracle (last successful write wins; deletes remove) and the hist harness glue"]


def one_history(rng, nops, target_kinds=("ds", "ds", "ds", "grp"), spec_safe=False):
    first = [{"op": "mkds", "path": "/d", "dtype": "int32", "dims": [2]}, {"op": "write", "path": "/d", "val": "0100000002000000"}]
    if rng.random() < 0.3:      # the attribute target is a compound / array / enum / opaque / reference dataset (a larger datatype message in its header)
        if rng.random() < 0.5:
            comp = histgen.rand_compound(rng, spec_safe)
            d = dict(dtype="compound", dims=[2], comp=comp, csize=comp["csize"])
            first = [dict({"op": "mkcompound", "path": "/d", "dims": [2]}, **comp), histgen.write_op(rng, "/d", d)]
        else:
            f = histgen.rand_ext_kind(rng, spec_safe, vlen=False)
            first = [dict({"op": "mkds", "path": "/d", "dims": [2]}, **f), histgen.write_op(rng, "/d", dict(f, dims=[2]))]
    ops = first + [
           {"op": "mkgroup", "path": "/g"}, {"op": "mkds", "path": "/e", "dtype": "float64", "dims": [1]},
           {"op": "write", "path": "/e", "val": "0000000000000840"}]
    names = histgen.name_pool(rng, rng.choice([2, 4, 9, 12, 20, 40]), long_names=rng.random() < 0.3)
    tgt = {"ds": "/d", "grp": "/g"}[rng.choice(target_kinds)]
    big = rng.random() < 0.2
    for _ in range(nops):
        nm = rng.choice(names)
        if tgt == "/d" and rng.random() < 0.3:
            ops.append({"op": "delattr", "path": tgt, "name": hx(nm)})
        else:
            k, v = histgen.rand_attr_value(rng, big=big)
            ops.append({"op": "setattr", "path": tgt, "name": hx(nm), "kind": k, "val": v.hex()})
        if rng.random() < 0.02:      # a value beyond the 64 KiB heap object limit: refused in dense storage (also on an EXISTING name: nothing of
            # the half-done delete+insert may survive into the next successful call - seeded change C02-d), accepted nowhere
            huge = rng.choice([66000, 70000, 9000 * 8])
            ops.append({"op": "setattr", "path": tgt, "name": hx(rng.choice(names)), "kind": rng.choice(["str", "[]f64"]),
                        "val": (bytes([66]) * (huge - huge % 8)).hex()})
        if rng.random() < 0.03:      # an attribute on the neighbour in between
            k, v = histgen.rand_attr_value(rng)
            ops.append({"op": "setattr", "path": "/e", "name": hx(rng.choice(names)), "kind": k, "val": v.hex()})
    return ops


def _collision_case():
    ops = [{"op": "mkds", "path": "/d", "dtype": "int32", "dims": [1]}]
    # enough attributes to be in dense storage, then two names with equal lookup3 hash ("ayou" / "cpxv")
    for i in range(6):
        ops.append({"op": "setattr", "path": "/d", "name": hx("pad%d" % i), "kind": "[]f64", "val": "00" * 64})
    ops.append({"op": "setattr", "path": "/d", "name": hx("ayou"), "kind": "i32", "val": "01000000"})
    ops.append({"op": "setattr", "path": "/d", "name": hx("cpxv"), "kind": "i32", "val": "02000000"})
    return {"sb": 2, "ops": ops}


KNOWN = [dict(id="C02-hash-collision", match="has attributes", case=_collision_case()),
         dict(id="C02-dense-volume-multi-block", match="appears twice",
              case={"sb": 2, "ops": [{"op": "mkds", "path": "/d", "dtype": "int32", "dims": [1]}] +
                    [{"op": "setattr", "path": "/d", "name": hx("a%d" % i), "kind": "[]f64", "val": "01" * 8000} for i in range(9)]})]


def cases_for(rng, tier):
    n = 1200 if tier == "quick" else 40000
    cases = [{"sb": rng.choice([0, 2, 3]), "ops": one_history(rng, rng.choice([3, 8, 15, 30, 60, 120, 300]))} for _ in range(n)]
    # the same map through several live handles of one dataset in reopened sessions
    cases += [{"sb": rng.choice([0, 2, 3]), "ops": histgen.gen_handles(rng, nsess=rng.choice([1, 2]), nops=rng.choice([12, 30]))}
              for _ in range(200 if tier == "quick" else 6000)]
    # exhaustive short histories over 2 names x 3 values (set/delete), length <= 4 (quick) / 5 (thorough)
    import itertools
    vals = [("i32", "01000000"), ("str", "6162"), ("[]f64", "000000000000f03f0000000000000040")]
    alphabet = [("set", nm, v) for nm in ("a", "bb") for v in vals] + [("del", nm, None) for nm in ("a", "bb")]
    L = 3 if tier == "quick" else 5
    for l in range(1, L + 1):
        for seq in itertools.product(alphabet, repeat=l):
            ops = [{"op": "mkds", "path": "/d", "dtype": "int32", "dims": [1]}]
            for kind, nm, v in seq:
                if kind == "set":
                    ops.append({"op": "setattr", "path": "/d", "name": hx(nm), "kind": v[0], "val": v[1]})
                else:
                    ops.append({"op": "delattr", "path": "/d", "name": hx(nm)})
            cases.append({"sb": 2, "ops": ops})
    return cases


def run(ctx):
    return histcheck.run(ctx, cases_for(ctx.rng, ctx.tier), "C02", tags={"attr", "must-fail-accepted"}, known=KNOWN, unit_modules=["c02unit", "c02file"],
                         rule_extra="C02 cases: attribute histories of 3..300 calls on a dataset or a group hovering around the 8-attribute "
                                    "compact/dense threshold and the header-full point, same-size and different-size overwrites, deletes of "
                                    "present/absent names, all value kinds; plus all histories of length <= 3 (quick) / 5 (thorough) over 2 names x 3 values.")
