"""C20 - FP8 / bfloat16 conversions.

Tie: the Go encoders are run on ALL 2^32 float32 bit patterns (run-length encoded by the harness);
every run [s,e]->code is cut at the sign/NaN segment boundaries and its two end points are evaluated
in the Coq model.  Theorems C20_run_lifting_e4m3/_e5m2/_bf16 (Props/C20.v: the model encoder is
monotone inside a number segment and constant on an FP8 NaN segment; a bfloat16 NaN run must stay inside
one 65536-block, which run_ok_bf16 checks) lift agreement at the two end points to agreement on the
whole run, so model == code on the full domain.  Decoders and byte codecs are compared on every code.
An independent exact-rational oracle (Python fractions) classifies any disagreement.
"""
import subprocess, time
from fractions import Fraction
import vlib

TRUSTED = ["C20: floor(math.Log2), division by powers of two and math.RoundToEven in the FP8 encoders are modelled by their exact values; "
           "the exhaustive Go-vs-model comparison over all 2^32 inputs is what validates that replacement"]
ASSUMPTIONS = ["Go float32 arithmetic is IEEE-754 binary32 on this platform"]

FMT = {"e4m3": (3, 7, "E4M3"), "e5m2": (2, 15, "E5M2")}
SEG = [0, 0x7F800001, 0x80000000, 0xFF800001, 1 << 32]


# ---------------- independent oracle (exact rationals) ----------------
def f32_value(bits):
    s, e, f = bits >> 31, (bits >> 23) & 0xFF, bits & 0x7FFFFF
    if e == 255:
        return None if f else (Fraction(-1) ** s, "inf")
    v = Fraction(f, 1 << 23) * Fraction(2) ** -126 if e == 0 else (1 + Fraction(f, 1 << 23)) * Fraction(2) ** (e - 127)
    return (-v if s else v, "fin")


def fp8_grid(M, bias):
    emax = (1 << (7 - M)) - 1
    vals = []
    for c in range(emax << M):
        e, m = c >> M, c & ((1 << M) - 1)
        vals.append(Fraction(m, 1 << M) * Fraction(2) ** (1 - bias) if e == 0 else (1 + Fraction(m, 1 << M)) * Fraction(2) ** (e - bias))
    nxt = Fraction(2) ** (emax - bias)
    return vals, nxt


def bf16_grid_value(c):
    return f32_value(c << 16)[0]


def oracle_fp8(fmt, bits):
    """Expected code for a non-NaN input; None for NaN (any NaN code would do)."""
    M, bias, _ = FMT[fmt]
    fv = f32_value(bits)
    if fv is None:
        return None
    s = bits >> 31
    if fv[1] == "inf":
        return (s << 7) | 0x7F
    x = abs(fv[0])
    vals, nxt = fp8_grid(M, bias)
    if 2 * x >= vals[-1] + nxt:
        return (s << 7) | 0x7F
    best = min(range(len(vals)), key=lambda c: (abs(vals[c] - x), c & 1))
    return (s << 7) | best


def oracle_bf16(bits):
    fv = f32_value(bits)
    if fv is None:
        return None
    s = bits >> 31
    mag = bits & 0x7FFFFFFF
    q, r = mag >> 16, mag & 0xFFFF
    if r > 0x8000 or (r == 0x8000 and q & 1):
        q += 1
    return (s << 15) | q      # carry into the exponent / to 0x7F80 (inf) is exactly IEEE behaviour


def split_runs(lines):
    """'start code' lines -> list of (s, e, code) cut at the segment boundaries."""
    starts = [(int(a), int(b)) for a, b in (l.split() for l in lines)]
    out = []
    for i, (s, c) in enumerate(starts):
        e = (starts[i + 1][0] if i + 1 < len(starts) else 1 << 32) - 1
        cuts = [b for b in SEG if s < b <= e]
        lo = s
        for b in cuts:
            out.append((lo, b - 1, c))
            lo = b
        out.append((lo, e, c))
    return out


def run(ctx):
    H, rng = ctx.harness, ctx.rng
    viol, known, samples = [], [], []
    evaluations = 0
    vparts = ["From HV Require Import Base.Prelude Model.LowFloat Model.LowFloatTie.\n"]
    labels = []
    all_runs = {}
    # ---- encoders: exhaustive run-length scan by the implementation
    for fmt in ("e4m3", "e5m2", "bf16"):
        p = subprocess.run([H, "c20runs", fmt, "0", str(1 << 32)], capture_output=True, text=True, timeout=1200)
        if p.returncode != 0:
            raise RuntimeError("c20runs failed: " + p.stderr[-2000:])
        runs = split_runs(p.stdout.splitlines())
        all_runs[fmt] = runs
        evaluations += 1 << 32
        if fmt == "bf16" and ctx.tier == "quick":
            # 65k runs: the quick tier sends a boundary-biased sample of runs to Coq, the thorough tier all
            idx = set(range(0, 300)) | set(range(len(runs) - 300, len(runs)))
            for b in SEG[1:-1]:
                j = min(range(len(runs)), key=lambda i: abs(runs[i][0] - b))
                idx |= set(range(max(0, j - 150), min(len(runs), j + 150)))
            idx |= set(rng.sample(range(len(runs)), 3000))
            sel = [runs[i] for i in sorted(idx)]
        else:
            sel = runs
        # end-point predicate whose lifting theorem is C20_run_lifting_<fmt>; bfloat16 keeps NaN payloads, so its
        # predicate additionally keeps a NaN run inside one 65536-block (see Model/LowFloatTie.v)
        pred = "run_ok_bf16" if fmt == "bf16" else "run_ok (fp8_enc %s)" % FMT[fmt][2]
        for k in range(0, len(sel), 3000):
            name = "runs_%s_%d" % (fmt, k)
            vparts.append("Definition %s : list (N*N*N) := [%s].\n" % (
                name, ";".join("(%d,%d,%d)" % r for r in sel[k:k + 3000])))
            vparts.append("Definition bad_%s := Eval vm_compute in mismatches (%s) %s.\n" % (name, pred, name))
            labels.append(("bad_" + name, fmt, sel[k:k + 3000]))
        samples.append({"fmt": fmt, "runs_total": len(runs), "runs_checked_in_coq": len(sel), "first": runs[:3], "last": runs[-2:]})
    # ---- decoders and byte codec on every code
    dec_cases = {}
    for fmt, ncodes in (("e4m3", 256), ("e5m2", 256), ("bf16", 65536)):
        codes = list(range(ncodes))
        res = vlib.run_harness(H, "c20", [{"fmt": fmt, "enc": [], "dec": codes}])[0]
        if "panic" in res:
            viol.append(dict(what="decoder panicked", fmt=fmt, impl=res))
            continue
        dec = [0x7FC00000 if (d & 0x7FFFFFFF) > 0x7F800000 else d for d in res["dec"]]
        dec_cases[fmt] = dec
        evaluations += ncodes
        if fmt == "bf16" and ctx.tier == "quick":
            pick = sorted(set(range(0, 512)) | set(range(0x7F00, 0x8100)) | set(range(0xFF00, 0x10000)) | set(rng.sample(codes, 4000)))
        else:
            pick = codes
        decf = "bf16_dec" if fmt == "bf16" else "fp8_dec " + FMT[fmt][2]
        for k in range(0, len(pick), 4000):
            name = "dec_%s_%d" % (fmt, k)
            chunk = [(c, dec[c]) for c in pick[k:k + 4000]]
            vparts.append("Definition %s : list (N*N) := [%s].\n" % (name, ";".join("(%d,%d)" % x for x in chunk)))
            vparts.append("Definition bad_%s := Eval vm_compute in mismatches (fun c => canon_nan (%s (fst c)) =? snd c) %s.\n" % (name, decf, name))
            labels.append(("bad_" + name, fmt + "-dec", chunk))
        if fmt == "bf16":
            for c, (b, back) in zip(codes, res["bytes"]):
                if b != c or back != c:
                    viol.append(dict(what="bfloat16 byte encoding does not round-trip", code=c, impl=[b, back]))
    vparts.append("Definition ALLBAD := Eval vm_compute in [%s].\nPrint ALLBAD.\n" % ";".join("N.of_nat (List.length %s)" % l[0] for l in labels))
    for l in labels:
        vparts.append("Print %s.\n" % l[0])
    out = vlib.coq_eval("".join(vparts), "c20cases")
    counts = vlib.parse_nlist(out, "ALLBAD")
    ncoq = sum(len(l[2]) for l in labels)
    for (lab, what, chunk), n in zip(labels, counts):
        if n == 0:
            continue
        bad = vlib.parse_nlist(out, lab)
        for i in bad[:3]:
            case = chunk[i]
            v = dict(what="implementation and Coq model disagree (%s)" % what, case=case)
            if not what.endswith("-dec"):
                fmt = what
                s, e, code = case
                # search the run for an input on which the implementation violates the specification
                fail = None
                probe = [s, e, (s + e) // 2] + [rng.randrange(s, e + 1) for _ in range(2000)]
                for x in probe:
                    exp = oracle_bf16(x) if fmt == "bf16" else oracle_fp8(fmt, x)
                    if exp is not None and exp != code:
                        fail = dict(input_f32_bits=x, impl_code=code, spec_code=exp)
                        break
                if fail:
                    v["what"] = "%s: float32 0x%08x converts to code 0x%x, nearest-even is 0x%x" % (fmt, fail["input_f32_bits"], code, fail["spec_code"])
                    v["failing_input"] = fail
                else:
                    v["nofail"] = True
                    v["correspondence"] = "Model.LowFloat.%s vs Go encoder; theorem C20_%s" % (fmt, fmt)
            else:
                v["failing_input"] = dict(code=case[0], impl_f32_bits=case[1])
                v["what"] = "%s: code 0x%x decodes to 0x%08x, the format's value differs" % (what, case[0], case[1])
            viol.append(v)
    # ---- specification evaluated directly on implementation outputs (independent of the model)
    spec_checked = 0
    for fmt, runs in all_runs.items():
        code_at = {}
        for s_, e_, c_ in (runs if fmt != "bf16" else rng.sample(runs, 6000)):
            code_at[s_] = c_
            code_at[e_] = c_
        for x in sorted(code_at):
            exp = oracle_bf16(x) if fmt == "bf16" else oracle_fp8(fmt, x)
            spec_checked += 1
            if exp is not None and exp != code_at[x]:
                viol.append(dict(what="%s: float32 0x%08x converts to code 0x%x, nearest-even is 0x%x" % (fmt, x, code_at[x], exp),
                                 failing_input=dict(fmt=fmt, input_f32_bits=x, impl_code=code_at[x], spec_code=exp)))
                break
    # ---- code -> float32 -> code
    for fmt in ("e4m3", "e5m2", "bf16"):
        if fmt not in dec_cases:
            continue
        dec = dec_cases[fmt]
        ncodes = len(dec)
        back = vlib.run_harness(H, "c20", [{"fmt": fmt, "enc": dec, "dec": []}])[0]["enc"]
        nanfail = 0
        for c in range(ncodes):
            isnan = dec[c] == 0x7FC00000 if fmt != "bf16" else ((c & 0x7FFF) > 0x7F80)
            if isnan:
                bd = vlib.run_harness(H, "c20", [{"fmt": fmt, "enc": [], "dec": [back[c]]}])[0]["dec"][0] if fmt != "bf16" else (back[c] << 16)
                if (bd & 0x7FFFFFFF) <= 0x7F800000:
                    nanfail += 1
            elif back[c] != c:
                viol.append(dict(what="%s: code 0x%x -> float32 -> code gives 0x%x" % (fmt, c, back[c]), failing_input=dict(fmt=fmt, code=c, back=back[c])))
        if nanfail:
            if fmt == "bf16":
                viol.append(dict(what="bf16: %d NaN codes do not stay NaN" % nanfail, failing_input=dict(fmt=fmt)))
            else:
                kf = [k for k in vlib.known_findings("C20") if k["id"] == "C20-fp8-nan-is-inf-code"]
                if kf:
                    known.append("%s: %d NaN codes re-encode to 0x7F, which the decoder defines as +Inf (%s)" % (fmt, nanfail, kf[0]["id"]))
                else:
                    viol.append(dict(what="%s: NaN codes do not stay NaN (re-encode to 0x7F = +Inf)" % fmt, failing_input=dict(fmt=fmt, code=0x7E)))
    cov = dict(evaluations=evaluations, distinct_nontrivial=sum(len(r) for r in all_runs.values()),
               rule="every float32 bit pattern is converted by the Go encoders (3 formats x 2^32, run-length encoded); a run is "
                    "non-trivial/distinct as a maximal interval with one code inside a sign/NaN segment; each checked run's end points are "
                    "evaluated in the Coq model and lifted to the whole run by theorem C20_run_lifting; decoders on every code",
               samples=samples, exhaustive=(ctx.tier == "thorough"),
               model_evaluations_in_coq=ncoq, spec_oracle_points=spec_checked,
               programs=3, disagreements_checked=ncoq)
    return dict(violations=viol, known=known, coverage=cov)
