"""The three C06 repair switches of the reader models, read from the source tree under test (DESIGN 4.4: a syntactic fact
regenerated from the source on every run).

    superblock  Model/CodecSuper.v  superblock_sizes_repaired   notes/fixes/c06-superblock-sizes.patch
    attribute   Model/CodecAttr.v   attribute_v2_unpadded       notes/fixes/c06-attribute-v2-padding.patch
    pipeline    Model/CodecFilter.v pipeline_v2_names (and Model/Filters.v filters_v2_names)
                                                                 notes/fixes/c06-pipeline-v2-filter-name.patch

True = the tree has the repaired code, False = the code before the repair.  The ties of C11 / C07 / C08 / C06 compare the
implementation with dec_X_gen <switch> (Coq has theorems for both values: the old behaviour is stated as `_refuted` in
Props/C06Reader.v, the round trips / no-panic statements hold for both).  A tree that has only a part of one repair is not
a tree the one-switch model follows: fail loudly.
"""
import os, re
import vlib


def _src(rel):
    return open(os.path.join(vlib.REPO, rel)).read()


def superblock():
    s = _src("internal/core/superblock.go")
    new_v2 = re.search(r"offsetSize = buf\[9\]\s*\n\s*lengthSize = buf\[10\]", s) is not None
    new_v0 = "readValue(entry+int(offsetSize), offsetSize)" in s and "readValue(scratch, offsetSize)" in s and \
             "readValue(scratch+int(offsetSize), offsetSize)" in s
    old_v0 = "readValue(64, offsetSize)" in s and "readValue(80, offsetSize)" in s and "readValue(88, offsetSize)" in s
    if new_v2 and new_v0 and not old_v0:
        return True
    if not new_v2 and not new_v0 and old_v0:
        return False
    raise RuntimeError("c06switch: internal/core/superblock.go has neither the old nor the repaired ReadSuperblock "
                       "(v2/v3 sizes from bytes 9/10: %s, v0 computed positions: %s, v0 fixed positions: %s)" % (new_v2, new_v0, old_v0))


def attribute():
    s = _src("internal/core/attribute.go")
    f = s[s.index("func ParseAttributeMessage("):]
    f = f[:f.index("\nfunc ")]
    n2, n3 = len(re.findall(r"if version < 2 \{", f)), len(re.findall(r"if version < 3 \{", f))
    shared = re.search(r"if version >= 2 && flags&0x03 != 0 \{\s*return nil,", f) is not None
    if (n2, n3) == (3, 0) and shared:
        return True
    if (n2, n3) == (0, 3) and not shared:
        return False
    raise RuntimeError("c06switch: ParseAttributeMessage pads with `version < 2` in %d and `version < 3` in %d places, "
                       "refuses shared datatype / dataspace flags: %s - neither the old nor the repaired code" % (n2, n3, shared))


def pipeline():
    s = _src("internal/core/filterpipeline.go")
    new = "hasName := v1Layout || filter.ID >= 256" in s and "if hasName && nameLength > 0" in s
    old = re.search(r"if v1Layout \{\s*\n\s*nameLength = ", s) is not None and "if v1Layout && nameLength > 0" in s
    if new and not old:
        return True
    if old and not new:
        return False
    raise RuntimeError("c06switch: internal/core/filterpipeline.go has neither the old nor the repaired name-length rule")


def cb(x):
    return "true" if x else "false"


def all_switches():
    return dict(superblock=superblock(), attribute=attribute(), pipeline=pipeline())
